"""C04 - input coordinates are preserved; only rigid side-chain rotations move atoms."""

import json
import math
import types

from harness import cellmon, core
from harness.props import c01

META = {
    "id": "C04",
    "level": "proof",
    "technique": "Coq proof (graph lemma for all bond graphs / all isometries) + vm_compute table obligation over every template x dihedral regenerated from the topology XML; exhaustive correspondence of the moveable-set model with residue.py/biomolecule.py; coordinate-writer monitor and rigid-geometry oracle on real runs",
    "level_text": (
        "Proved for ALL bond graphs and ANY distance-preserving motion fixing the axis atoms: moving a set that meets the boolean "
        "rigidity conditions preserves every bond length and bond angle and leaves all other atoms bit-identical. A generated obligation "
        "(vm_compute over the topology regenerated from /repo) shows the conditions for every amino-acid template (all terminal and "
        "protonation variants) x every dihedral x terminus flags, incl. 'no backbone atom is selected'. The selection model is tied to "
        "set_reference_distance + get_moveable_names by exhaustive comparison on all templates and on every call observed in real runs. "
        "That the motion applied is a rotation about the axis is C15's theorem (rot_isometry / rot_fixes_axis); that no other code writes "
        "input heavy atoms, and the no-op modes, are observed on real runs (monitor), not proved. Inter-residue S-S bonds are outside the lemma."
    ),
    "level_note": (
        "Trusted: Coq kernel+vm_compute; generators gen/topology.py, gen/moves_table.py; hand model Model/Moves.v (tied by exhaustive differential "
        "execution); the monitor (monkeypatches Atom.__setattr__, Debump.set_dihedral_angle); float rounding of the rotation is not verified "
        "(geometry compared with 1e-6 tolerance)."
    ),
    "design_ref": "DESIGN.md 4 C04",
}

THEOREMS = ["C04_bond_preserved", "C04_angle_preserved", "C04_frame", "C04_heavy_subtree_table", "C04_nonvacuous", "C04_rank_selection_refuted"]

HEADER = "From Coq Require Import List String Bool PArith.\nFrom PV Require Import Model.ForceField Model.Topology Model.Moves Generated.Topology Generated.MovesTable.\nImport ListNotations.\nOpen Scope string_scope.\n"

SHOW = """
Definition show_moves (nt ct : bool) : string :=
  String.concat ";" (map (fun p => match ranks nm nt ct (tgraph (fst p)) with
     | None => "GAP"
     | Some rk => String.concat " " (map name_of (moveable (tgraph (fst p)) rk (let '(_, _, c, _) := snd p in c))) end) pairs).
Definition show_pairs : string := String.concat ";" (map show_pair pairs).
"""


# ---- (A) exhaustive template correspondence ----------------------------------


def fake_residue(tmpl, nt, ct):
    """A real aa.Amino instance (no __init__) carrying the template's atoms and bonds."""
    from pdb2pqr import aa, structures

    r = object.__new__(aa.Amino)
    r.atoms = []
    r.map = {}
    r.is_n_term = nt
    r.is_c_term = ct
    r.name = tmpl.name
    for an in tmpl.map:
        if an in ("N+1", "C-1"):
            continue
        a = object.__new__(structures.Atom)
        a.name = an
        a.residue = r
        a.bonds = []
        a.refdistance = None
        r.atoms.append(a)
        r.map[an] = a
    for an, ta in tmpl.map.items():
        if an not in r.map:
            continue
        for b in ta.bonds:
            if b in r.map:
                r.map[an].bonds.append(r.map[b])
    return r


def impl_moves(definition, nt, ct):
    from pdb2pqr import biomolecule as pbio

    out = []
    labels = []
    for rname, tmpl in definition.map.items():
        if not ("CA" in tmpl.map and "N" in tmpl.map and "C" in tmpl.map and tmpl.dihedrals):
            continue
        r = fake_residue(tmpl, nt, ct)
        try:
            pbio.Biomolecule.set_reference_distance(types.SimpleNamespace(residues=[r]))
            gap = False
        except ValueError:
            gap = True
        for d in tmpl.dihedrals:
            labels.append(f"{rname}:{' '.join(d.split())}")
            out.append("GAP" if gap else " ".join(r.get_moveable_names(d.split()[2])))
    return labels, out


# ---- (B)+(C) real runs ------------------------------------------------------------

QUICK = [
    ("1AJJ.pdb", ["--ff=AMBER"], False),
    ("1A1P.pdb", ["--ff=PARSE"], False),
    ("cterm_hid.pdb", ["--ff=AMBER"], False),
    ("1BX8.pdb", ["--ff=CHARMM"], False),
    ("1AJJ.pdb", ["--ff=AMBER", "--clean"], True),
    ("1BX8.pdb", ["--ff=AMBER", "--assign-only"], True),
    ("1AJJ.pdb", ["--ff=PARSE", "--nodebump", "--noopt"], True),
    ("1A1P.pdb", ["--ff=AMBER", "--nodebump", "--noopt", "--drop-water"], True),
]
THOROUGH = QUICK + [
    ("1K1I.pdb", ["--ff=AMBER"], False),
    ("1AFS.pdb", ["--ff=AMBER"], False),
    ("1US0.pdb", ["--ff=PARSE"], False),
    ("1K1I.pdb", ["--ff=TYL06", "--nodebump", "--noopt"], True),
    ("1AFS.pdb", ["--ff=SWANSON", "--assign-only"], True),
    ("1AJJ.pdb", ["--ff=AMBER", "--titration-state-method=propka", "--with-ph=3.0"], False),
]


def writer_site():
    """'debump.Debump.set_dihedral_angle' if the write happens inside it, else the nearest pdb2pqr frame."""
    import sys as _s

    f = _s._getframe(2)
    first = None
    while f is not None:
        code = f.f_code
        if "/pdb2pqr/" in code.co_filename:
            q = code.co_filename.split("/pdb2pqr/")[-1][:-3].replace("/", ".") + "." + getattr(code, "co_qualname", code.co_name)
            if q == "debump.Debump.set_dihedral_angle":
                return q
            if first is None and code.co_name != "__setattr__":
                first = q
        f = f.f_back
    return first or "?"


def key_of_atom(a):
    return (a.chain_id, a.res_seq, a.ins_code, a.name)


def real_run(ctx, pdb, extra):
    from pdb2pqr import debump as pdebump, main as pmain, structures as pstruct

    d = ctx.scratch_dir()
    out = d / "g.pqr"
    path = core.REPO / "tests" / "data" / pdb
    args = pmain.build_main_parser().parse_args([*extra, str(path), str(out)])
    calls = []
    writes = {}
    orig_sda = pdebump.Debump.set_dihedral_angle
    had_setattr = "__setattr__" in pstruct.Atom.__dict__
    orig_setattr = pstruct.Atom.__dict__.get("__setattr__")
    initial = {}
    input_ids = {}
    orig_key = {}
    state = {"armed": False}

    def w_sda(self, residue, anglenum, angle):
        names = residue.reference.dihedrals[anglenum].split()
        try:
            mv = residue.get_moveable_names(names[2])
        except Exception:
            mv = None
        calls.append(
            {
                "res": residue.name,
                "atoms": [a.name for a in residue.atoms],
                "bonds": {a.name: [b.name for b in a.bonds if residue.map.get(b.name) is b] for a in residue.atoms},
                "nt": bool(residue.is_n_term),
                "ct": bool(residue.is_c_term),
                "dihedral": names,
                "moved": mv,
                "ranks": {a.name: a.refdistance for a in residue.atoms},
            }
        )
        return orig_sda(self, residue, anglenum, angle)

    def w_setattr(self, name, value):
        # only the atom OBJECTS read from the input count (create_atom copies atoms[0] and then overwrites x/y/z)
        if state["armed"] and name in ("x", "y", "z") and id(self) in input_ids and self.__dict__.get(name) != value:
            site = writer_site()
            writes[site] = writes.get(site, 0) + 1
        if orig_setattr:
            orig_setattr(self, name, value)
        else:
            object.__setattr__(self, name, value)

    orig_setup = pmain.setup_molecule

    def w_setup(pdblist, definition, ligand):
        r = orig_setup(pdblist, definition, ligand)
        for a in r[0].atoms:
            if not a.name.startswith("H"):
                initial.setdefault(key_of_atom(a), (a.x, a.y, a.z))
                input_ids[id(a)] = a  # keeps the object alive, so ids stay unique
                orig_key.setdefault(id(a), key_of_atom(a))
        state["armed"] = True
        return r

    pdebump.Debump.set_dihedral_angle = w_sda
    pstruct.Atom.__setattr__ = w_setattr
    pmain.setup_molecule = w_setup
    err = None
    bio = None
    try:
        _, _, bio = pmain.main_driver(args)
    except BaseException as e:  # noqa
        err = f"{type(e).__name__}: {e}"
    finally:
        pdebump.Debump.set_dihedral_angle = orig_sda
        pmain.setup_molecule = orig_setup
        if had_setattr:
            pstruct.Atom.__setattr__ = orig_setattr
        else:
            del pstruct.Atom.__setattr__
    for f in d.glob("g.*"):
        f.unlink()
    return {"calls": calls, "writes": writes, "initial": initial, "bio": bio, "err": err, "orig_key": orig_key}


BACKBONE_CAP = {"N", "CA", "C", "O", "OXT"}


def geometry_oracle(ctx, pdb, extra, noop, run, definition):
    """Input heavy atoms: exact for backbone/caps and no-op modes; rigid otherwise."""
    bio = run["bio"]
    if bio is None:
        return
    final = {}
    by_res = {}
    for res in bio.residues:
        for a in res.atoms:
            # identity of an input atom = the OBJECT read from the input, under the name it was
            # read with: Carboxylic.rename exchanges the NAMES of the two carboxyl oxygens
            # (OE1<->OE2, OD1<->OD2, O<->OXT) without moving any atom, and --ffout renames too
            k = run["orig_key"].get(id(a))
            if k is None or k in final:
                continue
            final[k] = (a.x, a.y, a.z)
            by_res.setdefault(k[:3], (res, {}))[1][k[3]] = k
    label = f"{pdb} {' '.join(extra)}"
    for k, p0 in run["initial"].items():
        if k not in final:
            continue  # deletions are C03's subject
        p1 = final[k]
        moved = p0 != p1
        ctx.evaluated(f"{label}:{k}", True)
        if moved and noop:
            ctx.fail({"site": "pipeline", "condition": "moved-in-noop-mode", "mode": " ".join(x for x in extra if not x.startswith("--ff"))}, f"{label}: input heavy atom {k} moved {math.dist(p0, p1):.4f} A although no atom may move in this mode", {"pdb": pdb, "args": extra, "atom": list(k)})
        elif moved and k[3] in BACKBONE_CAP:
            ctx.fail({"site": "pipeline", "condition": "backbone-or-cap-moved", "atom": k[3]}, f"{label}: backbone/cap atom {k} moved {math.dist(p0, p1):.4f} A", {"pdb": pdb, "args": extra, "atom": list(k)})
    # rigid geometry per residue with any moved atom
    for rk, (res, names) in by_res.items():
        ks = [k for k in names.values() if k in run["initial"]]
        if not any(run["initial"][k] != final[k] for k in ks):
            continue
        ctx.count("residues-with-moved-input-atoms")
        ref = getattr(res, "reference", None)
        if ref is None:
            continue
        present = {k[3] for k in ks}
        bonds = set()
        for an, ta in ref.map.items():
            if an in present:
                for b in ta.bonds:
                    if b in present:
                        bonds.add(tuple(sorted((an, b))))
        pos0 = {k[3]: run["initial"][k] for k in ks}
        pos1 = {k[3]: final[k] for k in ks}
        pairs = set(bonds)
        nb = {}
        for u, v in bonds:
            nb.setdefault(u, set()).add(v)
            nb.setdefault(v, set()).add(u)
        for v, ns in nb.items():
            ns = sorted(ns)
            for i in range(len(ns)):
                for j in range(i + 1, len(ns)):
                    pairs.add((ns[i], ns[j]))
        for u, v in sorted(pairs):
            d0, d1 = math.dist(pos0[u], pos0[v]), math.dist(pos1[u], pos1[v])
            if abs(d0 - d1) > 1e-6:
                kind = "bond-length" if (u, v) in bonds else "bond-angle"
                ctx.fail({"site": "pipeline", "condition": f"{kind}-changed", "residue": res.name}, f"{label}: {res} {u}-{v} distance {d0:.5f} -> {d1:.5f} ({kind} among input heavy atoms changed)", {"pdb": pdb, "args": extra, "residue": str(res), "pair": [u, v], "before": d0, "after": d1})
                break



# --------------------------------------------------------------------------
# (D) debump histories driven by oracle answers
#
# Debump.debump_residue decides from bump scores which torsion to scan, which
# angle to keep and when to give up.  Real structures rarely produce a history
# with several accepted and rejected torsions on one residue, so the geometric
# decisions are replaced by scripted answers (score_dihedral_angle and
# find_residue_conflicts are monkeypatched on the Debump OBJECT, nothing in
# /repo changes) and debump_residue itself runs on real residues.  Whatever the
# history, the residue's input heavy atoms must end as a composition of rigid
# side-chain rotations: backbone unmoved, every bond length and bond angle kept.


def _walk_fixture():
    from pdb2pqr import aa, cells, debump
    from pdb2pqr import io as pio
    from pdb2pqr import main as pmain

    path = core.REPO / "tests" / "data" / "1AJJ.pdb"
    definition = pio.get_definitions()
    pdblist, _ = pio.get_molecule(str(path))
    bm, definition, _ = pmain.setup_molecule(pdblist, definition, None)
    bm.set_termini(neutraln=False, neutralc=False)
    bm.update_bonds()
    db = debump.Debump(bm)
    db.cells = cells.Cells(2)
    db.cells.assign_cells(bm)
    bm.calculate_dihedral_angles()
    bm.set_donors_acceptors()
    bm.update_internal_bonds()
    bm.set_reference_distance()
    residues = []
    for res in bm.residues:
        if not isinstance(res, aa.Amino):
            continue
        side = []
        for k, dstr in enumerate(res.reference.dihedrals):
            nm = dstr.split()
            if all(res.has_atom(x) for x in nm) and res.dihedrals[k] is not None and nm[3] in res.get_moveable_names(nm[2]):
                side.append(k)
        if side:
            residues.append((res, side))
    return bm, db, residues


def _rigid_failures(res, before, after):
    """Bond lengths and bond angles (as 1-3 distances) among the residue's heavy atoms, and
    exact positions of backbone/cap atoms. Returns [(condition, detail)]."""
    out = []
    heavy = [n for n in before if not n.startswith("H")]
    for n in heavy:
        if n in BACKBONE_CAP and before[n] != after[n]:
            out.append(("backbone-or-cap-moved", f"{n} moved {math.dist(before[n], after[n]):.4f} A"))
    bonds = set()
    for an, ta in res.reference.map.items():
        if an in before and not an.startswith("H"):
            for b in ta.bonds:
                if b in before and not b.startswith("H"):
                    bonds.add(tuple(sorted((an, b))))
    nb = {}
    for u, v in bonds:
        nb.setdefault(u, set()).add(v)
        nb.setdefault(v, set()).add(u)
    pairs = {(p, "bond-length") for p in bonds}
    for v, ns in nb.items():
        ns = sorted(ns)
        for i in range(len(ns)):
            for j in range(i + 1, len(ns)):
                if (ns[i], ns[j]) not in bonds:
                    pairs.add(((ns[i], ns[j]), "bond-angle"))
    for (u, v), kind in sorted(pairs):
        d0, d1 = math.dist(before[u], before[v]), math.dist(after[u], after[v])
        if abs(d0 - d1) > 1e-6:
            out.append((f"{kind}-changed", f"{u}-{v} distance {d0:.5f} -> {d1:.5f}"))
    return out


def run_walk(db, res, script, conflicts0):
    """Run Debump.debump_residue(res) with scripted answers. `script` = list of attempts,
    each {"mode": none|improve|zero-conflict|zero-clear, "k": step, "conf": [names]}."""
    state = {"attempt": -1, "call": 0}

    def attempt():
        i = state["attempt"]
        return script[i] if 0 <= i < len(script) else {"mode": "none", "k": 1, "conf": []}

    def score(residue, anglenum):
        c = state["call"]
        state["call"] += 1
        if c == 0:
            return 10.0  # bestscore of this attempt
        a = attempt()
        if a["mode"] == "improve" and c == a["k"]:
            return 5.0
        if a["mode"] == "improve2" and c in (a["k"], a["k"] + 7):
            return 5.0 if c == a["k"] else 2.5
        if a["mode"].startswith("zero") and c == a["k"]:
            return 0
        return 10.0 + 0.001 * c

    def conflicts(residue, write_conflict_info=False):
        a = attempt()
        if a["mode"] == "zero-clear" and state["call"] <= a["k"] + 1 and state.get("inscan"):
            return []
        return list(a["conf"])

    orig_pick = res.pick_dihedral_angle

    def pick(conflict_names, oldnum=None):
        state["attempt"] += 1
        state["call"] = 0
        state["inscan"] = True
        return orig_pick(conflict_names, oldnum)

    db.score_dihedral_angle = score
    db.find_residue_conflicts = conflicts
    res.pick_dihedral_angle = pick
    try:
        return db.debump_residue(res, list(conflicts0))
    finally:
        del db.score_dihedral_angle, db.find_residue_conflicts, res.pick_dihedral_angle


def gen_script(rng, res, side):
    movers = sorted({n for k in side for n in res.get_moveable_names(res.reference.dihedrals[k].split()[2])})
    n = rng.choice([1, 2, 2, 3, 3, 4, 6, 10])
    script = []
    for _ in range(n):
        mode = rng.choice(["none", "none", "improve", "improve", "improve2", "zero-conflict", "zero-clear"])
        conf = rng.sample(movers, rng.randint(1, min(3, len(movers)))) if rng.random() < 0.9 else []
        script.append({"mode": mode, "k": rng.choice([1, 2, 17, 35, 36, 70, 71]), "conf": conf})
    conflicts0 = rng.sample(movers, rng.randint(1, min(3, len(movers))))
    return script, conflicts0


def debump_walk_case(ctx, db, res, script, conflicts0, label):
    atoms = [a for a in res.atoms]
    before = {a.name: (a.x, a.y, a.z) for a in atoms}
    dih0 = list(res.dihedrals)
    err = None
    try:
        run_walk(db, res, script, conflicts0)
    except Exception as e:  # noqa
        err = f"{type(e).__name__}: {e}"
    after = {a.name: (a.x, a.y, a.z) for a in atoms}
    fails = _rigid_failures(res, before, after)
    # undo: walks are independent of each other
    for a in atoms:
        db.cells.remove_cell(a)
        a.x, a.y, a.z = before[a.name]
        db.cells.add_cell(a)
    res.dihedrals[:] = dih0
    case = {"walk": {"residue": str(res), "script": script, "conflicts0": conflicts0}, "label": label}
    accepted = sum(1 for a in script if a["mode"] != "none")
    ctx.evaluated(("walk", str(res), core.sha(script)), accepted >= 1 and len(script) >= 2 and any(before[n] != after[n] for n in before))
    ctx.count(f"debump-walk:attempts={min(len(script), 4)}{'+' if len(script) > 4 else ''}")
    if err:
        ctx.count("debump-walk:exception")
        ctx.notes.append(f"debump walk {label}: {err}")
    seen = set()
    for cond, detail in fails:
        if cond in seen:
            continue
        seen.add(cond)
        ctx.fail({"site": "Debump.debump_residue", "condition": cond}, f"debump history on {res} ({len(script)} scripted attempts): {detail}", case)
    return bool(fails)


def debump_walks(ctx, n):
    try:
        bm, db, residues = _walk_fixture()
    except Exception as e:  # noqa
        ctx.broke("correspondence-broken", "debump walk fixture (tests/data/1AJJ.pdb through setup_molecule/Debump)", f"{type(e).__name__}: {e}")
        return
    multi = [(r, s) for r, s in residues if len(s) >= 2]
    for w in range(n):
        res, side = ctx.rng.choice(multi if (multi and ctx.rng.random() < 0.8) else residues)
        script, conflicts0 = gen_script(ctx.rng, res, side)
        bad = debump_walk_case(ctx, db, res, script, conflicts0, f"#{w}")
        if w == 0:
            ctx.sample({"debump_walk": {"residue": str(res), "script": script, "conflicts0": conflicts0, "rigid": not bad}})

def call_term(c, ids):
    def I(n):
        return ids.setdefault(n, len(ids) + 1)

    g = core.coq_list([f"({I(a)}%positive, {core.coq_list([f'{I(b)}%positive' for b in c['bonds'][a]])})" for a in c["atoms"]])
    bb = core.coq_list([f"{I(n)}%positive" for n in ["N", "CA", "C", "O", "O2", "HA", "HN", "H", "tN"]])
    nmrec = f"(mknames {bb} {I('CA')}%positive {I('HO')}%positive {I('H2')}%positive {I('H3')}%positive)"
    piv = I(c["dihedral"][2])
    return f"show_ids (let g := {g} in match ranks {nmrec} {str(c['nt']).lower()} {str(c['ct']).lower()} g with None => [] | Some rk => moveable g rk {piv}%positive end)"


def run(ctx):
    import sys

    sys.path.insert(0, str(core.VERIF / "gen"))
    ctx.cov["rule"] = (
        "exhaustive: every amino-acid template x dihedral x 4 terminus-flag combinations, moveable set of the real code (fake residues built from "
        "Definition.map) vs the Coq model; every Debump.set_dihedral_angle call of real runs replayed in the model; every input heavy atom of real runs "
        "checked (exact for backbone/caps/no-op modes, rigid geometry otherwise). Non-trivial = a template pair with a non-empty moved set, a distinct "
        "observed call, or a distinct input heavy atom of a run"
    )
    gen_ok = c01.regenerate(ctx, "ff_tables,topology,moves_table")
    ok = core.proof_stage(ctx, "C04", THEOREMS, []) if gen_ok else False
    if not gen_ok:
        ctx.obligations.extend(THEOREMS)
    from common import load_definition

    definition = load_definition()
    corr_broken = False
    # --- (A)
    if gen_ok:
        try:
            res = core.run_cases("C04a", HEADER + SHOW, ["show_pairs", "show_moves false false", "show_moves true false", "show_moves false true", "show_moves true true"], timeout=600)
        except core.CoqEvalError as e:
            res = None
            corr_broken = True
            ctx.broke("correspondence-broken", "template moveable sets: model evaluation failed", str(e))
        if res is not None:
            mlabels = res[0].split(";")
            for k, (nt, ct) in enumerate([(False, False), (True, False), (False, True), (True, True)]):
                labels, impl = impl_moves(definition, nt, ct)
                model = res[1 + k].split(";")
                if labels != mlabels:
                    corr_broken = True
                    ctx.broke("correspondence-broken", "template/dihedral list of the generated table differs from Definition.map", f"{len(labels)} vs {len(mlabels)}")
                    break
                for lab, a, b in zip(labels, impl, model):
                    ctx.cov["correspondence_cases"] += 1
                    ctx.evaluated(f"tmpl:{lab}:{nt}:{ct}", bool(a))
                    if a != b:
                        ctx.cov["correspondence_disagreements"] += 1
                        corr_broken = True
                        if sum(x["kind"] == "correspondence-broken" for x in ctx.broken) < 3:
                            ctx.broke("correspondence-broken", "Model.Moves.moveable vs set_reference_distance+get_moveable_names", f"{lab} nterm={nt} cterm={ct}: impl=[{a}] model=[{b}]", {"template": lab, "nt": nt, "ct": ct})
                        # is the implementation's set non-rigid?  (independent graph check in python)
                        why = py_rigid_violation(definition, lab, a.split(), heavy_only=True)
                        if why:
                            ctx.fail({"site": "Residue.get_moveable_names", "condition": "moved-set-not-rigid", "template": lab.split(":")[0][-3:]}, f"{lab} (nterm={nt}, cterm={ct}): rotating {a} about the dihedral's middle bond is not rigid: {why}", {"template": lab, "nt": nt, "ct": ct, "moved": a})
            ctx.sample({"template_pair": labels[5], "impl_moved": impl[5], "model_moved": model[5]})
    # --- (B)+(C)
    inputs = THOROUGH if (ctx.thorough or not ok or corr_broken) else QUICK
    seen_calls = {}
    for pdb, extra, noop in inputs:
        run_ = real_run(ctx, pdb, extra)
        if run_["err"]:
            ctx.notes.append(f"{pdb} {extra}: {run_['err']}")
        ctx.count(f"real:{pdb}:set_dihedral_calls", len(run_["calls"]))
        for c in run_["calls"]:
            seen_calls.setdefault(core.sha({k: c[k] for k in ("atoms", "bonds", "nt", "ct", "dihedral")}), c)
        for site, n in run_["writes"].items():
            ctx.count(f"heavy-write@{site}", n)
            if site != "debump.Debump.set_dihedral_angle":
                # not by itself a violation (a writer that restores saved coordinates is harmless): the model's
                # set of coordinate-writing operations no longer covers the code; the geometry search decides
                if not any(b["what"].endswith(site) for b in ctx.broken):
                    ctx.broke("correspondence-broken", f"Model.Moves coordinate writers vs the code: input heavy atoms written from {site}", f"{pdb} {' '.join(extra)}: {n} coordinate writes to input heavy atoms from {site} (the model has only Debump.set_dihedral_angle)", {"pdb": pdb, "args": extra, "site": site})
            elif noop:
                ctx.fail({"site": site, "condition": "moved-in-noop-mode", "mode": " ".join(x for x in extra if not x.startswith("--ff"))}, f"{pdb} {' '.join(extra)}: side-chain rotation executed in a no-op mode", {"pdb": pdb, "args": extra})
        geometry_oracle(ctx, pdb, extra, noop, run_, definition)
    debump_walks(ctx, 4000 if (ctx.thorough or not ok or corr_broken or ctx.broken) else 400)
    if seen_calls and gen_ok:
        calls = list(seen_calls.values())
        hdr = HEADER + "From PV Require Import Lib.Decimal.\nDefinition show_ids (l : list id) : string := String.concat \" \" (map (fun i => Z_to_string (Zpos i)) l).\n"
        terms, idmaps = [], []
        for c in calls:
            ids = {}
            terms.append(call_term(c, ids))
            idmaps.append({v: k for k, v in ids.items()})
        try:
            outs = core.run_cases("C04b", hdr.replace("Generated.Topology Generated.MovesTable", "").replace("From PV Require Import Model.ForceField Model.Topology Model.Moves .", "From PV Require Import Model.ForceField Model.Topology Model.Moves."), terms, chunk=60)
        except core.CoqEvalError as e:
            outs = None
            ctx.broke("correspondence-broken", "observed set_dihedral_angle calls: model evaluation failed", str(e))
        if outs is not None:
            for c, o, im in zip(calls, outs, idmaps):
                ctx.cov["correspondence_cases"] += 1
                model = [im[int(x)] for x in o.split()] if o else []
                ctx.evaluated("call:" + core.sha(c), True)
                if c["moved"] is None or model != c["moved"]:
                    ctx.cov["correspondence_disagreements"] += 1
                    if sum(x["kind"] == "correspondence-broken" for x in ctx.broken) < 4:
                        ctx.broke("correspondence-broken", "Model.Moves.moveable vs get_moveable_names on a call observed in a real run", f"{c['res']} {c['dihedral']}: impl={c['moved']} model={model}", c)
            ctx.sample({"observed_call": {k: calls[0][k] for k in ("res", "dihedral", "moved", "nt", "ct")}})
    ctx.trusted += [
        "generators gen/topology.py + gen/moves_table.py (Definition.map dumped through the repo loader, cross-checked against the XML text)",
        "rotation about the axis is an isometry fixing the axis: theorem C15 (rot_isometry, rot_fixes_axis over R); float rounding not verified",
        "no-op modes and 'no other writer of input heavy atoms': observed by the monitor on a fixed set of runs, not proved",
    ]
    ctx.assumptions += ["hydrogen = name starts with 'H' (structures.Atom.is_hydrogen)", "disulfide (inter-residue) bonds are outside the rigidity lemma"]


def py_rigid_violation(definition, label, moved, heavy_only):
    rname, dih = label.split(":")
    tmpl = definition.map[rname]
    a, b, c, d = dih.split()
    keep = lambda n: n in tmpl.map and n not in ("N+1", "C-1") and not (heavy_only and n.startswith("H"))  # noqa
    M = {m for m in moved if keep(m)}
    for u in M:
        for v in tmpl.map[u].bonds:
            if keep(v) and v not in M and v != c:
                return f"{u} moves but its bonded atom {v} does not"
    for v in tmpl.map[c].bonds:
        if keep(v) and v not in M and v != b:
            return f"neighbour {v} of the pivot {c} does not move"
    if b in M or c in M:
        return "an axis atom moves"
    return None


def replay(ctx, data):
    case = data["case"]
    import sys

    sys.path.insert(0, str(core.VERIF / "gen"))
    from common import load_definition

    definition = load_definition()
    if "template" in case:
        labels, impl = impl_moves(definition, case["nt"], case["ct"])
        mv = impl[labels.index(case["template"])]
        why = py_rigid_violation(definition, case["template"], mv.split(), True)
        print(f"replay: {case['template']} moved=[{mv}] ->", "FAILS: " + why if why else "passes")
        return 1 if why else 0
    if "walk" in case:
        bm, db, residues = _walk_fixture()
        for res, side in residues:
            if str(res) == case["walk"]["residue"]:
                bad = debump_walk_case(ctx, db, res, case["walk"]["script"], case["walk"]["conflicts0"], "replay")
                print("replay:", "FAILS" if bad else "passes", [f["what"] for f in ctx.failures][:3])
                return 1 if bad else 0
        print("replay: residue not found")
        return 1
    run_ = real_run(ctx, case["pdb"], case["args"])
    before = len(ctx.failures)
    geometry_oracle(ctx, case["pdb"], case["args"], any(m in case["args"] for m in ("--clean", "--assign-only")) or ("--nodebump" in case["args"] and "--noopt" in case["args"]), run_, definition)
    bad = len(ctx.failures) - before + sum(1 for s in run_["writes"] if s != "debump.Debump.set_dihedral_angle")
    print("replay:", "FAILS" if bad else "passes", run_["writes"])
    return 1 if bad else 0
