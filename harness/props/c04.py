"""C04 - input coordinates are preserved; only rigid side-chain rotations move atoms."""

import json
import math
import types
from pathlib import Path

from harness import cellmon, core
from harness.props import c01

META = {
    "id": "C04",
    "level": "proof",
    "technique": "Coq proof (graph lemma for all bond graphs / all isometries; model of Debump.debump_residue + pick_dihedral_angle + set_dihedral_angle with every geometric decision as an oracle, theorems for ALL oracle answers) + vm_compute table obligation over every template x dihedral regenerated from the topology XML; exhaustive correspondence of the moveable-set model with residue.py/biomolecule.py; differential execution of the debump model against debump_residue on real residues with scripted answers (bit-exact angles); coordinate-writer monitor and rigid-geometry oracle on real runs",
    "level_text": (
        "Proved for ALL bond graphs and ANY distance-preserving motion fixing the axis atoms: moving a set that meets the boolean "
        "rigidity conditions preserves every bond length and bond angle and leaves all other atoms bit-identical. A generated obligation "
        "(vm_compute over the topology regenerated from /repo) shows the conditions for every amino-acid template (all terminal and "
        "protonation variants) x every dihedral x terminus flags, incl. 'no backbone atom is selected'. The selection model is tied to "
        "set_reference_distance + get_moveable_names by exhaustive comparison on all templates and on every call observed in real runs, "
        "also with residue.atoms / atom.bonds stored in reversed, alphabetical and random orders (the moved set must not depend on the storage "
        "order; C04_moved_set_order_table_partial proves that for the model for the reversed and alphabetical orders only, not for all permutations). "
        "Debump.debump_residue is modelled (Model/Debump.v: attempt loop, pick_dihedral_angle incl. oldnum rotation, the 71-step scan with "
        "early exit, best-angle bookkeeping with the SMALL_NUMBER tie rule, final set to bestangle; scores, conflict names and the dihedral "
        "measured after each rotation are oracle inputs over an arbitrary world): proved for ALL oracle answers that the coordinates after "
        "debump_residue are exactly the recorded rotations applied in order (geometry as the oracle), that under the table conditions every "
        "bond length and bond angle is kept and atoms in no moveable set keep their coordinates, that at most 10*72 set_dihedral_angle calls "
        "happen and no error path is taken, and (angles over R, measured dihedral = requested angle mod 360 as hypothesis) that each "
        "dihedral's rotation angles sum to final-minus-initial stored angle mod 360 and a fruitless attempt ends where it started. "
        "The model is tied to the code by running debump_residue on real residues with scripted answers and comparing result, every "
        "(anglenum, angle) passed to set_dihedral_angle, every rotation angle passed to quatfit.qchichange and the final residue.dihedrals "
        "bit for bit. NOT proved: that the motion applied is a rotation about the axis (C15's theorems rot_isometry / rot_fixes_axis over R; "
        "float rounding unverified); that no other code writes input heavy atoms, and the no-op modes (observed by the monitor on real runs); "
        "The FLIP path (hydrogens/structures.py Flip.__init__/fix_flip/finalize/complete, Model/Flip.v) is modelled on residue.atoms as a list of "
        "(name, is-*FLIP, position): proved for ALL residues, rotated sets, motions and ALL sequences of fix_flip/finalize calls that the result is "
        "EITHER exactly the input coordinates OR the input with the WHOLE rotated set moved (never a mixture, no *FLIP atom left); over R with the "
        "rotation cos=-1, sin=0 about a non-degenerate b-c bond both outcomes keep every bond length and 1-3 distance (graph conditions from the "
        "generated table over every template carrying a Flip optangle of HYDROGENS.xml) and the rotation is an involution. The model is tied to the "
        "code on every Flip object of the real runs (residue.atoms after __init__ and after complete, bit for bit, with the code's own cos/sin/norm "
        "values as oracle inputs; the rotation angle must be (180.0 + d) - d). Binary64: cos(pi) = -1.0 exactly, sin(pi) = 1.22e-16, so a double flip "
        "returns within ~4e-15 A (measured each run: coverage.flip_round_trip_max_abs_deviation_A), not exactly. 'No Flip object with --noopt / --clean / "
        "--assign-only' is observed by the monitor, not proved. The no-move modes: C04_noop_stage_table (PARTIAL: on the stage table translated from "
        "main.py, both debumping passes depend on args.debump and otherwise only on assign_only/clean, the full-optimisation set-up on args.opt, and "
        "debump/opt are written only by transform_arguments; polarity of the tests not expressed) + run-time tie (no debumping pass with args.debump "
        "false) + a search over random points of the option lattice (mode x pKa method x pH x ff x ffout x neutraln/c x keep-chain x include-header x "
        "drop-water x whitespace) on inputs with rebuilt side-chain atoms and clash partners; that no input heavy atom moves there is observed, not proved. Inter-residue S-S bonds are outside the lemma."
    ),
    "level_note": (
        "Trusted: Coq kernel+vm_compute; generators gen/topology.py, gen/moves_table.py; hand models Model/Moves.v and Model/Debump.v (tied by "
        "differential execution); Model.Debump.check_debump (the in-Coq comparison of model and code traces); the monitor (monkeypatches "
        "Atom.__setattr__, Debump.set_dihedral_angle, Debump.score_dihedral_angle, Debump.find_residue_conflicts, quatfit.qchichange, "
        "Flip.__init__/fix_flip/finalize/complete on harness objects only); gen/flip_table.py (Flip definitions through hydrogens.create_handler); "
        "Model.Flip.check_flip (in-Coq comparison); libm cos/sin and numpy norm of the flip rotation are oracle values; float rounding of the rotation is not verified (geometry compared with 1e-6 tolerance)."
    ),
    "design_ref": "DESIGN.md 4 C04",
}

THEOREMS = [
    "C04_bond_preserved",
    "C04_angle_preserved",
    "C04_frame",
    "C04_heavy_subtree_table",
    "C04_nonvacuous",
    "C04_rank_selection_refuted",
    "C04_moved_set_order_table_partial",
    "C04_debump_ops_are_rotations",
    "C04_debump_rigid",
    "C04_rotation_list_rigid",
    "C04_debump_hypothesis_from_table",
    "C04_debump_backbone_fixed",
    "C04_debump_terminates_within",
    "C04_debump_net_rotation",
    "C04_debump_attempt_ends_at_bestangle",
    "C04_debump_nonvacuous",
    "C04_flip_all_or_nothing",
    "C04_flip_rigid",
    "C04_flip_involution",
    "C04_flip_table",
    "C04_flip_nonvacuous",
    "C04_noop_stage_table",
]

# real numbers are used only by the net-rotation theorems (angles modulo 360 over R)
ALLOWED_AXIOMS = [
    "ClassicalDedekindReals.sig_forall_dec",
    "ClassicalDedekindReals.sig_not_dec",
    "FunctionalExtensionality.functional_extensionality_dep",
]

HEADER = "From Coq Require Import List String Bool PArith.\nFrom PV Require Import Model.ForceField Model.Topology Model.Moves Generated.Topology Generated.MovesTable.\nImport ListNotations.\nOpen Scope string_scope.\n"

SHOW = """
Definition show_moves (nt ct : bool) : string :=
  String.concat ";" (map (fun p => match ranks nm nt ct (tgraph (fst p)) with
     | None => "GAP"
     | Some rk => String.concat " " (map name_of (moveable (tgraph (fst p)) rk (let '(_, _, c, _) := snd p in c))) end) pairs).
Definition show_pairs : string := String.concat ";" (map show_pair pairs).
Definition show_moves_on (tr : graph -> graph) (nt ct : bool) : string :=
  String.concat ";" (map (fun p => let g := tr (tgraph (fst p)) in match ranks nm nt ct g with
     | None => "GAP"
     | Some rk => String.concat " " (map name_of (moveable g rk (let '(_, _, c, _) := snd p in c))) end) pairs).
"""


# ---- (A) exhaustive template correspondence ----------------------------------


def fake_residue(tmpl, nt, ct, order=None, bond_order=None):
    """A real aa.Amino instance (no __init__) carrying the template's atoms and bonds.
    `order` = the order of residue.atoms (default: template order), `bond_order` = per atom the
    order of atom.bonds (default: template order)."""
    from pdb2pqr import aa, structures

    r = object.__new__(aa.Amino)
    r.atoms = []
    r.map = {}
    r.is_n_term = nt
    r.is_c_term = ct
    r.name = tmpl.name
    names = [an for an in tmpl.map if an not in ("N+1", "C-1")]
    if order is not None:
        assert sorted(order) == sorted(names)
        names = list(order)
    for an in names:
        a = object.__new__(structures.Atom)
        a.name = an
        a.residue = r
        a.bonds = []
        a.refdistance = None
        r.atoms.append(a)
        r.map[an] = a
    for an in names:
        bl = [b for b in tmpl.map[an].bonds if b in r.map]
        if bond_order is not None and an in bond_order:
            assert sorted(bond_order[an]) == sorted(bl)
            bl = list(bond_order[an])
        for b in bl:
            r.map[an].bonds.append(r.map[b])
    return r


def amino_templates(definition):
    return [(rname, tmpl) for rname, tmpl in definition.map.items() if ("CA" in tmpl.map and "N" in tmpl.map and "C" in tmpl.map and tmpl.dihedrals)]


def storage_order(tmpl, mode, rng=None, name_ids=None):
    """(order of residue.atoms, order of each atom.bonds) for one template: template order, reversed,
    alphabetical by the generated name ids (= Model.Moves.rev_graph / sort_graph), or a random permutation."""
    names = [an for an in tmpl.map if an not in ("N+1", "C-1")]
    bonds = {an: [b for b in tmpl.map[an].bonds if b in names] for an in names}
    if mode == "template":
        return names, bonds
    if mode == "reversed":
        return names[::-1], {an: bl[::-1] for an, bl in bonds.items()}
    if mode == "alphabetical":
        key = (lambda n: name_ids.get(n, 10**9)) if name_ids else (lambda n: n)
        return sorted(names, key=key), {an: sorted(bl, key=key) for an, bl in bonds.items()}
    names = list(names)
    rng.shuffle(names)
    out = {}
    for an, bl in bonds.items():
        bl = list(bl)
        rng.shuffle(bl)
        out[an] = bl
    return names, out


def moved_names(tmpl, nt, ct, dihedral, order=None, bond_order=None):
    """get_moveable_names of the real code for one template dihedral under a storage order ('GAP' = ValueError)."""
    from pdb2pqr import biomolecule as pbio

    r = fake_residue(tmpl, nt, ct, order, bond_order)
    try:
        pbio.Biomolecule.set_reference_distance(types.SimpleNamespace(residues=[r]))
    except ValueError:
        return "GAP"
    return " ".join(r.get_moveable_names(dihedral.split()[2]))


def impl_moves(definition, nt, ct, mode="template", rng=None, name_ids=None, orders=None):
    from pdb2pqr import biomolecule as pbio

    out = []
    labels = []
    for rname, tmpl in amino_templates(definition):
        order, bond_order = storage_order(tmpl, mode, rng, name_ids)
        r = fake_residue(tmpl, nt, ct, order, bond_order)
        try:
            pbio.Biomolecule.set_reference_distance(types.SimpleNamespace(residues=[r]))
            gap = False
        except ValueError:
            gap = True
        for d in tmpl.dihedrals:
            labels.append(f"{rname}:{' '.join(d.split())}")
            out.append("GAP" if gap else " ".join(r.get_moveable_names(d.split()[2])))
            if orders is not None:
                orders.append((order, bond_order))
    return labels, out


# ---- (B)+(C) real runs ------------------------------------------------------------

QUICK = [
    ("1AJJ.pdb", ["--ff=AMBER"], False),
    ("1A1P.pdb", ["--ff=PARSE"], False),
    ("cterm_hid.pdb", ["--ff=AMBER"], False),
    ("1BX8.pdb", ["--ff=CHARMM"], False),
    ("1AJJ.pdb", ["--ff=AMBER", "--clean"], True),
    ("1BX8.pdb", ["--ff=AMBER", "--assign-only"], True),
    ("1AJJ.pdb", ["--ff=PARSE", "--nodebump", "--noopt"], True),
    ("1A1P.pdb", ["--ff=AMBER", "--nodebump", "--noopt", "--drop-water"], True),
    # the same structures stored differently (atom order within residues; rebuilt interior atoms)
    ("1AJJ.pdb", ["--ff=AMBER"], False, "alphabetical"),
    ("cterm_hid.pdb", ["--ff=PARSE"], False, "alphabetical"),
    ("1AJJ.pdb", ["--ff=AMBER"], False, "del-interior"),
    # flips: amide/imidazole groups written the other way round, and a mode without optimisation
    ("1K1I.pdb", ["--ff=AMBER"], False, "preflipped"),
    ("1BX8.pdb", ["--ff=PARSE"], False, "preflipped"),
    ("1A1P.pdb", ["--ff=AMBER", "--noopt"], False),
    # a water oxygen 1.45-2.4 A beyond a flip atom of every ASN/GLN/HIS (both sides of the 1.5 / 2.0 A
    # "nearby atom" cutoffs), for residues that end up unflipped and (preflipped) flipped
    # (the variants are chosen in run(): clash_inputs)
]
THOROUGH = QUICK + [
    ("1AFS.pdb", ["--ff=AMBER"], False, "preflipped"),
    ("1A1P.pdb", ["--ff=AMBER"], False, "preflipped"),
    ("cterm_hid.pdb", ["--ff=AMBER"], False, "preflipped"),
    ("1BX8.pdb", ["--ff=CHARMM"], False, "alphabetical"),
    ("1A1P.pdb", ["--ff=PARSE"], False, "alphabetical"),
    ("cterm_hid.pdb", ["--ff=AMBER"], False, "del-interior"),
    ("1BX8.pdb", ["--ff=AMBER"], False, "del-interior"),
    ("1K1I.pdb", ["--ff=AMBER"], False),
    ("1AFS.pdb", ["--ff=AMBER"], False),
    ("1US0.pdb", ["--ff=PARSE"], False),
    ("1K1I.pdb", ["--ff=TYL06", "--nodebump", "--noopt"], True),
    ("1AFS.pdb", ["--ff=SWANSON", "--assign-only"], True),
    ("1AJJ.pdb", ["--ff=AMBER", "--titration-state-method=propka", "--with-ph=3.0"], False),
]


def writer_site():
    """'debump.Debump.set_dihedral_angle' if the write happens inside it, else the nearest pdb2pqr frame."""
    import sys as _s

    f = _s._getframe(2)
    first = None
    while f is not None:
        code = f.f_code
        if "/pdb2pqr/" in code.co_filename:
            q = code.co_filename.split("/pdb2pqr/")[-1][:-3].replace("/", ".") + "." + getattr(code, "co_qualname", code.co_name)
            if q == "debump.Debump.set_dihedral_angle":
                return q
            if first is None and code.co_name != "__setattr__":
                first = q
        f = f.f_back
    return first or "?"


def key_of_atom(a):
    return (a.chain_id, a.res_seq, a.ins_code, a.name)


INTERIOR = {"ARG": "CG", "LYS": "CG", "GLU": "CG", "GLN": "CG", "LEU": "CG", "MET": "CG", "ILE": "CG1", "PHE": "CG", "TYR": "CG", "HIS": "CG", "TRP": "CG", "ASP": "CG", "ASN": "CG"}


# every atom a flip moves (heavy) with the atom it hangs on; Debump.find_nearby_atoms calls two atoms of
# different residues "near" below BUMP_HEAVY_SIZE*2 = 2.0 A (heavy-heavy), 1.5 A (heavy-hydrogen), 1.0 A (H-H)
FLIP_ATOMS = {
    "ASN": [("OD1", "CG"), ("ND2", "CG")],
    "GLN": [("OE1", "CD"), ("NE2", "CD")],
    "HIS": [("ND1", "CG"), ("CD2", "CG"), ("CE1", "ND1"), ("NE2", "CD2")],
}
CLASH_DISTANCES = [1.45, 1.6, 1.9, 2.1, 2.4]


def add_clash_waters(text, k):
    """One water oxygen per ASN/GLN/HIS, d A beyond one of its flip atoms on the line parent -> atom:
    a steric neighbour (and hydrogen-bond partner) of another residue AT a flip atom.  Variant k picks, for
    the j-th such residue, flip atom (j + k) mod n and distance CLASH_DISTANCES[(j + k // n) mod 5], so a
    handful of variants put every flip atom of ASN, GLN and HIS on both sides of every threshold."""
    lines = text.splitlines()
    res = {}
    order = []
    for ln in lines:
        if ln.startswith(("ATOM  ", "HETATM")) and ln[17:20] in FLIP_ATOMS:
            key = ln[17:27]
            if key not in res:
                res[key] = {}
                order.append(key)
            res[key].setdefault(ln[12:16].strip(), (float(ln[30:38]), float(ln[38:46]), float(ln[46:54])))
    waters = []
    for j, key in enumerate(order):
        opts = FLIP_ATOMS[key[:3]]
        a, par = opts[(j + k) % len(opts)]
        d = CLASH_DISTANCES[(j + k // len(opts)) % len(CLASH_DISTANCES)]
        if a not in res[key] or par not in res[key]:
            continue
        pa, pp = res[key][a], res[key][par]
        n = math.dist(pa, pp)
        if n < 1e-6:
            continue
        w = [pa[i] + d * (pa[i] - pp[i]) / n for i in range(3)]
        waters.append(f"HETATM{9000 + len(waters):5d}  O   HOH W{900 + len(waters):4d}    {w[0]:8.3f}{w[1]:8.3f}{w[2]:8.3f}  1.00  0.00           O")
    body = [ln for ln in lines if not ln.startswith(("END", "CONECT", "MASTER"))]
    return "\n".join(body + waters + ["END"]) + "\n"


def clash_plan(text, k):
    """What add_clash_waters(text, k) places: [(residue name, flip atom, distance)] (coverage accounting)."""
    seen = []
    for ln in text.splitlines():
        if ln.startswith(("ATOM  ", "HETATM")) and ln[17:20] in FLIP_ATOMS and ln[17:27] not in seen:
            seen.append(ln[17:27])
    out = []
    for j, key in enumerate(seen):
        opts = FLIP_ATOMS[key[:3]]
        out.append((key[:3], opts[(j + k) % len(opts)][0], CLASH_DISTANCES[(j + k // len(opts)) % len(CLASH_DISTANCES)]))
    return out


THOROUGH_TIER_ONLY = [
    *[("1AFS.pdb", ["--ff=AMBER"], False, f"clash{k}") for k in range(0, 20, 3)],
    *[("1AFS.pdb", ["--ff=AMBER"], False, f"preflipped+clash{k}") for k in range(1, 20, 3)],
]


def clash_inputs(thorough):
    """Greedy, deterministic choice of clash variants: 1K1I (29 flip residues, 1.2 s a run) and 1AJJ/1A1P (HIS),
    plain and preflipped, until every (residue type, flip atom, distance) combination has a water in the plain
    AND in the preflipped series."""
    out = []
    want = {(r, a, d) for r, l in FLIP_ATOMS.items() for a, _ in l for d in CLASH_DISTANCES}
    for pre in (False, True):
        have = set()
        budget = {"1K1I.pdb": 12 if thorough else 5, "1AJJ.pdb": 10 if thorough else 4, "1A1P.pdb": 10 if thorough else 3}
        texts = {p: (core.REPO / "tests" / "data" / p).read_text() for p in budget}
        while have != want and any(budget.values()):
            best = None
            for pdb in sorted(budget):
                if not budget[pdb]:
                    continue
                for k in range(40):
                    gain = len(set(clash_plan(texts[pdb], k)) - have)
                    if best is None or gain > best[0]:
                        best = (gain, pdb, k)
            if best is None or best[0] == 0:
                break
            _, pdb, k = best
            budget[pdb] -= 1
            have |= set(clash_plan(texts[pdb], k))
            out.append((pdb, ["--ff=AMBER" if not pre else "--ff=PARSE"], False, ("preflipped+" if pre else "") + f"clash{k}"))
    return out


# a side-chain heavy atom per residue type that repair_heavy can rebuild from the rest of the residue
REBUILD_VICTIMS = {
    "PHE": ["CZ", "CE1"], "TYR": ["OH", "CZ"], "LEU": ["CD1", "CD2"], "ILE": ["CD1", "CG2"], "LYS": ["NZ", "CE"],
    "ARG": ["NH1", "CZ"], "GLU": ["OE1", "CD"], "GLN": ["NE2", "CD"], "ASP": ["OD1", "OD2"], "ASN": ["ND2", "OD1"],
    "SER": ["OG"], "THR": ["OG1", "CG2"], "VAL": ["CG1", "CG2"], "MET": ["CE", "SD"], "HIS": ["NE2", "CE1"], "TRP": ["CH2", "CZ3"],
}
REBUILD_OFFSETS = [0.0, 0.9, 1.3, 1.7]


def rebuild_clash(text, k):
    """Something for debumping to do: every third residue (phase k) loses one side-chain heavy atom, which
    repair_heavy rebuilds (about where it was), and a water oxygen is put 0 / 0.9 / 1.3 / 1.7 A from that spot
    (on the line CA -> atom), i.e. inside the 2.0 A heavy-heavy bump cutoff of the rebuilt atom."""
    lines = text.splitlines()
    groups = []
    for ln in lines:
        if ln.startswith("ATOM  ") and ln[17:20] in REBUILD_VICTIMS:
            key = ln[17:27]
            if not groups or groups[-1][0] != key:
                groups.append((key, {}))
            groups[-1][1].setdefault(ln[12:16].strip(), (float(ln[30:38]), float(ln[38:46]), float(ln[46:54])))
    drop = set()
    waters = []
    for j, (key, atoms) in enumerate(groups):
        if (j + k) % 3:
            continue
        opts = REBUILD_VICTIMS[key[:3]]
        victim = opts[(j // 3 + k) % len(opts)]
        if victim not in atoms or "CA" not in atoms:
            continue
        pa, pc = atoms[victim], atoms["CA"]
        n = math.dist(pa, pc)
        d = REBUILD_OFFSETS[(j // 3 + k // 2) % len(REBUILD_OFFSETS)]
        w = [pa[i] + d * (pa[i] - pc[i]) / n for i in range(3)]
        drop.add((key, victim))
        waters.append(f"HETATM{9500 + len(waters):5d}  O   HOH V{800 + len(waters):4d}    {w[0]:8.3f}{w[1]:8.3f}{w[2]:8.3f}  1.00  0.00           O")
    body = [ln for ln in lines if not ln.startswith(("END", "CONECT", "MASTER")) and not (ln.startswith("ATOM  ") and (ln[17:27], ln[12:16].strip()) in drop)]
    return "\n".join(body + waters + ["END"]) + "\n"


NOMOVE_MODES = [["--nodebump", "--noopt"], ["--nodebump", "--noopt"], ["--nodebump", "--noopt"], ["--clean"], ["--assign-only"]]


def option_lattice(rng, n):
    """Random points of the option lattice that reaches main.non_trivial, all in a mode in which no input heavy atom
    may move (--nodebump --noopt / --clean / --assign-only), on inputs that give debumping something to do
    (rebuild<k>: missing side-chain atoms with a water where they are rebuilt).  (pdb, args, transform, propka)."""
    out = []
    for i in range(n):
        mode = list(NOMOVE_MODES[i % len(NOMOVE_MODES)])
        ff = rng.choice(["AMBER", "PARSE", "CHARMM", "SWANSON", "TYL06", "PEOEPB"])
        extra = [f"--ff={ff}", *mode]
        propka = None
        if i % 5 != 4 and (i % 2 == 0 or rng.random() < 0.5):
            extra += ["--titration-state-method=propka", f"--with-ph={rng.choice(['0.5', '3.0', '7.0', '7.4', '11.0', '13.5'])}"]
            propka = "real" if i % 6 == 0 else "stub"
        elif rng.random() < 0.4:
            extra += [f"--with-ph={rng.choice(['2.0', '9.5'])}"]
        if rng.random() < 0.4:
            extra.append(f"--ffout={rng.choice(['AMBER', 'CHARMM', 'PARSE', 'TYL06'])}")
        if ff == "PARSE" and rng.random() < 0.6:
            extra += rng.choice([["--neutraln"], ["--neutralc"], ["--neutraln", "--neutralc"]])
        for o, pr in (("--keep-chain", 0.4), ("--include-header", 0.3), ("--drop-water", 0.25), ("--whitespace", 0.2)):
            if rng.random() < pr:
                extra.append(o)
        pdb = rng.choice(["1AJJ.pdb", "1AJJ.pdb", "1K1I.pdb", "1A1P.pdb"])
        out.append((pdb, extra, f"rebuild{rng.randrange(12)}", propka))
    return out


# ---- input heavy atoms that arrive under ALIAS names ---------------------------------------


def input_text(pdb):
    """tests/data file, or a built structure: '@pep:ALA-ASN-...' (all heavy atoms, OXT) / '@dna:A-T-G-C' / '@rna:A-U-G-C'."""
    if not pdb.startswith("@"):
        return (core.REPO / "tests" / "data" / pdb).read_text()
    from harness import builder as B

    kind, seq = pdb[1:].split(":")
    seq = seq.split("-")
    atoms = B.build_peptide(seq) if kind == "pep" else B.build_strand(seq, rna=(kind == "rna"))
    return B.to_pdb(atoms)


def heavy_alias_table():
    """{template name: {canonical atom name: [heavy aliases]}} from every <altname> the definition loader of the tree
    under test holds (AA.xml, NA.xml, PATCHES.xml as applied to the templates).  Hydrogen aliases are not this property."""
    from common import load_definition

    definition = load_definition()
    out = {}
    for tname, t in definition.map.items():
        for alias, canon in getattr(t, "altnames", {}).items():
            if alias[0] == "H" or (alias[0].isdigit() and len(alias) > 1 and alias[1] == "H") or canon.startswith("H"):
                continue
            out.setdefault(tname, {}).setdefault(canon, []).append(alias)
    return out


def alias_rewrite(text, k, table):
    """Rename heavy atoms to an alias the data files list for them, per residue: the alias set of the template the
    residue will get (C<res> when it carries OXT, N<res> for the first residue of a chain, else <res>; nucleic
    acids by residue name), alias number k.  Returns (text, [(residue, canonical, alias)])."""
    lines = text.splitlines()
    groups = {}
    order = []
    for ln in lines:
        if ln.startswith(("ATOM  ", "HETATM")):
            key = ln[17:27]
            if key not in groups:
                groups[key] = set()
                order.append(key)
            groups[key].add(ln[12:16].strip())
    first_of_chain = {}
    for key in order:
        first_of_chain.setdefault(key[4], key)
    chosen = {}
    used = []
    for key in order:
        rn = key[:3].strip()
        cands = [("C" + rn) if "OXT" in groups[key] else None, ("N" + rn) if first_of_chain[key[4]] == key else None, rn, "D" + rn if len(rn) == 1 else None, "R" + rn if len(rn) == 1 else None]
        tmpl = next((c for c in cands if c and c in table), None)
        if tmpl is None:
            continue
        for canon, als in table[tmpl].items():
            if canon in groups[key]:
                al = sorted(als)[k % len(als)]
                if len(al) <= 4 and al not in groups[key]:
                    chosen[(key, canon)] = al
                    used.append((key.strip(), canon, al))
    out = []
    for ln in lines:
        if ln.startswith(("ATOM  ", "HETATM")) and (ln[17:27], ln[12:16].strip()) in chosen:
            al = chosen[(ln[17:27], ln[12:16].strip())]
            name = al.ljust(4) if len(al) == 4 else (" " + al).ljust(4)
            ln = ln[:12] + name + ln[16:]
        out.append(ln)
    return "\n".join(out) + "\n", used


ALIAS_STRUCTURES = ["@pep:ALA-ASN-LYS-HIS-GLU", "@pep:GLY-CYS-ASP-TYR-ARG-SER", "@dna:A-T-G-C", "@rna:A-U-G-C", "1QBS.pdb"]


def alias_lattice(rng, n):
    """No-move runs on alias-named inputs: (pdb, args, transform 'alias<k>'). Peptides also with --neutraln/--neutralc."""
    out = []
    for i in range(n):
        pdb = ALIAS_STRUCTURES[i % len(ALIAS_STRUCTURES)] if i % 7 != 6 else "1QBS.pdb"
        mode = list(NOMOVE_MODES[i % len(NOMOVE_MODES)])
        ff = "PARSE" if i % 2 == 0 else rng.choice(["AMBER", "CHARMM", "PARSE", "SWANSON"])
        extra = [f"--ff={ff}", *mode]
        if ff == "PARSE" and not pdb.startswith(("@dna", "@rna")):
            extra += [["--neutralc"], ["--neutraln"], ["--neutraln", "--neutralc"], []][(i // 2) % 4]
        if rng.random() < 0.3:
            extra.append(f"--ffout={rng.choice(['AMBER', 'CHARMM'])}")
        if rng.random() < 0.3:
            extra.append("--keep-chain")
        out.append((pdb, extra, f"alias{i // len(ALIAS_STRUCTURES)}"))
    return out


def transform_pdb(text, transform):
    """The same structure written differently: 'alphabetical' = the ATOM records of every residue sorted
    by atom name (CD before CG, CE1 before ND1, ring atoms before CG); 'del-interior' = an interior
    side-chain heavy atom (CG / CG1) removed from every second residue that has one, so that repair_heavy
    rebuilds it and appends it AFTER its children in residue.atoms."""
    if "+" in transform:
        for t in transform.split("+"):
            text = transform_pdb(text, t)
        return text
    if transform.startswith("clash"):
        return add_clash_waters(text, int(transform[5:] or 0))
    if transform.startswith("rebuild"):
        return rebuild_clash(text, int(transform[7:] or 0))
    if transform.startswith("alias"):
        return alias_rewrite(text, int(transform[5:] or 0), heavy_alias_table())[0]
    lines = text.splitlines()
    out = []
    i = 0
    nres = 0
    while i < len(lines):
        ln = lines[i]
        if not ln.startswith(("ATOM  ", "HETATM")):
            out.append(ln)
            i += 1
            continue
        key = ln[17:27]
        j = i
        while j < len(lines) and lines[j].startswith(("ATOM  ", "HETATM")) and lines[j][17:27] == key:
            j += 1
        grp = lines[i:j]
        if transform == "alphabetical":
            grp = sorted(grp, key=lambda l: l[12:16].strip())
        elif transform == "preflipped":
            # the amide / imidazole written the other way round (coordinates exchanged): where the deposited
            # orientation had the hydrogen bonds, the optimiser now prefers the FLIPPED form
            swaps = {"ASN": [("OD1", "ND2")], "GLN": [("OE1", "NE2")], "HIS": [("ND1", "CD2"), ("CE1", "NE2")]}.get(ln[17:20], [])
            byname = {l[12:16].strip(): k for k, l in enumerate(grp)}
            for x, y in swaps:
                if x in byname and y in byname:
                    lx, ly = grp[byname[x]], grp[byname[y]]
                    grp[byname[x]] = lx[:30] + ly[30:54] + lx[54:]
                    grp[byname[y]] = ly[:30] + lx[30:54] + ly[54:]
        elif transform == "del-interior":
            victim = INTERIOR.get(ln[17:20])
            names = [l[12:16].strip() for l in grp]
            if victim in names and "CA" in names and "CB" in names:
                nres += 1
                if nres % 2 == 1:
                    grp = [l for l in grp if l[12:16].strip() != victim]
        out.extend(grp)
        i = j
    return "\n".join(out) + "\n"


def real_run(ctx, pdb, extra, transform=None, propka=None):
    from pdb2pqr import debump as pdebump, main as pmain, structures as pstruct

    d = ctx.scratch_dir()
    out = d / "g.pqr"
    path = core.REPO / "tests" / "data" / pdb
    if transform or pdb.startswith("@"):
        path = d / ("in_" + "".join(c if c.isalnum() else "_" for c in f"{transform}_{pdb}") + ".pdb")
        text = input_text(pdb)
        path.write_text(transform_pdb(text, transform) if transform else text)
    args = pmain.build_main_parser().parse_args([*extra, str(path), str(out)])
    calls = []
    writes = {}
    orig_sda = pdebump.Debump.set_dihedral_angle
    had_setattr = "__setattr__" in pstruct.Atom.__dict__
    orig_setattr = pstruct.Atom.__dict__.get("__setattr__")
    initial = {}
    input_ids = {}
    orig_key = {}
    state = {"armed": False}

    def w_sda(self, residue, anglenum, angle):
        names = residue.reference.dihedrals[anglenum].split()
        try:
            mv = residue.get_moveable_names(names[2])
        except Exception:
            mv = None
        calls.append(
            {
                "res": residue.name,
                "atoms": [a.name for a in residue.atoms],
                "bonds": {a.name: [b.name for b in a.bonds if residue.map.get(b.name) is b] for a in residue.atoms},
                "nt": bool(residue.is_n_term),
                "ct": bool(residue.is_c_term),
                "dihedral": names,
                "moved": mv,
                "ranks": {a.name: a.refdistance for a in residue.atoms},
            }
        )
        return orig_sda(self, residue, anglenum, angle)

    def w_setattr(self, name, value):
        # only the atom OBJECTS read from the input count (create_atom copies atoms[0] and then overwrites x/y/z)
        if state["armed"] and name in ("x", "y", "z") and id(self) in input_ids and self.__dict__.get(name) != value:
            site = writer_site()
            writes[site] = writes.get(site, 0) + 1
        if orig_setattr:
            orig_setattr(self, name, value)
        else:
            object.__setattr__(self, name, value)

    orig_setup = pmain.setup_molecule

    def w_setup(pdblist, definition, ligand):
        r = orig_setup(pdblist, definition, ligand)
        for a in r[0].atoms:
            if not a.name.startswith("H"):
                initial.setdefault(key_of_atom(a), (a.x, a.y, a.z))
                input_ids[id(a)] = a  # keeps the object alive, so ids stay unique
                orig_key.setdefault(id(a), key_of_atom(a))
        state["armed"] = True
        return r

    orig_debump = pdebump.Debump.debump_residue
    real_ties = []

    def w_debump(self, residue, conflict_names):
        # the same recorders as the scripted walks, but passing the REAL answers through
        return traced_debump(self, residue, conflict_names, orig_debump, real_ties)

    pdebump.Debump.debump_residue = w_debump
    pdebump.Debump.set_dihedral_angle = w_sda
    pstruct.Atom.__setattr__ = w_setattr
    pmain.setup_molecule = w_setup
    flips = []
    undo_flip = install_flip_monitor(flips, orig_key, input_ids)
    orig_propka = pmain.run_propka
    if propka == "stub":
        pmain.run_propka = lambda a, b: ([], "stub pKa table (harness)")
    orig_dbm = pdebump.Debump.debump_biomolecule
    passes = []

    def w_dbm(self):
        passes.append({"debump": bool(getattr(args, "debump", None)), "opt": bool(getattr(args, "opt", None))})
        return orig_dbm(self)

    pdebump.Debump.debump_biomolecule = w_dbm
    err = None
    bio = None
    try:
        _, _, bio = pmain.main_driver(args)
    except BaseException as e:  # noqa
        err = f"{type(e).__name__}: {e}"
    finally:
        undo_flip()
        pmain.run_propka = orig_propka
        pdebump.Debump.debump_biomolecule = orig_dbm
        pdebump.Debump.set_dihedral_angle = orig_sda
        pdebump.Debump.debump_residue = orig_debump
        pmain.setup_molecule = orig_setup
        if had_setattr:
            pstruct.Atom.__setattr__ = orig_setattr
        else:
            del pstruct.Atom.__setattr__
    for f in d.glob("g.*"):
        f.unlink()
    return {"calls": calls, "writes": writes, "initial": initial, "bio": bio, "err": err, "orig_key": orig_key, "debump_ties": real_ties, "flips": flips, "debump_passes": passes, "opt_debump": (bool(getattr(args, "debump", None)), bool(getattr(args, "opt", None)))}


BACKBONE_CAP = {"N", "CA", "C", "O", "OXT"}


_CANON = {}


def canon_of_alias():
    """alias -> canonical heavy-atom name (union over all templates)."""
    if not _CANON:
        try:
            for t in heavy_alias_table().values():
                for canon, als in t.items():
                    for al in als:
                        _CANON.setdefault(al, canon)
        except Exception:  # noqa
            pass
        _CANON.setdefault("", "")
    return _CANON


def mode_of(extra):
    return " ".join(x for x in extra if x in ("--nodebump", "--noopt", "--clean", "--assign-only") or x.startswith("--titration-state-method"))


def geometry_oracle(ctx, pdb, extra, noop, run, definition):
    """Input heavy atoms: exact for backbone/caps and no-op modes; rigid otherwise."""
    bio = run["bio"]
    if bio is None:
        return
    final = {}
    by_res = {}
    for res in bio.residues:
        for a in res.atoms:
            # identity of an input atom = the OBJECT read from the input, under the name it was
            # read with: Carboxylic.rename exchanges the NAMES of the two carboxyl oxygens
            # (OE1<->OE2, OD1<->OD2, O<->OXT) without moving any atom, and --ffout renames too
            k = run["orig_key"].get(id(a))
            if k is None or k in final:
                continue
            final[k] = (a.x, a.y, a.z)
            by_res.setdefault(k[:3], (res, {}))[1][k[3]] = k
    label = f"{pdb} {' '.join(extra)}"
    res_atoms = {}
    for res in bio.residues:
        for a in res.atoms:
            res_atoms.setdefault((a.chain_id, a.res_seq, a.ins_code), []).append(a)
    for k, p0 in run["initial"].items():
        if k not in final:
            # the input OBJECT is gone (deletions as such are C03's subject) - but if the result has an atom under
            # the same name, or under the canonical name of the alias it was read with, in that residue, that atom
            # stands for the input atom: it must be where the input atom was
            cands = {k[3], canon_of_alias().get(k[3], k[3])}
            sub = next((a for a in res_atoms.get(k[:3], []) if a.name in cands and id(a) not in run["orig_key"]), None)
            if sub is not None:
                p1 = (sub.x, sub.y, sub.z)
                ctx.evaluated(f"{label}:{k}:replaced", True)
                if p1 != p0:
                    ctx.fail({"site": "pipeline", "condition": "input-atom-deleted-and-rebuilt-elsewhere", "atom": canon_of_alias().get(k[3], k[3])}, f"{label}: input heavy atom {k} was removed and an atom {sub.name} rebuilt {math.dist(p0, p1):.4f} A away", {"pdb": pdb, "args": extra, "atom": list(k), "propka": run.get("propka")})
            continue
        p1 = final[k]
        moved = p0 != p1
        ctx.evaluated(f"{label}:{k}", True)
        if moved and noop:
            ctx.fail({"site": "pipeline", "condition": "moved-in-noop-mode", "mode": mode_of(extra)}, f"{label}: input heavy atom {k} moved {math.dist(p0, p1):.4f} A although no atom may move in this mode", {"pdb": pdb, "args": extra, "atom": list(k), "propka": run.get("propka")})
        elif moved and k[3] in BACKBONE_CAP:
            ctx.fail({"site": "pipeline", "condition": "backbone-or-cap-moved", "atom": k[3]}, f"{label}: backbone/cap atom {k} moved {math.dist(p0, p1):.4f} A", {"pdb": pdb, "args": extra, "atom": list(k)})
    # rigid geometry per residue with any moved atom
    for rk, (res, names) in by_res.items():
        ks = [k for k in names.values() if k in run["initial"]]
        if not any(run["initial"][k] != final[k] for k in ks):
            continue
        ctx.count("residues-with-moved-input-atoms")
        ref = getattr(res, "reference", None)
        if ref is None:
            continue
        present = {k[3] for k in ks}
        bonds = set()
        for an, ta in ref.map.items():
            if an in present:
                for b in ta.bonds:
                    if b in present:
                        bonds.add(tuple(sorted((an, b))))
        pos0 = {k[3]: run["initial"][k] for k in ks}
        pos1 = {k[3]: final[k] for k in ks}
        pairs = set(bonds)
        nb = {}
        for u, v in bonds:
            nb.setdefault(u, set()).add(v)
            nb.setdefault(v, set()).add(u)
        for v, ns in nb.items():
            ns = sorted(ns)
            for i in range(len(ns)):
                for j in range(i + 1, len(ns)):
                    pairs.add((ns[i], ns[j]))
        for u, v in sorted(pairs):
            d0, d1 = math.dist(pos0[u], pos0[v]), math.dist(pos1[u], pos1[v])
            if abs(d0 - d1) > 1e-6:
                kind = "bond-length" if (u, v) in bonds else "bond-angle"
                ctx.fail({"site": "pipeline", "condition": f"{kind}-changed", "residue": res.name}, f"{label}: {res} {u}-{v} distance {d0:.5f} -> {d1:.5f} ({kind} among input heavy atoms changed)", {"pdb": pdb, "args": extra, "residue": str(res), "pair": [u, v], "before": d0, "after": d1})
                break



# --------------------------------------------------------------------------
# (D) debump histories driven by oracle answers
#
# Debump.debump_residue decides from bump scores which torsion to scan, which
# angle to keep and when to give up.  Real structures rarely produce a history
# with several accepted and rejected torsions on one residue, so the geometric
# decisions are replaced by scripted answers (score_dihedral_angle and
# find_residue_conflicts are monkeypatched on the Debump OBJECT, nothing in
# /repo changes) and debump_residue itself runs on real residues.  Whatever the
# history, the residue's input heavy atoms must end as a composition of rigid
# side-chain rotations: backbone unmoved, every bond length and bond angle kept.


def _walk_fixture(variant="plain"):
    """variant 'repaired': interior side-chain atoms (CG/CG1 of every second residue) are deleted from the
    input and rebuilt by the real Biomolecule.repair_heavy, which appends them at the end of residue.atoms."""
    import tempfile

    from pdb2pqr import aa, cells, debump
    from pdb2pqr import io as pio
    from pdb2pqr import main as pmain

    path = core.REPO / "tests" / "data" / "1AJJ.pdb"
    definition = pio.get_definitions()
    if variant == "repaired":
        with tempfile.NamedTemporaryFile("w", suffix=".pdb", delete=False) as fh:
            fh.write(transform_pdb(path.read_text(), "del-interior"))
        try:
            pdblist, _ = pio.get_molecule(fh.name)
        finally:
            Path(fh.name).unlink()
    else:
        pdblist, _ = pio.get_molecule(str(path))
    bm, definition, _ = pmain.setup_molecule(pdblist, definition, None)
    bm.set_termini(neutraln=False, neutralc=False)
    bm.update_bonds()
    if variant == "repaired":
        bm.remove_hydrogens()
        bm.repair_heavy()
    db = debump.Debump(bm)
    db.cells = cells.Cells(2)
    db.cells.assign_cells(bm)
    bm.calculate_dihedral_angles()
    bm.set_donors_acceptors()
    bm.update_internal_bonds()
    bm.set_reference_distance()
    residues = []
    for res in bm.residues:
        if not isinstance(res, aa.Amino):
            continue
        side = []
        for k, dstr in enumerate(res.reference.dihedrals):
            nm = dstr.split()
            if all(res.has_atom(x) for x in nm) and res.dihedrals[k] is not None and nm[3] in res.get_moveable_names(nm[2]):
                side.append(k)
        if side:
            residues.append((res, side))
    return bm, db, residues


def _rigid_failures(res, before, after):
    """Bond lengths and bond angles (as 1-3 distances) among the residue's heavy atoms, and
    exact positions of backbone/cap atoms. Returns [(condition, detail)]."""
    out = []
    heavy = [n for n in before if not n.startswith("H")]
    for n in heavy:
        if n in BACKBONE_CAP and before[n] != after[n]:
            out.append(("backbone-or-cap-moved", f"{n} moved {math.dist(before[n], after[n]):.4f} A"))
    bonds = set()
    for an, ta in res.reference.map.items():
        if an in before and not an.startswith("H"):
            for b in ta.bonds:
                if b in before and not b.startswith("H"):
                    bonds.add(tuple(sorted((an, b))))
    nb = {}
    for u, v in bonds:
        nb.setdefault(u, set()).add(v)
        nb.setdefault(v, set()).add(u)
    pairs = {(p, "bond-length") for p in bonds}
    for v, ns in nb.items():
        ns = sorted(ns)
        for i in range(len(ns)):
            for j in range(i + 1, len(ns)):
                if (ns[i], ns[j]) not in bonds:
                    pairs.add(((ns[i], ns[j]), "bond-angle"))
    for (u, v), kind in sorted(pairs):
        d0, d1 = math.dist(before[u], before[v]), math.dist(after[u], after[v])
        if abs(d0 - d1) > 1e-6:
            out.append((f"{kind}-changed", f"{u}-{v} distance {d0:.5f} -> {d1:.5f}"))
    return out


def run_walk(db, res, script, conflicts0, trace=None):
    """Run Debump.debump_residue(res) with scripted answers. `script` = list of attempts,
    each {"mode": none|improve|improve2|tie|zero-conflict|zero-clear, "k": step, "conf": [names]}.
    `trace` (a dict) receives every oracle answer in call order (scores, conflict lists, the
    dihedral stored by each set_dihedral_angle) and every (anglenum, angle) passed to
    set_dihedral_angle: together with the initial residue.dihedrals and the moveable sets these
    answers determine the run, in the code and in Model.Debump.debump_residue."""
    state = {"attempt": -1, "call": 0}
    if trace is None:
        trace = {}
    trace.update({"scores": [], "confs": [], "meas": [], "calls": [], "deltas": [], "score_args": [], "result": None})
    from pdb2pqr import quatfit as pquat

    def attempt():
        i = state["attempt"]
        return script[i] if 0 <= i < len(script) else {"mode": "none", "k": 1, "conf": []}

    def score_value(c):
        if c == 0:
            return 10.0  # bestscore of this attempt
        a = attempt()
        if a["mode"] == "improve" and c == a["k"]:
            return 5.0
        if a["mode"] == "improve2" and c in (a["k"], a["k"] + 7):
            return 5.0 if c == a["k"] else 2.5
        if a["mode"] == "tie" and c in (a["k"], a["k"] + 3):
            # smaller than bestscore, but by less than SMALL_NUMBER / by more
            return 10.0 - 5e-8 if c == a["k"] else 10.0 - 2e-7
        if a["mode"].startswith("zero") and c == a["k"]:
            return 0
        return 10.0 + 0.001 * c

    def score(residue, anglenum):
        c = state["call"]
        state["call"] += 1
        v = score_value(c)
        trace["scores"].append(float(v))
        trace["score_args"].append(anglenum)
        return v

    def conflicts(residue, write_conflict_info=False):
        a = attempt()
        if a["mode"] == "zero-clear" and state["call"] <= a["k"] + 1 and state.get("inscan"):
            out = []
        else:
            out = list(a["conf"])
        trace["confs"].append(list(out))
        return out

    orig_pick = res.pick_dihedral_angle

    def pick(conflict_names, oldnum=None):
        state["attempt"] += 1
        state["call"] = 0
        state["inscan"] = True
        return orig_pick(conflict_names, oldnum)

    orig_set = type(db).set_dihedral_angle

    orig_qchi = pquat.qchichange

    def qchi(initcoords, refcoords, angle):
        trace["deltas"].append((state["anglenum"], float(angle)))  # the rotation actually applied
        return orig_qchi(initcoords, refcoords, angle)

    def set_angle(residue, anglenum, angle):
        trace["calls"].append((anglenum, float(angle)))
        state["anglenum"] = anglenum
        orig_set(db, residue, anglenum, angle)
        trace["meas"].append(float(residue.dihedrals[anglenum]))

    db.score_dihedral_angle = score
    db.find_residue_conflicts = conflicts
    db.set_dihedral_angle = set_angle
    res.pick_dihedral_angle = pick
    pquat.qchichange = qchi
    try:
        trace["result"] = db.debump_residue(res, list(conflicts0))
        return trace["result"]
    finally:
        pquat.qchichange = orig_qchi
        del db.score_dihedral_angle, db.find_residue_conflicts, db.set_dihedral_angle, res.pick_dihedral_angle


def gen_script(rng, res, side):
    movers = sorted({n for k in side for n in res.get_moveable_names(res.reference.dihedrals[k].split()[2])})
    n = rng.choice([1, 2, 2, 3, 3, 4, 6, 10])
    script = []
    for _ in range(n):
        mode = rng.choice(["none", "none", "improve", "improve", "improve2", "tie", "zero-conflict", "zero-clear"])
        conf = rng.sample(movers, rng.randint(1, min(3, len(movers)))) if rng.random() < 0.9 else []
        script.append({"mode": mode, "k": rng.choice([1, 2, 17, 35, 36, 70, 71]), "conf": conf})
    conflicts0 = rng.sample(movers, rng.randint(1, min(3, len(movers))))
    return script, conflicts0


# ---- tie of Model.Debump with debump.Debump.debump_residue / residue.pick_dihedral_angle ----

DEBUMP_HEADER = (
    "From Coq Require Import List String Bool PArith ZArith PrimFloat.\n"
    "From PV Require Import Model.ForceField Model.Moves Model.Quatfit Model.Debump.\nImport ListNotations.\n"
)


def fshow(f):
    """A python float in the format of Model.Quatfit.show_float (exact: sign, 53-bit mantissa, exponent)."""
    f = float(f)
    if f != f:
        return "nan"
    if f in (float("inf"), float("-inf")):
        return "+inf" if f > 0 else "-inf"
    sg = "-" if math.copysign(1.0, f) < 0 else "+"
    if f == 0:
        return sg + "0e-2154"
    m, e = math.frexp(abs(f))
    return f"{sg}{int(math.ldexp(m, 53))}e{e - 53}"


def fdec(tok):
    if tok in ("nan", "+inf", "-inf", "None"):
        return {"nan": float("nan"), "+inf": float("inf"), "-inf": float("-inf"), "None": None}[tok]
    m, e = tok[1:].split("e")
    return math.copysign(math.ldexp(int(m), int(e)), -1.0 if tok[0] == "-" else 1.0)


def residue_dihedral_terms(res, ids):
    """Coq terms for the residue's dihedral list (axis atoms + moveable names of the real code)."""

    def I(n):
        return f"{ids.setdefault(n, len(ids) + 1)}%positive"

    out = []
    for k in range(len(res.dihedrals)):
        nm = res.reference.dihedrals[k].split()
        mov = res.get_moveable_names(nm[2]) if res.has_atom(nm[2]) else []
        out.append(f"(mkdihedral {I(nm[1])} {I(nm[2])} {core.coq_list([I(x) for x in mov])})")
    return core.coq_list(out), I


def coq_angles(dih):
    return core.coq_list(["None" if a is None else f"(Some {core.float_hex(float(a))})" for a in dih])


def traced_debump(db, residue, conflict_names, orig_debump, out):
    """Run the real Debump.debump_residue with recorders around the REAL score_dihedral_angle,
    find_residue_conflicts, set_dihedral_angle and quatfit.qchichange, and append the comparison
    term (Model.Debump.check_debump on the recorded answers) to `out`."""
    from pdb2pqr import quatfit as pquat

    cls = type(db)
    trace = {"scores": [], "confs": [], "meas": [], "calls": [], "deltas": [], "result": None}
    cur = {"n": None}
    try:
        dih0 = list(residue.dihedrals)
        ids = {}
        residue_dihedral_terms(residue, ids)  # fails early (before anything is patched) on an odd residue
    except Exception:  # noqa
        return orig_debump(db, residue, conflict_names)

    def score(res, anglenum):
        v = cls.score_dihedral_angle(db, res, anglenum)
        trace["scores"].append(float(v))
        return v

    def conflicts(res, write_conflict_info=False):
        v = cls.find_residue_conflicts(db, res, write_conflict_info=write_conflict_info)
        trace["confs"].append(list(v))
        return v

    def set_angle(res, anglenum, angle):
        trace["calls"].append((anglenum, float(angle)))
        cur["n"] = anglenum
        cls.set_dihedral_angle(db, res, anglenum, angle)
        trace["meas"].append(float(res.dihedrals[anglenum]))

    orig_qchi = pquat.qchichange

    def qchi(initcoords, refcoords, angle):
        trace["deltas"].append((cur["n"], float(angle)))
        return orig_qchi(initcoords, refcoords, angle)

    db.score_dihedral_angle, db.find_residue_conflicts, db.set_dihedral_angle = score, conflicts, set_angle
    pquat.qchichange = qchi
    err = None
    try:
        trace["result"] = orig_debump(db, residue, conflict_names)
        return trace["result"]
    except Exception as e:  # noqa
        err = f"{type(e).__name__}: {e}"
        raise
    finally:
        pquat.qchichange = orig_qchi
        del db.score_dihedral_angle, db.find_residue_conflicts, db.set_dihedral_angle
        out.append(walk_tie(residue, dih0, list(residue.dihedrals), list(conflict_names), trace, err))


def walk_tie(res, dih0, dih1, conflicts0, trace, err):
    """Coq terms comparing one walk: Model.Debump.check_debump gets the answers the code received and
    everything the code did with them (result, every (anglenum, angle) passed to set_dihedral_angle,
    every rotation angle handed to quatfit.qchichange, the final residue.dihedrals), all floats as
    exact hex literals, and answers "OK" or the first difference."""
    ids = {}
    dihs, I = residue_dihedral_terms(res, ids)
    inputs = (
        f"{dihs} {coq_angles(dih0)} {core.coq_list([core.float_hex(x) for x in trace['scores']])} "
        f"{core.coq_list([core.coq_list([I(n) for n in c]) for c in trace['confs']])} "
        f"{core.coq_list([core.float_hex(x) for x in trace['meas']])} {core.coq_list([I(n) for n in conflicts0])}"
    )

    def pairs(l):
        return core.coq_list([f"({n}%nat, {core.float_hex(a)})" for n, a in l])

    term = f"check_debump {inputs} {str(bool(trace['result'])).lower()} {pairs(trace['calls'])} {pairs(trace['deltas'])} {coq_angles(dih1)}"
    return {
        "term": term,
        "show": f"show_debump {inputs}",
        "exc": err,
        "residue": str(res),
        "ncalls": len(trace["calls"]),
        "nscores": len(trace["scores"]),
        "nconfs": len(trace["confs"]),
        "code": f"result={trace['result']} calls={[(n, a) for n, a in trace['calls'][:3]]}... final={dih1}",
    }


def compare_walk_ties(ctx, ties, cases, name="C04d", label="walks"):
    """Evaluate Model.Debump.debump_residue on the answers each walk received and compare everything
    the code did with what the model does."""
    if not ties:
        return
    try:
        outs = core.run_cases(name, DEBUMP_HEADER, [t["term"] for t in ties] + [ties[0]["show"]], chunk=max(4, (len(ties) + 12) // 12))
    except core.CoqEvalError as e:
        ctx.broke("correspondence-broken", "Model.Debump.debump_residue vs debump.Debump.debump_residue: model evaluation failed", str(e)[-1500:])
        return
    nbad = 0
    for t, o, case in zip(ties, outs, cases):
        ctx.cov["correspondence_cases"] += 1
        ctx.count("debump-tie:set_dihedral_angle calls compared", t["ncalls"])
        ctx.count("debump-tie:oracle answers consumed", t["nscores"] + t["nconfs"] + t["ncalls"])
        if t["exc"]:
            o = f"the code raised {t['exc']}; model: {o}"
        if o != "OK":
            ctx.cov["correspondence_disagreements"] += 1
            nbad += 1
            if nbad <= 2:
                ctx.broke("correspondence-broken", "Model.Debump.debump_residue vs debump.Debump.debump_residue", f"{t['residue']} ({t['ncalls']} set_dihedral_angle calls): {o}", case)
    ctx.count(f"debump-tie:{label} compared", len(ties))
    t = ties[0]
    ctx.sample({f"debump_tie ({label})": {"residue": t["residue"], "set_calls": t["ncalls"], "code": t["code"][:300], "model": outs[-1][:300], "verdict": outs[0]}})


def pick_ties(ctx, residues, n):
    """Residue.pick_dihedral_angle vs Model.Debump.pick_dihedral_angle on random conflict lists, previous
    numbers and missing-dihedral patterns of real residues."""
    terms, impls, cases = [], [], []
    for _ in range(n):
        res, side = ctx.rng.choice(residues)
        nd = len(res.dihedrals)
        movers = sorted({x for k in side for x in res.get_moveable_names(res.reference.dihedrals[k].split()[2])})
        pool = movers + [a.name for a in res.atoms][:3]
        shape = ctx.rng.random()
        if shape < 0.25:
            k = ctx.rng.choice(side)
            conf = list(res.get_moveable_names(res.reference.dihedrals[k].split()[2]))  # == moveablenames
            if ctx.rng.random() < 0.3:
                ctx.rng.shuffle(conf)
        else:
            conf = [ctx.rng.choice(pool) for _ in range(ctx.rng.randint(0, 5))]  # duplicates count twice
        old = ctx.rng.choice([None, -1] + list(range(nd)) * 2)
        dih0 = list(res.dihedrals)
        mask = [a if (a is not None and ctx.rng.random() < 0.8) else None for a in dih0]
        res.dihedrals[:] = mask
        try:
            got = str(res.pick_dihedral_angle(list(conf), old))
        except Exception as e:  # noqa
            got = f"EXC:{type(e).__name__}"
        finally:
            res.dihedrals[:] = dih0
        ids = {}
        dihs, I = residue_dihedral_terms(res, ids)
        oldt = "None" if old in (None, -1) else f"(Some {old}%nat)"
        terms.append(f"show_pick {dihs} {coq_angles(mask)} {core.coq_list([I(x) for x in conf])} {oldt}")
        impls.append(got)
        cases.append({"pick": {"residue": str(res), "conflict_names": conf, "oldnum": old, "dihedrals": mask}})
        ctx.count(f"pick-tie:oldnum={'none' if old in (None, -1) else 'set'}:result={'-1' if got == '-1' else 'index'}")
    terms.append("show_constants")
    try:
        outs = core.run_cases("C04p", DEBUMP_HEADER, terms, chunk=200)
    except core.CoqEvalError as e:
        ctx.broke("correspondence-broken", "Model.Debump.pick_dihedral_angle vs residue.Residue.pick_dihedral_angle: model evaluation failed", str(e)[-1500:])
        return
    nbad = 0
    for got, o, case in zip(impls, outs, cases):
        ctx.cov["correspondence_cases"] += 1
        if got != o:
            ctx.cov["correspondence_disagreements"] += 1
            nbad += 1
            if nbad <= 2:
                ctx.broke("correspondence-broken", "Model.Debump.pick_dihedral_angle vs residue.Residue.pick_dihedral_angle", f"{case['pick']}: code {got} model {o}", case)
    from pdb2pqr import config as pconfig

    consts = f"{pconfig.DEBUMP_ANGLE_STEPS} {fshow(pconfig.DEBUMP_ANGLE_STEP_SIZE)} {pconfig.DEBUMP_ANGLE_TEST_COUNT} {fshow(pconfig.SMALL_NUMBER)}"
    ctx.cov["correspondence_cases"] += 1
    if consts != outs[-1]:
        ctx.cov["correspondence_disagreements"] += 1
        ctx.broke("correspondence-broken", "Model.Debump constants vs pdb2pqr/config.py (DEBUMP_ANGLE_STEPS, DEBUMP_ANGLE_STEP_SIZE, DEBUMP_ANGLE_TEST_COUNT, SMALL_NUMBER)", f"code {consts} model {outs[-1]}")


def apply_storage(res, storage):
    """Re-store the residue: storage = {"atoms": [names in the new order], "bonds": {name: [permutation of
    bond indices]}}. Returns what is needed to undo it."""
    saved = (list(res.atoms), {id(a): list(a.bonds) for a in res.atoms})
    by_name = {}
    for a in res.atoms:
        by_name.setdefault(a.name, a)
    res.atoms[:] = [by_name[n] for n in storage["atoms"]]
    for a in res.atoms:
        perm = storage.get("bonds", {}).get(a.name)
        if perm and sorted(perm) == list(range(len(a.bonds))):
            a.bonds[:] = [a.bonds[i] for i in perm]
    return saved


def undo_storage(res, saved):
    res.atoms[:] = saved[0]
    for a in res.atoms:
        a.bonds[:] = saved[1][id(a)]


def random_storage(rng, res):
    names = [a.name for a in res.atoms]
    rng.shuffle(names)
    bonds = {}
    for a in res.atoms:
        perm = list(range(len(a.bonds)))
        rng.shuffle(perm)
        bonds[a.name] = perm
    return {"atoms": names, "bonds": bonds}


def debump_walk_case(ctx, db, res, script, conflicts0, label, ties=None, storage=None, variant="plain"):
    saved = apply_storage(res, storage) if storage else None
    try:
        return _debump_walk_case(ctx, db, res, script, conflicts0, label, ties, storage, variant)
    finally:
        if saved:
            undo_storage(res, saved)


def _debump_walk_case(ctx, db, res, script, conflicts0, label, ties, storage, variant):
    atoms = [a for a in res.atoms]
    before = {a.name: (a.x, a.y, a.z) for a in atoms}
    dih0 = list(res.dihedrals)
    err = None
    trace = {}
    try:
        run_walk(db, res, script, conflicts0, trace)
    except Exception as e:  # noqa
        err = f"{type(e).__name__}: {e}"
    after = {a.name: (a.x, a.y, a.z) for a in atoms}
    if ties is not None:
        ties.append(walk_tie(res, dih0, list(res.dihedrals), conflicts0, trace, err))
    fails = _rigid_failures(res, before, after)
    # undo: walks are independent of each other
    for a in atoms:
        db.cells.remove_cell(a)
        a.x, a.y, a.z = before[a.name]
        db.cells.add_cell(a)
    res.dihedrals[:] = dih0
    case = {"walk": {"residue": str(res), "script": script, "conflicts0": conflicts0, "storage": storage, "variant": variant}, "label": label}
    accepted = sum(1 for a in script if a["mode"] != "none")
    rebuilt = sorted(a.name for a in atoms if getattr(a, "added", False) and not a.name.startswith("H"))
    ctx.count(f"debump-walk:residue stored {'in file order' if not storage else 'shuffled'}{', interior atom rebuilt by repair_heavy' if rebuilt else ''}")
    ctx.evaluated(("walk", str(res), variant, core.sha(storage), core.sha(script)), accepted >= 1 and len(script) >= 2 and any(before[n] != after[n] for n in before))
    ctx.count(f"debump-walk:attempts={min(len(script), 4)}{'+' if len(script) > 4 else ''}")
    if err:
        ctx.count("debump-walk:exception")
        ctx.notes.append(f"debump walk {label}: {err}")
    seen = set()
    for cond, detail in fails:
        if cond in seen:
            continue
        seen.add(cond)
        how = (f", residue.atoms stored as {storage['atoms']}" if storage else "") + (f", {rebuilt} rebuilt by repair_heavy (stored last)" if rebuilt else "")
        ctx.fail({"site": "Debump.debump_residue", "condition": cond}, f"debump history on {res} ({len(script)} scripted attempts{how}): {detail}", case)
    return bool(fails)


def debump_walks(ctx, n, tie_n=400):
    """n scripted walks checked by the geometry oracle; the first tie_n are also compared with the Coq
    model. If that comparison breaks, the geometry search continues at high volume.  About half of the
    walks run on a residue that is STORED differently: residue.atoms and every atom.bonds shuffled, or
    (fixture 'repaired') with an interior side-chain atom deleted from the input and rebuilt by the real
    repair_heavy, which appends it after its children."""
    fixtures = {}
    for variant in ("plain", "repaired"):
        try:
            bm, db, residues = _walk_fixture(variant)
            fixtures[variant] = (db, residues, [(r, s) for r, s in residues if len(s) >= 2], [(r, s) for r, s in residues if any(a.added and not a.name.startswith("H") for a in r.atoms)])
        except Exception as e:  # noqa
            ctx.broke("correspondence-broken", f"debump walk fixture '{variant}' (tests/data/1AJJ.pdb through setup_molecule/repair_heavy/Debump)", f"{type(e).__name__}: {e}")
    if "plain" not in fixtures:
        return
    ties, cases = [], []

    def walks(k, first):
        for w in range(first, first + k):
            u = ctx.rng.random()
            variant = "repaired" if (u < 0.25 and "repaired" in fixtures and fixtures["repaired"][3]) else "plain"
            db, residues, multi, rebuilt = fixtures[variant]
            if variant == "repaired":
                res, side = ctx.rng.choice(rebuilt)
            else:
                res, side = ctx.rng.choice(multi if (multi and ctx.rng.random() < 0.8) else residues)
            storage = random_storage(ctx.rng, res) if 0.25 <= u < 0.55 else None
            script, conflicts0 = gen_script(ctx.rng, res, side)
            tied = w < tie_n
            bad = debump_walk_case(ctx, db, res, script, conflicts0, f"#{w}", ties if tied else None, storage, variant)
            if tied:
                cases.append({"walk": {"residue": str(res), "script": script, "conflicts0": conflicts0, "storage": storage, "variant": variant}, "label": f"#{w}"})
            if w == 0:
                ctx.sample({"debump_walk": {"residue": str(res), "script": script, "conflicts0": conflicts0, "variant": variant, "storage": storage, "rigid": not bad}})

    walks(n, 0)
    before = len(ctx.broken)
    compare_walk_ties(ctx, ties, cases)
    pick_ties(ctx, fixtures["plain"][1], 3000 if n > 1000 else 600)
    if len(ctx.broken) > before and n < 4000:
        # the model no longer describes the code: only the model-independent search can tell whether the property fails
        walks(4000 - n, n)
        ctx.count("debump-walk:escalated-after-broken-tie", 4000 - n)


FLAGS4 = [(False, False), (True, False), (False, True), (True, True)]


def storage_order_correspondence(ctx, definition, mlabels, model_template_order):
    """The moved set must not depend on how the residue is STORED (order of residue.atoms - input file
    order, rebuilt atoms appended by repair_heavy - and of each atom.bonds).  Every template x dihedral x
    terminus flags: (1) reversed and alphabetical order, real code vs the Coq model evaluated on
    rev_graph / sort_graph (exact list); (2) random permutations, real code vs the model's template-order
    result as a SET, listed in the permuted atom order.  A difference is a broken correspondence; if the
    set the code selects is not a rigid sub-tree (independent python graph check) it is a failure with
    the storage order as the concrete input."""
    name_ids = json.loads((core.COQ / "Generated" / "names.json").read_text())
    broken = False
    nfail = 0

    def differs(lab, nt, ct, mode, order, bond_order, impl, expect):
        nonlocal broken, nfail
        ctx.cov["correspondence_disagreements"] += 1
        broken = True
        case = {"template": lab, "nt": nt, "ct": ct, "moved": impl, "order": order, "bond_order": bond_order, "mode": mode}
        if sum(x["kind"] == "correspondence-broken" for x in ctx.broken) < 4:
            ctx.broke("correspondence-broken", "Model.Moves.moveable vs set_reference_distance+get_moveable_names under another storage order of the residue", f"{lab} nterm={nt} cterm={ct} atoms stored {mode} {order}: impl=[{impl}] expected=[{expect}]", case)
        why = None if impl == "GAP" else py_rigid_violation(definition, lab, impl.split(), heavy_only=True)
        if why and nfail < 6:
            nfail += 1
            ctx.fail({"site": "Residue.get_moveable_names", "condition": "moved-set-not-rigid", "template": lab.split(":")[0][-3:]}, f"{lab} (nterm={nt}, cterm={ct}) with residue.atoms stored as {order}: rotating [{impl}] about the dihedral's middle bond is not rigid: {why}", case)

    # (1) reversed / alphabetical against the model on the re-stored graph
    try:
        terms = [f"show_moves_on {tr} {str(nt).lower()} {str(ct).lower()}" for tr in ("rev_graph", "sort_graph") for nt, ct in FLAGS4]
        outs = core.run_cases("C04o", HEADER + SHOW, terms, timeout=600, chunk=2)
    except core.CoqEvalError as e:
        ctx.broke("correspondence-broken", "moveable sets under other storage orders: model evaluation failed", str(e)[-1500:])
        return True
    k = 0
    for mode in ("reversed", "alphabetical"):
        for nt, ct in FLAGS4:
            orders = []
            labels, impl = impl_moves(definition, nt, ct, mode, None, name_ids, orders)
            model = outs[k].split(";")
            k += 1
            for lab, a, b, (order, bond_order) in zip(labels, impl, model, orders):
                ctx.cov["correspondence_cases"] += 1
                ctx.evaluated(f"tmpl:{lab}:{nt}:{ct}:{mode}", bool(a))
                if a != b:
                    differs(lab, nt, ct, mode, order, bond_order, a, b)
            ctx.count(f"storage-order:{mode}", len(labels))
    # (2) random permutations against the template-order set
    nperm = 12 if ctx.thorough else 3
    for p in range(nperm):
        for (nt, ct), mstr in zip(FLAGS4, model_template_order):
            orders = []
            labels, impl = impl_moves(definition, nt, ct, "random", ctx.rng, None, orders)
            model = mstr.split(";")
            for lab, a, b, (order, bond_order) in zip(labels, impl, model, orders):
                ctx.cov["correspondence_cases"] += 1
                ctx.evaluated(f"tmpl:{lab}:{nt}:{ct}:perm{core.sha(order)[:8]}", bool(a))
                want = b if b == "GAP" else " ".join(x for x in order if x in set(b.split()))
                if a != want:
                    differs(lab, nt, ct, "random", order, bond_order, a, want)
            ctx.count("storage-order:random-permutation", len(labels))
    return broken


# ---- the flip path: hydrogens/structures.py Flip (Model/Flip.v) -----------------------------


def install_flip_monitor(records, orig_key=None, input_ids=None):
    """Wrap Flip.__init__/fix_flip/finalize/complete (class level, undone by the returned function).
    One record per Flip object: the residue before __init__, the rotation the code applied (arguments of
    quatfit.qchichange), residue.atoms after __init__, every fix_flip/finalize call, residue.atoms after the
    last finalize/complete.  The *FLIP atoms are created at the cached INPUT coordinates: they are registered
    under the key of the input atom they stand for, so that the geometry oracle follows them."""
    import numpy as np

    from pdb2pqr import quatfit as pquat
    from pdb2pqr.hydrogens import structures as hs

    o_init, o_fix, o_fin, o_comp = hs.Flip.__init__, hs.Flip.fix_flip, hs.Flip.finalize, hs.Flip.complete

    def snap(residue):
        return [(a.name, (float(a.x), float(a.y), float(a.z))) for a in residue.atoms]

    def w_init(self, residue, optinstance, routines):
        names = optinstance.optangle.split()
        rec = {"residue": str(residue), "resname": residue.name, "optangle": optinstance.optangle, "is_c_term": bool(residue.is_c_term), "ops": [], "in_complete": False, "err": None}
        try:
            rec["atoms0"] = snap(residue)
            rec["M"] = list(residue.get_moveable_names(names[2]))
            rec["b"] = tuple(map(float, residue.get_atom(names[1]).coords))
            rec["c"] = tuple(map(float, residue.get_atom(names[2]).coords))
            rec["dihedral0"] = float(residue.dihedrals[residue.reference.dihedrals.index(optinstance.optangle)])
            rec["bonds"] = {a.name: [x.name for x in a.bonds if residue.map.get(x.name) is x] for a in residue.atoms}
        except Exception as e:  # noqa
            rec["err"] = f"before __init__: {type(e).__name__}: {e}"
        rot = []
        orig_q = pquat.qchichange

        def qchi(initcoords, refcoords, angle):
            rot.append(([float(x) for x in initcoords], float(angle)))
            return orig_q(initcoords, refcoords, angle)

        pquat.qchichange = qchi
        before_objs = {a.name: a for a in residue.atoms}
        try:
            o_init(self, residue, optinstance, routines)
        finally:
            pquat.qchichange = orig_q
        rec["rot"] = rot
        rec["atoms1"] = snap(residue)
        rec["final"] = None
        if rot:
            init, angle = rot[0]
            rad = math.pi * angle / 180.0
            rec["oracle"] = (float(np.linalg.norm(init)), math.cos(rad), math.sin(rad), angle)
        if orig_key is not None:
            for a in residue.atoms:
                if a.name.endswith("FLIP") and a.name[:-4] in before_objs and id(before_objs[a.name[:-4]]) in orig_key:
                    orig_key[id(a)] = orig_key[id(before_objs[a.name[:-4]])]
                    input_ids[id(a)] = a
        self._c04rec = rec
        records.append(rec)

    def w_fix(self, bondatom):
        rec = getattr(self, "_c04rec", None)
        if rec is not None:
            r = bondatom.residue
            rec["ops"].append(["fix", bool(bondatom.name.endswith("FLIP")), bool(r.has_atom(bondatom.name) and r.get_atom(bondatom.name) is bondatom)])
        o_fix(self, bondatom)
        if rec is not None:
            rec["final"] = snap(self.residue)
            rec["fixed"] = bool(self.residue.fixed)

    def w_fin(self):
        rec = getattr(self, "_c04rec", None)
        if rec is not None and not rec["in_complete"]:
            rec["ops"].append(["finalize"])
        o_fin(self)
        if rec is not None:
            rec["final"] = snap(self.residue)
            rec["fixed"] = bool(self.residue.fixed)

    def w_comp(self):
        rec = getattr(self, "_c04rec", None)
        if rec is not None:
            rec["in_complete"] = True
        try:
            o_comp(self)
        finally:
            if rec is not None:
                rec["in_complete"] = False
                rec["completed"] = True
                rec["final"] = snap(self.residue)
                rec["fixed"] = bool(self.residue.fixed)
                rec["wasFlipped"] = bool(getattr(self.residue, "wasFlipped", False))

    hs.Flip.__init__, hs.Flip.fix_flip, hs.Flip.finalize, hs.Flip.complete = w_init, w_fix, w_fin, w_comp

    def undo():
        hs.Flip.__init__, hs.Flip.fix_flip, hs.Flip.finalize, hs.Flip.complete = o_init, o_fix, o_fin, o_comp

    return undo


FLIP_HEADER = (
    "From Coq Require Import List String Bool PArith ZArith PrimFloat.\n"
    "From PV Require Import Model.ForceField Model.Moves Model.Quatfit Model.Flip.\nImport ListNotations.\n"
)


def flip_term(rec):
    """Model.Flip.check_flip on one observed Flip object (all floats exact)."""
    ids = {}

    def I(n):
        return f"{ids.setdefault(n, len(ids) + 1)}%positive"

    def pt(p):
        return f"({core.float_hex(p[0])}, {core.float_hex(p[1])}, {core.float_hex(p[2])})"

    def atoms(l):
        out = []
        for n, p in l:
            fl = n.endswith("FLIP")
            out.append(f"(mkfatom {I(n[:-4] if fl else n)} {'true' if fl else 'false'} {pt(p)})")
        return core.coq_list(out)

    nrm, c, s, angle = rec["oracle"]
    M = rec["M"]
    Mc = [n for n in M if not (rec["is_c_term"] and n == "HO")]
    ops = core.coq_list([f"(FixFlip {'true' if o[1] else 'false'})" if o[0] == "fix" else "Finalize" for o in rec["ops"]])
    final = rec["final"] if rec["final"] is not None else rec["atoms1"]
    # a Flip object that was never finalised nor completed: the model's complete() would clean up, the code did not
    return (
        f"check_flip {core.float_hex(nrm)} {core.float_hex(c)} {core.float_hex(s)} {pt(rec['b'])} {pt(rec['c'])} "
        f"{core.coq_list([I(n) for n in M])} {core.coq_list([I(n) for n in Mc])} {atoms(rec['atoms0'])} {ops} "
        f"{atoms(rec['atoms1'])} {atoms(final)} {'true' if rec.get('fixed') else 'false'} "
        f"{core.float_hex(rec['dihedral0'])} {core.float_hex(angle)}"
    )


def flip_oracle(ctx, rec, label):
    """Model-independent: after the Flip object is done the residue has no *FLIP atom, every atom outside the
    rotated set has exactly its input coordinates, and the heavy atoms of the rotated set are EITHER all at their
    input coordinates OR all where the rotation of __init__ put them; bond lengths / 1-3 distances among the
    residue's heavy atoms are those of the input."""
    if rec.get("err"):
        return
    # right after Flip.__init__: exactly one *FLIP atom for every moveable name (Model.Flip.copy_names), at the
    # input coordinates of that atom, and nothing else new
    want = [n for n in rec["M"] if not (rec["is_c_term"] and n == "HO")]
    got = [n[:-4] for n, _ in rec["atoms1"] if n.endswith("FLIP")]
    inp0 = dict(rec["atoms0"])
    a1 = dict(rec["atoms1"])
    ctx.cov["correspondence_cases"] += 1
    if sorted(got) != sorted(want) or any(a1[n + "FLIP"] != inp0.get(n) for n in want if n + "FLIP" in a1):
        ctx.cov["correspondence_disagreements"] += 1
        missing = sorted(set(want) - set(got))
        extra = sorted(n for n in got if n not in want or got.count(n) > 1)
        moved = [n for n in want if n + "FLIP" in a1 and a1[n + "FLIP"] != inp0.get(n)]
        if sum(b["what"].startswith("Flip.__init__ copies") for b in ctx.broken) < 3:
            ctx.broke("correspondence-broken", "Flip.__init__ copies vs Model.Flip.copy_names: one *FLIP atom per moveable name at the cached input coordinates", f"{label}: {rec['residue']} {rec['optangle']}: missing copies {missing}, unexpected copies {extra}, copies not at the input position {moved}", {"pdb": label.split()[0], "args": label.split()[1:], "flip": {"residue": rec["residue"]}})
    final = rec["final"]
    if final is None:
        return
    inp = dict(rec["atoms0"])
    rot = {n: p for n, p in rec["atoms1"] if not n.endswith("FLIP")}
    fin = {}
    for n, p in final:
        fin.setdefault(n, p)
    case = {"flip": {k: rec[k] for k in ("residue", "optangle", "ops")}, "label": label}
    sig = {"site": "hydrogens.structures.Flip", "residue": rec["resname"]}
    left = [n for n in fin if n.endswith("FLIP")]
    heavyM = [n for n in rec["M"] if not n.startswith("H") and n in inp and n in fin]
    ctx.evaluated(("flip", label, rec["residue"]), bool(heavyM))
    if left:
        ctx.fail({**sig, "condition": "FLIP-atoms-left"}, f"{label}: {rec['residue']} still has {left} after the flip was decided", case)
        return
    for n, p in fin.items():
        if n in inp and n not in rec["M"] and not n.startswith("H") and p != inp[n]:
            ctx.fail({**sig, "condition": "atom-outside-the-flipped-set-moved"}, f"{label}: {rec['residue']} {n} is not rotated by the flip {rec['optangle']} but moved {math.dist(p, inp[n]):.4f} A", case)
            return
    same = [n for n in heavyM if fin[n] == inp[n]]
    flipped = [n for n in heavyM if n in rot and fin[n] == rot[n] and fin[n] != inp[n]]
    if len(same) != len(heavyM) and len(flipped) != len(heavyM):
        other = [n for n in heavyM if n not in same and n not in flipped]
        ctx.fail({**sig, "condition": "flip-mixture"}, f"{label}: {rec['residue']} flip {rec['optangle']}: {same} kept their input coordinates, {flipped} are rotated, {other} are neither", case)
        return
    ctx.count(f"flip-outcome:{rec['resname']}:{'flipped' if (flipped and len(flipped) == len(heavyM)) else 'input kept'}")
    # rigid geometry among the heavy atoms of the residue that the input had
    heavy = [n for n in fin if n in inp and not n.startswith("H")]
    bonds = {tuple(sorted((u, v))) for u in heavy for v in rec.get("bonds", {}).get(u, []) if v in heavy}
    nb = {}
    for u, v in bonds:
        nb.setdefault(u, set()).add(v)
        nb.setdefault(v, set()).add(u)
    pairs = {(p, "bond-length") for p in bonds}
    for v, ns in nb.items():
        ns = sorted(ns)
        pairs |= {((ns[i], ns[j]), "bond-angle") for i in range(len(ns)) for j in range(i + 1, len(ns)) if (ns[i], ns[j]) not in bonds}
    for (u, v), kind in sorted(pairs):
        d0, d1 = math.dist(inp[u], inp[v]), math.dist(fin[u], fin[v])
        if abs(d0 - d1) > 1e-6:
            ctx.fail({**sig, "condition": f"{kind}-changed"}, f"{label}: {rec['residue']} after the flip {rec['optangle']}: {u}-{v} distance {d0:.5f} -> {d1:.5f}", case)
            return


def compare_flip_ties(ctx, recs):
    """(label, record) list -> Model.Flip.check_flip verdicts; also measures what binary64 does to a double flip."""
    good = [(lab, r) for lab, r in recs if not r.get("err") and r.get("oracle")]
    for lab, r in recs:
        if r.get("err") or not r.get("oracle"):
            ctx.cov["correspondence_disagreements"] += 1
            ctx.broke("correspondence-broken", "Model.Flip vs hydrogens.structures.Flip: the monitor could not follow Flip.__init__", f"{lab} {r['residue']}: {r.get('err') or 'no rotation observed in Flip.__init__'}", {"flip": {"residue": r["residue"]}, "label": lab})
    if not good:
        return
    try:
        outs = core.run_cases("C04f", FLIP_HEADER, [flip_term(r) for _, r in good], chunk=max(4, (len(good) + 7) // 8))
    except core.CoqEvalError as e:
        ctx.broke("correspondence-broken", "Model.Flip vs hydrogens.structures.Flip: model evaluation failed", str(e)[-1500:])
        return
    nbad = 0
    worst = 0.0
    from pdb2pqr import quatfit as pquat

    for (lab, r), o in zip(good, outs):
        ctx.cov["correspondence_cases"] += 1
        ctx.count("flip-tie:Flip objects compared")
        ctx.count("flip-tie:atoms compared (after __init__ and after complete)", len(r["atoms1"]) + len(r["final"] or []))
        ctx.count("flip-tie:ops:" + (",".join("fix-FLIP" if (x[0] == "fix" and x[1]) else ("fix-plain" if x[0] == "fix" else "finalize") for x in r["ops"]) or "none"))
        if o != "OK":
            ctx.cov["correspondence_disagreements"] += 1
            nbad += 1
            if nbad <= 3:
                ctx.broke("correspondence-broken", "Model.Flip (flip_init/fix_flip/finalize/complete) vs hydrogens.structures.Flip", f"{lab} {r['residue']} {r['optangle']}: {o}", {"flip": {"residue": r["residue"], "optangle": r["optangle"], "ops": r["ops"]}, "label": lab})
        # binary64: rotate the set twice with the code's own qchichange and measure the round trip
        try:
            init, angle = r["rot"][0]
            inp = dict(r["atoms0"])
            pts = [[inp[n][k] - r["b"][k] for k in range(3)] for n in r["M"] if n in inp]
            twice = pquat.qchichange(init, pquat.qchichange(init, pts, angle), angle)
            worst = max([worst] + [abs(float(q[k]) - p[k]) for p, q in zip(pts, twice) for k in range(3)])
        except Exception:  # noqa
            pass
    ctx.cov["flip_round_trip_max_abs_deviation_A"] = worst
    lab, r = good[0]
    ctx.sample({"flip_tie": {"run": lab, "residue": r["residue"], "optangle": r["optangle"], "moved": r["M"], "ops": r["ops"], "angle_passed": r["oracle"][3], "cos_sin": list(r["oracle"][1:3]), "verdict": outs[0]}})


def call_term(c, ids):
    def I(n):
        return ids.setdefault(n, len(ids) + 1)

    g = core.coq_list([f"({I(a)}%positive, {core.coq_list([f'{I(b)}%positive' for b in c['bonds'][a]])})" for a in c["atoms"]])
    bb = core.coq_list([f"{I(n)}%positive" for n in ["N", "CA", "C", "O", "O2", "HA", "HN", "H", "tN"]])
    nmrec = f"(mknames {bb} {I('CA')}%positive {I('HO')}%positive {I('H2')}%positive {I('H3')}%positive)"
    piv = I(c["dihedral"][2])
    return f"show_ids (let g := {g} in match ranks {nmrec} {str(c['nt']).lower()} {str(c['ct']).lower()} g with None => [] | Some rk => moveable g rk {piv}%positive end)"


def run(ctx):
    import sys

    sys.path.insert(0, str(core.VERIF / "gen"))
    ctx.cov["rule"] = (
        "exhaustive: every amino-acid template x dihedral x 4 terminus-flag combinations, moveable set of the real code (fake residues built from "
        "Definition.map) vs the Coq model, in template order, reversed and alphabetical order (model evaluated on rev_graph/sort_graph, exact list) and "
        "3 (thorough 12) random permutations of residue.atoms and of every atom.bonds (same set as the model, listed in the permuted order); real runs also on "
        "inputs rewritten with alphabetical atom order within residues and with interior side-chain atoms (CG/CG1) deleted so that repair_heavy rebuilds and "
        "appends them, and with ASN/GLN/HIS written the other way round ('preflipped': O/N resp. ring atoms exchanged, so that the optimiser flips them back); inputs with a water oxygen 1.45-2.4 A beyond each flip atom "
        "of ASN/GLN/HIS (all 40 residue x atom x distance combinations, plain and preflipped); every Flip "
        "object of every real run is followed from __init__ to complete() (flip_oracle: all-or-nothing + rigid; tie with Model.Flip); ~30% of the debump walks on a residue whose atoms/bonds lists are shuffled, ~25% on a residue with an interior atom rebuilt by the real repair_heavy; every Debump.set_dihedral_angle call of real runs replayed in the model; every input heavy atom of real runs "
        "checked (exact for backbone/caps/no-op modes, rigid geometry otherwise). Debump walks: debump_residue on a random real residue of 1AJJ "
        "(80% with >= 2 side-chain dihedrals) with a random script of 1-10 attempts (modes none/improve/improve2/tie/zero-conflict/zero-clear at steps "
        "1,2,17,35,36,70,71, random conflict names); each walk is checked by the geometry oracle AND compared with Model.Debump.debump_residue on the "
        "answers it received; pick_dihedral_angle is compared on random conflict lists / oldnum / missing-dihedral masks. Non-trivial = a template "
        "pair with a non-empty moved set, a distinct observed call, a distinct input heavy atom of a run, or a walk with >= 2 attempts, >= 1 accepted "
        "and moved atoms"
    )
    gen_ok = c01.regenerate(ctx, "ff_tables,topology,moves_table,flip_table,stages")
    ok = core.proof_stage(ctx, "C04", THEOREMS, ALLOWED_AXIOMS) if gen_ok else False
    if not gen_ok:
        ctx.obligations.extend(THEOREMS)
    from common import load_definition

    definition = load_definition()
    corr_broken = False
    # --- (A)
    if gen_ok:
        try:
            res = core.run_cases("C04a", HEADER + SHOW, ["show_pairs", "show_moves false false", "show_moves true false", "show_moves false true", "show_moves true true"], timeout=600)
        except core.CoqEvalError as e:
            res = None
            corr_broken = True
            ctx.broke("correspondence-broken", "template moveable sets: model evaluation failed", str(e))
        if res is not None:
            mlabels = res[0].split(";")
            for k, (nt, ct) in enumerate([(False, False), (True, False), (False, True), (True, True)]):
                labels, impl = impl_moves(definition, nt, ct)
                model = res[1 + k].split(";")
                if labels != mlabels:
                    corr_broken = True
                    ctx.broke("correspondence-broken", "template/dihedral list of the generated table differs from Definition.map", f"{len(labels)} vs {len(mlabels)}")
                    break
                for lab, a, b in zip(labels, impl, model):
                    ctx.cov["correspondence_cases"] += 1
                    ctx.evaluated(f"tmpl:{lab}:{nt}:{ct}", bool(a))
                    if a != b:
                        ctx.cov["correspondence_disagreements"] += 1
                        corr_broken = True
                        if sum(x["kind"] == "correspondence-broken" for x in ctx.broken) < 3:
                            ctx.broke("correspondence-broken", "Model.Moves.moveable vs set_reference_distance+get_moveable_names", f"{lab} nterm={nt} cterm={ct}: impl=[{a}] model=[{b}]", {"template": lab, "nt": nt, "ct": ct})
                        # is the implementation's set non-rigid?  (independent graph check in python)
                        why = py_rigid_violation(definition, lab, a.split(), heavy_only=True)
                        if why:
                            ctx.fail({"site": "Residue.get_moveable_names", "condition": "moved-set-not-rigid", "template": lab.split(":")[0][-3:]}, f"{lab} (nterm={nt}, cterm={ct}): rotating {a} about the dihedral's middle bond is not rigid: {why}", {"template": lab, "nt": nt, "ct": ct, "moved": a})
            ctx.sample({"template_pair": labels[5], "impl_moved": impl[5], "model_moved": model[5]})
            if True:
                corr_broken = storage_order_correspondence(ctx, definition, mlabels, res[1:5]) or corr_broken
    # --- (B)+(C)
    inputs = list(THOROUGH if (ctx.thorough or not ok or corr_broken) else QUICK) + (THOROUGH_TIER_ONLY if ctx.thorough else []) + clash_inputs(ctx.thorough)
    seen_calls = {}
    real_ties = []
    flip_recs = []
    lattice = option_lattice(ctx.rng, 60 if ctx.thorough else 14)
    inputs += [(pdb, extra, True, tr, pk) for pdb, extra, tr, pk in lattice]
    inputs += [("1AJJ.pdb", ["--ff=AMBER"], False, "rebuild0"), ("1AJJ.pdb", ["--ff=PARSE", "--noopt"], False, "rebuild1")]
    try:
        table = heavy_alias_table()
    except Exception as e:  # noqa
        table = {}
        ctx.notes.append(f"alias table: {type(e).__name__}: {e}")
    if not any(table.values()):
        ctx.broke("generator-broken", "alias table (altnames of the definition templates) is empty", "no heavy-atom <altname> found through the definition loader")
    else:
        for pdb, extra, tr in alias_lattice(ctx.rng, 60 if ctx.thorough else 15):
            used = alias_rewrite(input_text(pdb), int(tr[5:]), table)[1]
            for _, canon, al in used:
                ctx.count(f"alias-input:{canon}->{al}")
            if used:
                inputs.append((pdb, extra, True, tr, None))
        inputs += [("@pep:ALA-ASN-LYS-HIS-GLU", ["--ff=PARSE", "--neutralc"], False, "alias0"), ("@dna:A-T-G-C", ["--ff=AMBER"], False, "alias0")]
    for pdb, extra, noop, *tr in inputs:
        transform = tr[0] if tr else None
        propka = tr[1] if len(tr) > 1 else None
        run_ = real_run(ctx, pdb, extra, transform, propka)
        if noop and len(tr) > 1:
            ctx.count(f"option-lattice:{mode_of(extra)}{':propka-' + propka if propka else ''}")
            ctx.count("option-lattice:runs that reached the end" if not run_["err"] else "option-lattice:runs that raised")
        # stage table tie: a debumping pass runs only with args.debump (Generated/Stages.v: the guards of both
        # debump_biomolecule stages depend on debump, assign_only, clean only)
        ctx.cov["correspondence_cases"] += 1
        if run_["debump_passes"] and not all(p["debump"] for p in run_["debump_passes"]):
            ctx.cov["correspondence_disagreements"] += 1
            if not any(b["what"].startswith("stage table: Debump.debump_biomolecule") for b in ctx.broken):
                ctx.broke("correspondence-broken", "stage table: Debump.debump_biomolecule ran although args.debump is false (C04_noop_stage_table: its guards are args.debump)", f"{pdb}[{transform}] {' '.join(extra)}: {len(run_['debump_passes'])} debumping pass(es) with args.debump false", {"pdb": f"{pdb}[{transform}]" if transform else pdb, "args": extra, "propka": propka})
        if transform and "clash" in transform:
            base = (core.REPO / "tests" / "data" / pdb).read_text()
            for rn, an, d in clash_plan(base, int(transform.split("clash")[1])):
                ctx.count(f"clash-water:{rn}:{an}:{d}{':preflipped' if 'preflipped' in transform else ''}")
        if transform:
            pdb = f"{pdb}[{transform}]"
        if run_["err"]:
            ctx.notes.append(f"{pdb} {extra}: {run_['err']}")
        ctx.count(f"real:{pdb}:set_dihedral_calls", len(run_["calls"]))
        for c in run_["calls"]:
            seen_calls.setdefault(core.sha({k: c[k] for k in ("atoms", "bonds", "nt", "ct", "dihedral")}), c)
        for site, n in run_["writes"].items():
            ctx.count(f"heavy-write@{site}", n)
            if site != "debump.Debump.set_dihedral_angle":
                # not by itself a violation (a writer that restores saved coordinates is harmless): the model's
                # set of coordinate-writing operations no longer covers the code; the geometry search decides
                if not any(b["what"].endswith(site) for b in ctx.broken):
                    ctx.broke("correspondence-broken", f"Model.Moves coordinate writers vs the code: input heavy atoms written from {site}", f"{pdb} {' '.join(extra)}: {n} coordinate writes to input heavy atoms from {site} (the model has only Debump.set_dihedral_angle)", {"pdb": pdb, "args": extra, "site": site})
            elif noop:
                ctx.fail({"site": site, "condition": "moved-in-noop-mode", "mode": mode_of(extra)}, f"{pdb} {' '.join(extra)}: side-chain rotation executed in a no-op mode", {"pdb": pdb, "args": extra})
        run_["propka"] = propka
        geometry_oracle(ctx, pdb, extra, noop, run_, definition)
        for t in run_["debump_ties"]:
            t["case"] = {"pdb": pdb, "args": extra, "residue": t["residue"]}
            real_ties.append(t)
        label = f"{pdb} {' '.join(extra)}"
        ctx.count(f"real:{pdb}:Flip objects", len(run_["flips"]))
        no_opt = any(m in extra for m in ("--noopt", "--clean", "--assign-only"))
        if no_opt and run_["flips"]:
            ctx.cov["correspondence_disagreements"] += 1
            ctx.broke("correspondence-broken", "no Flip object is created with --noopt / --clean / --assign-only (main.py non_trivial: initialize_full_optimization only if args.opt)", f"{label}: {len(run_['flips'])} Flip objects created", {"pdb": pdb, "args": extra})
        if no_opt:
            ctx.cov["correspondence_cases"] += 1
        for rec in run_["flips"]:
            flip_oracle(ctx, rec, label)
            flip_recs.append((label, rec))
    if gen_ok:
        compare_flip_ties(ctx, flip_recs)
    if real_ties and gen_ok:
        ctx.count("debump-tie:real debump_residue calls (real scores/conflicts)", len(real_ties))
        compare_walk_ties(ctx, real_ties, [t["case"] for t in real_ties], name="C04e", label="real runs")
    debump_walks(ctx, 4000 if (ctx.thorough or not ok or corr_broken or ctx.broken) else 400, tie_n=4000 if ctx.thorough else 400)
    if seen_calls and gen_ok:
        calls = list(seen_calls.values())
        hdr = HEADER + "From PV Require Import Lib.Decimal.\nDefinition show_ids (l : list id) : string := String.concat \" \" (map (fun i => Z_to_string (Zpos i)) l).\n"
        terms, idmaps = [], []
        for c in calls:
            ids = {}
            terms.append(call_term(c, ids))
            idmaps.append({v: k for k, v in ids.items()})
        try:
            outs = core.run_cases("C04b", hdr.replace("Generated.Topology Generated.MovesTable", "").replace("From PV Require Import Model.ForceField Model.Topology Model.Moves .", "From PV Require Import Model.ForceField Model.Topology Model.Moves."), terms, chunk=60)
        except core.CoqEvalError as e:
            outs = None
            ctx.broke("correspondence-broken", "observed set_dihedral_angle calls: model evaluation failed", str(e))
        if outs is not None:
            for c, o, im in zip(calls, outs, idmaps):
                ctx.cov["correspondence_cases"] += 1
                model = [im[int(x)] for x in o.split()] if o else []
                ctx.evaluated("call:" + core.sha(c), True)
                if c["moved"] is None or model != c["moved"]:
                    ctx.cov["correspondence_disagreements"] += 1
                    if sum(x["kind"] == "correspondence-broken" for x in ctx.broken) < 4:
                        ctx.broke("correspondence-broken", "Model.Moves.moveable vs get_moveable_names on a call observed in a real run", f"{c['res']} {c['dihedral']}: impl={c['moved']} model={model}", c)
            ctx.sample({"observed_call": {k: calls[0][k] for k in ("res", "dihedral", "moved", "nt", "ct")}})
    ctx.trusted += [
        "generators gen/topology.py + gen/moves_table.py (Definition.map dumped through the repo loader, cross-checked against the XML text)",
        "rotation about the axis is an isometry fixing the axis: theorem C15 (rot_isometry, rot_fixes_axis over R); float rounding not verified",
        "no-op modes and 'no other writer of input heavy atoms': observed by the monitor on a fixed set of runs, not proved",
        "Model/Debump.v (hand model of debump_residue / pick_dihedral_angle / set_dihedral_angle) tied by differential execution on scripted walks; "
        "the hypothesis 'measured dihedral = requested angle mod 360' of the net-rotation theorems is not proved (it is C15's torsion_addition in exact arithmetic)",
    ]
    ctx.assumptions += ["hydrogen = name starts with 'H' (structures.Atom.is_hydrogen)", "disulfide (inter-residue) bonds are outside the rigidity lemma"]


def py_rigid_violation(definition, label, moved, heavy_only):
    rname, dih = label.split(":")
    tmpl = definition.map[rname]
    a, b, c, d = dih.split()
    keep = lambda n: n in tmpl.map and n not in ("N+1", "C-1") and not (heavy_only and n.startswith("H"))  # noqa
    M = {m for m in moved if keep(m)}
    for u in M:
        for v in tmpl.map[u].bonds:
            if keep(v) and v not in M and v != c:
                return f"{u} moves but its bonded atom {v} does not"
    for v in tmpl.map[c].bonds:
        if keep(v) and v not in M and v != b:
            return f"neighbour {v} of the pivot {c} does not move"
    if b in M or c in M:
        return "an axis atom moves"
    return None


def replay(ctx, data):
    case = data.get("case")
    if case is None:
        # a proof-/correspondence-broken payload: replay the first disagreeing case it carries
        case = next((b["case"] for b in data.get("broken", []) if b.get("case")), None)
        if case is None:
            print("replay: the payload carries no input (a proof or generator stage broke): run ./check C04")
            return 1
    import sys

    sys.path.insert(0, str(core.VERIF / "gen"))
    from common import load_definition

    definition = load_definition()
    if "template" in case and "order" in case:
        rname, dih = case["template"].split(":")
        mv = moved_names(definition.map[rname], case["nt"], case["ct"], dih, case["order"], case.get("bond_order"))
        ref = moved_names(definition.map[rname], case["nt"], case["ct"], dih)
        why = None if mv == "GAP" else py_rigid_violation(definition, case["template"], mv.split(), True)
        same = set(mv.split()) == set(ref.split())
        print(f"replay: {case['template']} atoms stored as {case['order']}: moved=[{mv}] template order: [{ref}] ->", "FAILS: " + why if why else ("differs from the template-order set" if not same else "passes"))
        return 1 if (why or not same) else 0
    if "template" in case:
        labels, impl = impl_moves(definition, case["nt"], case["ct"])
        mv = impl[labels.index(case["template"])]
        why = py_rigid_violation(definition, case["template"], mv.split(), True)
        print(f"replay: {case['template']} moved=[{mv}] ->", "FAILS: " + why if why else "passes")
        return 1 if why else 0
    if "pick" in case:
        bm, db, residues = _walk_fixture()
        pk = case["pick"]
        for res, side in residues:
            if str(res) == pk["residue"]:
                dih0 = list(res.dihedrals)
                res.dihedrals[:] = pk["dihedrals"]
                try:
                    got = str(res.pick_dihedral_angle(list(pk["conflict_names"]), pk["oldnum"]))
                finally:
                    res.dihedrals[:] = dih0
                ids = {}
                dihs, I = residue_dihedral_terms(res, ids)
                oldt = "None" if pk["oldnum"] in (None, -1) else f"(Some {pk['oldnum']}%nat)"
                out = core.run_cases("C04r", DEBUMP_HEADER, [f"show_pick {dihs} {coq_angles(pk['dihedrals'])} {core.coq_list([I(x) for x in pk['conflict_names']])} {oldt}"])[0]
                print(f"replay: pick_dihedral_angle code {got} model {out}")
                return 1 if got != out else 0
        print("replay: residue not found")
        return 1
    if "walk" in case:
        bm, db, residues = _walk_fixture(case["walk"].get("variant") or "plain")
        for res, side in residues:
            if str(res) == case["walk"]["residue"]:
                ties = []
                bad = debump_walk_case(ctx, db, res, case["walk"]["script"], case["walk"]["conflicts0"], "replay", ties, case["walk"].get("storage"), case["walk"].get("variant") or "plain")
                compare_walk_ties(ctx, ties, [case])
                print("replay:", "FAILS" if bad else "geometry passes", [f["what"] for f in ctx.failures][:3])
                for b in ctx.broken:
                    print("replay: model and code disagree:", b["what"], "-", b["detail"])
                return 1 if (bad or ctx.broken) else 0
        print("replay: residue not found")
        return 1
    import re as _re

    m = _re.match(r"(.*)\[(.*)\]$", case["pdb"])
    run_ = real_run(ctx, m.group(1), case["args"], m.group(2), case.get("propka")) if m else real_run(ctx, case["pdb"], case["args"], None, case.get("propka"))
    before = len(ctx.failures)
    geometry_oracle(ctx, case["pdb"], case["args"], any(m in case["args"] for m in ("--clean", "--assign-only")) or ("--nodebump" in case["args"] and "--noopt" in case["args"]), run_, definition)
    bad = len(ctx.failures) - before + sum(1 for s in run_["writes"] if s != "debump.Debump.set_dihedral_angle")
    print("replay:", "FAILS" if bad else "passes", run_["writes"])
    return 1 if bad else 0
