"""E2E_Assign - `pdb2pqr --assign-only --ff=<FF>` end to end: the composition of the
C07 model (ingest), set_termini (Model/CleanRun.v), the C02 state model
(States.set_state / nuc_state), the C01 force-field maps and assignment
(ForceField.assign over Generated.FF_<ff>.built) and the C08 formatter, tied to the
real CLI path (argparse + main.main_driver writing a real file).

Used from harness/props/c01.py:  from harness.props import e2e_assign; e2e_assign.run_extra(ctx)
Standalone (development):
  cd /verif && PYTHONPATH=/repo:/verif /venv/bin/python -c "from harness import core; \
    from harness.props import e2e_assign as m; ctx=core.Ctx('C01','quick',0); m.run_extra(ctx); \
    print(ctx.broken, ctx.failures, ctx.cov['correspondence_cases'])"
"""

import importlib.util
import json
import math
import re
from pathlib import Path

from harness import builder, core
from harness.props import c07, e2e_clean
from harness.props.c08 import coq_bool

THEOREMS_EXTRA = [
    "E2E_assign_written_exact",
    "E2E_assign_missed_exact",
    "E2E_assign_partition_order",
    "E2E_assign_names_are_C02",
    "E2E_assign_faithful_partial",
    "E2E_assign_nonvacuous",
]
ALLOWED_AXIOMS = []
PROP_FILE = "E2E_Assign"
CORPUS = core.VERIF / "corpus" / "E2E"
FFS = ["AMBER", "CHARMM", "PARSE", "PEOEPB", "SWANSON", "TYL06"]

HEADER0 = (
    "From Coq Require Import String List ZArith NArith PArith.\n"
    "From PV Require Import Lib.Strings Lib.Decimal Model.PdbRead Model.Group Model.PdbSpec Model.CleanRun Model.AssignRun.\n"
    "From PV Require Model.PqrFormat Model.ForceField Generated.E2ENames.\n"
)


def rnd_table(ff, rows):
    """The two rendering oracles of q4, from the DAT text: decimal ties at the 4th place
    (value*10^8 -> does '%.4f' of the double round up?) and negative-zero charges."""
    from decimal import Decimal

    ids = json.loads((core.COQ / "Generated" / "names.json").read_text())
    ties, negz = {}, []
    for (res, atom), (qt, rt) in rows.items():
        for t in (qt, rt):
            v = int(Decimal(t) * 10**8)
            if abs(v) % 10000 == 5000:
                shown = Decimal("%.4f" % float(t))
                ties[v] = abs(int(shown * 10**4)) > abs(v) // 10000
        if float(qt) == 0.0 and math.copysign(1.0, float(qt)) < 0 and res in ids and atom in ids:
            negz.append((ids[res], ids[atom]))
    return (
        "Definition RN : rnd := mkRnd "
        + core.coq_list([f"({core.coq_Z(v)}, {coq_bool(b)})" for v, b in sorted(ties.items())])
        + " "
        + core.coq_list([f"({a}%positive, {b}%positive)" for a, b in sorted(negz)])
        + ".\n"
    )


def header_for(ff, tab, ct, pt, rows):
    return (
        HEADER0
        + f"From PV Require Generated.FF_{ff}.\n"
        + "Import ListNotations.\nOpen Scope string_scope.\n"
        + c07.coq_deftab(tab)
        + e2e_clean.coq_ptab(pt)
        + "Definition CT : ctab := "
        + core.coq_list([f"({core.coq_string(a)}, {core.coq_string(b)})" for a, b in sorted(ct.items())])
        + ".\n"
        + f"Definition M := Eval vm_compute in FF_{ff}.built.\n"
        + rnd_table(ff, rows)
    )


# --------------------------------------------------------------------------
# tables from /repo


def class_table():
    """residue name (<= 3 characters: what columns 18-20 can hold) -> python class __name__."""
    pdb, pio, pmain, biomolecule, aa, na = c07.repo()
    d = c07.definition()
    ct = {}
    for k, ref in d.map.items():
        if len(k) > 3:
            continue
        cname = ref.name if ref.name != k else k
        cls = getattr(aa, cname, None) or getattr(na, cname, None)
        ct[k] = cls.__name__
    hip = d.patches["HIP"]
    if list(hip.remove) or dict(hip.altnames):
        raise RuntimeError("HIP patch removes/renames atoms: set_hip is no longer invisible")
    return ct


def gen_names():
    spec = importlib.util.spec_from_file_location("e2e_names", core.VERIF / "gen" / "e2e_names.py")
    mod = importlib.util.module_from_spec(spec)
    spec.loader.exec_module(mod)
    return mod.generate()


def dat_rows(ff):
    """(resname, atomname) -> (charge text, radius text) straight from the DAT file text."""
    out = {}
    p = core.REPO / "pdb2pqr" / "dat" / f"{ff}.DAT"
    for l in p.read_text().splitlines():
        if l.startswith("#") or not l.strip():
            continue
        f = l.split()
        if len(f) >= 4:
            try:
                float(f[2]), float(f[3])
            except ValueError:
                continue
            out[(f[0], f[1])] = (f[2], f[3])
    return out


# --------------------------------------------------------------------------
# the repo side


def impl_assign(ctx, text, ff, dropw, keep, ws, tag="a"):
    pdb, pio, pmain, *_ = c07.repo()
    d = ctx.scratch_dir()
    inp, outp = d / f"{tag}.pdb", d / f"{tag}.pqr"
    with open(inp, "w", newline="", encoding="utf-8") as fh:
        fh.write(text)
    if outp.exists():
        outp.unlink()
    args = ["--assign-only", f"--ff={ff}"] + (["--drop-water"] if dropw else []) + (["--keep-chain"] if keep else []) + (["--whitespace"] if ws else [])
    try:
        missed, _pka, bm = pmain.run_pdb2pqr(args + [str(inp), str(outp)])
    except Exception as e:  # noqa: BLE001
        return ("EXC", type(e).__name__, str(e)[:200])
    except SystemExit as e:
        return ("EXC", "SystemExit", str(e))
    with open(outp, "rb") as fh:
        data = fh.read().decode("latin-1")
    return ("OK", data, [(a.serial, a.name) for a in (missed or [])], bm, {id(a) for a in (missed or [])})


def model_term(case, tbl):
    t = core.coq_string_bytes(case["text"])
    return (
        f"show_ares (assign_only_run py_float_ok TAB CT PT near_dec (r3_exec {e2e_clean.coq_tbl(tbl)}) "
        f"E2ENames.names E2ENames.unk M RN {coq_bool(case['dropw'])} {coq_bool(case['keep'])} {coq_bool(case['ws'])} (readlines {t}))"
    )


def show_impl(r):
    if r[0] == "EXC":
        return "EXC:" + r[1]
    return "OK:" + ",".join(f"{s}/{n}" for s, n in r[2]) + "|" + r[1]


# --------------------------------------------------------------------------
# inputs: pdb2pqr's own hydrogenated output as input, then perturbed


BASE_SEQS = [
    (["ALA", "ARG", "ASN", "ASP", "CYS"], {}),
    (["GLN", "GLU", "GLY", "HIS", "ILE"], {}),
    (["LEU", "LYS", "MET", "PHE", "PRO"], {}),
    (["SER", "THR", "TRP", "TYR", "VAL"], {}),
    (["PRO", "HIS", "CYS", "ASP", "GLY"], {}),
    (["HIS", "LYS", "GLU", "TYR", "ARG", "PRO"], {}),
]
RENAMES = {"ASP": ["ASH"], "GLU": ["GLH"], "HIS": ["HID", "HIE", "HIP", "HSD", "HSE", "HSP"], "CYS": ["CYM", "CYX"], "LYS": ["LYN"], "TYR": ["TYM"], "ARG": ["AR0"]}


def base_structures(ctx):
    """Hydrogenated structures: the PQR files of full pdb2pqr runs (--keep-chain) on builder
    peptides / strands / waters, used as --assign-only INPUT (columns 1-54 are PDB columns)."""
    if "bases" in c07._STATE:
        return c07._STATE["bases"]
    wd = ctx.scratch_dir() / "bases"
    out = []
    inputs = []
    for i, (seq, var) in enumerate(BASE_SEQS):
        inputs.append((f"pep{i}", builder.to_pdb(builder.build_peptide(seq, chain="A", start=1 + 10 * i))))
    inputs.append(("dna", builder.to_pdb(builder.build_strand(["A", "C", "G", "T"], chain="B"))))
    inputs.append(("rna", builder.to_pdb(builder.build_strand(["A", "C", "G", "U"], chain="C", rna=True))))
    two = builder.build_peptide(["ALA", "SER", "GLY"], chain="A") + builder.build_peptide(["LYS", "ASP"], chain="B", origin=(30.0, 0.0, 0.0))
    inputs.append(("two", builder.to_pdb(two)))
    try:
        wat = builder.build_peptide(["GLY", "ALA"], chain="A") + builder.waters(3, chain="W", origin=(20.0, 20.0, 20.0))
        inputs.append(("wat", builder.to_pdb(wat)))
    except Exception:  # noqa: BLE001 - builder.waters signature differs: waters are added as lines below
        pass
    for name, text in inputs:
        r = builder.run_pdb2pqr(text, ["--ff=AMBER", "--keep-chain"], workdir=wd, input_name=name + ".pdb", output_name=name + ".pqr")
        if r["pqr_text"]:
            lines = [l for l in r["pqr_text"].splitlines() if l[:6].strip() in ("ATOM", "HETATM", "TER")]
            out.append((name, lines))
        else:
            ctx.count("e2e_assign:base-run-failed:" + name)
    c07._STATE["bases"] = out
    return out


def is_h(name):
    return name[:1] == "H" or (name[:1].isdigit() and name[1:2] == "H")


KINDS = ["plain", "plain", "del-h", "rename", "rename", "rename", "unknown-atom", "his", "his", "cys", "cys", "ligand", "ligand", "del-heavy", "oxt", "blank-chain", "nterm-alias"]
NEEDS = {"his": ("HIS",), "cys": ("CYS",), "rename": tuple(RENAMES)}


def perturb(rng, lines, k, kind):
    """One input text from a hydrogenated structure; returns (lines, feats)."""
    feats = set()
    lines = list(lines)
    feats.add("kind:" + kind)
    atoms = [i for i, l in enumerate(lines) if l[:6].strip() in ("ATOM", "HETATM")]
    if kind == "del-h":
        p = rng.choice([0.1, 0.3, 0.6, 1.0])
        lines = [l for i, l in enumerate(lines) if not (i in atoms and is_h(l[12:16].strip()) and rng.random() < p)]
    elif kind == "rename":
        res = sorted({(l[17:20], l[21:27]) for i, l in enumerate(lines) if i in atoms and l[17:20] in RENAMES})
        if res:
            rn, key = rng.choice(res)
            new = rng.choice(RENAMES[rn])
            lines = [l[:17] + new + l[20:] if (l[17:20], l[21:27]) == (rn, key) and l[:6].strip() == "ATOM" else l for l in lines]
            feats.add("rename:" + new)
            if rng.random() < 0.5:
                # drop the titratable hydrogen the state lacks
                drop = {"ASH": (), "GLH": (), "HID": ("HE2",), "HIE": ("HD1",), "CYM": ("HG",), "CYX": ("HG",), "LYN": ("HZ3",), "TYM": ("HH",), "AR0": ("HH12",), "HSD": ("HE2",), "HSE": ("HD1",)}.get(new, ())
                lines = [l for l in lines if not ((l[17:20], l[21:27]) == (new, key) and l[12:16].strip() in drop)]
    elif kind == "unknown-atom":
        i = rng.choice(atoms)
        lines[i] = lines[i][:12] + rng.choice([" XX1", " QQ ", "HXYZ", " C9 "]) + lines[i][16:]
    elif kind == "his":
        drop = rng.choice([("HD1",), ("HE2",), ("HD1", "HE2"), (), "both", "both"])
        if drop == "both":
            # doubly protonated: list the missing one of HD1 / HE2 next to the present one
            out = []
            for l in lines:
                out.append(l)
                if l[17:20] == "HIS" and l[12:16].strip() in ("HD1", "HE2"):
                    other = " HE2" if l[12:16].strip() == "HD1" else " HD1"
                    if not any(x[17:27] == l[17:27] and x[12:16] == other for x in lines):
                        out.append(l[:12] + other + l[16:30] + f"{float(l[30:38]) + 2.0:8.3f}" + l[38:])
            lines = out
            feats.add("his-both")
        else:
            lines = [l for l in lines if not (l[17:20] == "HIS" and l[12:16].strip() in drop)]
            feats.add("his-drop:" + "+".join(drop))
    elif kind == "cys":
        lines = [l for l in lines if not (l[17:20] == "CYS" and l[12:16].strip() == "HG")]
    elif kind == "ligand":
        last = lines[atoms[-1]]
        lig = [f"HETATM{900 + j:>5} {nm:<4} LIG {last[21]}{500:>4}    {10.0 + j:8.3f}{5.0:8.3f}{1.0:8.3f}  1.00  0.00" for j, nm in enumerate([" C1 ", " O1 ", " N1 "])]
        wat = [f"HETATM{950:>5}  O   HOH {last[21]}{600:>4}    {40.0:8.3f}{5.0:8.3f}{1.0:8.3f}", f"HETATM{951:>5}  H1  HOH {last[21]}{600:>4}    {40.9:8.3f}{5.0:8.3f}{1.0:8.3f}", f"HETATM{952:>5}  H2  HOH {last[21]}{600:>4}    {39.7:8.3f}{5.9:8.3f}{1.0:8.3f}"]
        lines = lines + rng.choice([lig, wat, lig + wat])
    elif kind == "del-heavy":
        i = rng.choice(atoms)
        del lines[i]
    elif kind == "oxt":
        # an OXT inside the chain (hidden chain end) or no OXT at the end
        if rng.random() < 0.5:
            lines = [l for l in lines if l[12:16].strip() != "OXT"]
        else:
            ca = [i for i in atoms if lines[i][12:16].strip() == "O"]
            if ca:
                i = rng.choice(ca[:-1] or ca)
                l = lines[i]
                lines.insert(i + 1, l[:12] + " OXT" + l[16:30] + f"{float(l[30:38]) + 0.9:8.3f}" + l[38:])
    elif kind == "blank-chain":
        lines = [l[:21] + " " + l[22:] if l[:6].strip() in ("ATOM", "HETATM") else l for l in lines]
    elif kind == "nterm-alias":
        k0 = lines[atoms[0]][21:27]  # the first residue only: terminal alias names of the NTERM patch
        lines = [l[:12] + {" H  ": " H1 ", " H2 ": "2H  ", " H3 ": "3H  "}.get(l[12:16], l[12:16]) + l[16:] if l[:6].strip() == "ATOM" and l[21:27] == k0 else l for l in lines]
    if rng.random() < 0.5:
        lines = lines + ["END"]
    # keep only the PDB columns 1-54 on some lines (PQR charge/radius sit where occupancy/B do)
    if rng.random() < 0.5:
        lines = [l[:54] if l[:6].strip() in ("ATOM", "HETATM") else l for l in lines]
    return lines, feats


def gen_case(ctx, rng, k):
    bases = base_structures(ctx)
    kind = rng.choice(KINDS)
    need = NEEDS.get(kind)
    pool = [b for b in bases if need is None or any(l[17:20] in need for l in b[1])] or bases
    name, lines = rng.choice(pool)
    if rng.random() < 0.15 and len(bases) > 1:
        n2, l2 = rng.choice(bases)
        if n2 != name and {l[21] for l in l2 if l[:4] == "ATOM"}.isdisjoint({l[21] for l in lines if l[:4] == "ATOM"}):
            lines = lines + l2
            name += "+" + n2
    lines, feats = perturb(rng, lines, k, kind)
    feats.add("base:" + name)
    return {
        "text": "".join(l + "\n" for l in lines), "feats": sorted(feats), "stream": "hydrogenated",
        "ff": rng.choice(FFS), "dropw": rng.random() < 0.15, "keep": rng.random() < 0.6, "ws": rng.random() < 0.2,
    }


def load_corpus():
    out = []
    if CORPUS.is_dir():
        for p in sorted(CORPUS.glob("assign_*.json")):
            c = json.loads(p.read_text())
            c.setdefault("feats", ["corpus:" + p.stem])
            c.setdefault("stream", "corpus")
            for k in ("dropw", "keep", "ws"):
                c.setdefault(k, False)
            out.append(c)
    return out


# --------------------------------------------------------------------------
# ties: '%.4f' of every table value


def tie_q4_eval(ff, header):
    try:
        (res,) = core.run_cases("E2EAq" + ff, header, ["show_map_q4 RN M"], chunk=5)
        return ("OK", res)
    except core.CoqEvalError as e:
        return ("ERR", str(e)[-1200:])


def tie_q4_check(ctx, ff, ev):
    """show_map_q4 (model) vs '%.4f' % float for EVERY entry of the map the real
    Forcefield builds (exhaustive over the closed table; distinct renderings compared)."""
    from pdb2pqr import forcefield

    fobj = forcefield.Forcefield(ff.lower(), c07.definition(), None, None)
    want = set()
    for rname, res in fobj.map.items():
        for aname, at in res.atoms.items():
            want.add(("%.4f" % at.charge, "%.4f" % at.radius))
    ctx.cov["correspondence_cases"] += 1
    if ev[0] != "OK":
        ctx.broke("correspondence-broken", f"show_map_q4 did not evaluate for {ff}", ev[1])
        return False
    res = ev[1]
    got = {tuple(x.split(",")) for x in res.split(";")} if res else set()
    if got != want:
        ctx.cov["correspondence_disagreements"] += 1
        ctx.broke("correspondence-broken", f"q4 ('%.4f' of the exact decimal + tie/negative-zero tables, Model/AssignRun.v) vs '%.4f' % float for the {ff} map",
                  f"only model: {sorted(got - want)[:6]} only python: {sorted(want - got)[:6]}", {"ff": ff})
        return False
    return True


# --------------------------------------------------------------------------
# model-independent oracle


def expected_state(ct, tab, resn, names, first, last, kind_hint=None):
    """Expected force-field residue name from first principles (documentation of the
    naming scheme), independent of the model: N/C prefix by position, HIS by HD1/HE2,
    CYS without HG -> CYX, nucleotides by O2' and 5/3 ends.  None = not predicted."""
    cls = ct.get(resn)
    kind = tab.get(resn, ("KGeneric", {}))[0]
    if kind == "KAmino":
        b = resn
        if cls == "HIS":
            h1, h2 = "HD1" in names, "HE2" in names
            b = "HIP" if h1 and h2 else "HID" if h1 else "HIE" if h2 else None
        elif cls == "CYS":
            b = "CYX" if resn == "CYX" else "CYM" if resn == "CYM" else ("CYX" if "HG" not in names else resn)
        if b is None:
            return None
        return ("N" if first else "C" if last else "") + b
    if kind == "KNucleic":
        base = {"ADE": "A", "CYT": "C", "GUA": "G", "THY": "T", "URA": "U"}[cls]
        sugar = "R" if (base == "U" or ("O2'" in names and base != "T")) else "D"
        return sugar + base + ("5" if first else "") + ("3" if last else "")
    if kind == "KWater":
        return "WAT"
    return resn


def input_residues(case, tab):
    """Residues of the input by the independent column read: [(chain, [(resn, names set, records)])]."""
    sl = e2e_clean.slicer(case["text"])
    if sl is None:
        return None
    kept = sl[0]
    if case["dropw"]:
        kept = [d for d in kept if d["resn"] not in ("HOH", "WAT")]
    chains = {}
    for d in kept:
        rl = chains.setdefault(d["segchain"], [])  # a blank chain id is the chain of its TER segment
        if not rl or rl[-1][0] != (d["seq"], d["ic"]):
            rl.append(((d["seq"], d["ic"]), d["resn"], []))
        rl[-1][2].append(d)
    return chains


def raised_check(ctx, case, real, tab, ct, dat):
    """The run raised.  Independent expectations: a HIS that lists HD1 or HE2 is no TypeError;
    a structure whose residues all resolve DIRECTLY in the DAT text under their expected state
    names to an integer total charge is not refused by the integrality guard."""
    ff = case["ff"]
    base = {"site": "main.main_driver --assign-only", "ff": ff}
    cs = dict(case, mode="assign-search")
    chains = input_residues(case, tab)
    if chains is None:
        return
    if real[1] == "TypeError":
        his = [(k, {d["name"] for d in recs}) for rl in chains.values() for k, rn, recs in rl if ct.get(rn) == "HIS"]
        if his and all(("HD1" in nm or "HE2" in nm) for _, nm in his):
            ctx.fail(dict(base, field="run", condition="TypeError-on-protonated-HIS"), f"{ff}: TypeError although every HIS lists HD1 or HE2: {real[2][:120]}", cs)
        return
    if real[1] != "RuntimeError":
        return
    rows = dat[ff]
    pt = e2e_clean.patch_tables()
    talts = dict(pt["NTERM"][1])
    talts.update(pt["CTERM"][1])
    total, natoms = 0.0, 0
    for ch, rl in chains.items():
        poly = [i for i, (k, rn, recs) in enumerate(rl) if tab.get(rn, ("KGeneric",))[0] in ("KAmino", "KNucleic")]
        for i, (k, rn, recs) in enumerate(rl):
            names = {d["name"] for d in recs}
            first = bool(poly) and i == 0 and poly[0] == 0
            last = bool(poly) and i == poly[-1] and not first
            if any(n in ("OXT", "H3T") for n in names) and not (last or first and len(poly) == 1):
                return  # hidden chain end: positions are not the termini
            exp = expected_state(ct, tab, rn, names, first, last)
            if exp is None:
                return
            alts = tab.get(rn, ("", {}))[1]
            for d in recs:
                n1 = alts.get(d["name"], d["name"])
                n1 = talts.get(n1, n1) if (first or last) else n1
                if (exp, n1) not in rows:
                    return  # not resolvable by direct DAT rows: no expectation
                total += float(rows[(exp, n1)][0])
                natoms += 1
    if natoms and abs(total - round(total)) < 1e-3:
        ctx.fail(dict(base, field="run", condition="refused-although-DAT-total-is-integral"),
                 f"{ff}: {real[1]} ({real[2][:100]}) although the DAT rows of the expected states sum to {total:.4f}", cs)


def search_case(ctx, case, real, tab, ct, dat):
    """Output lines vs the DAT text: every written atom must carry the parameters of
    (expected state name, atom name) as the DAT file lists them; an atom the DAT file
    lists under that name must not be missing."""
    ff, keep, ws = case["ff"], case["keep"], case["ws"]
    if real[0] != "OK":
        ctx.count("search:impl-raised:" + real[1])
        raised_check(ctx, case, real, tab, ct, dat)
        return
    if ws:
        ctx.count("search:skipped(--whitespace layout)")
        return
    out, others = e2e_clean.slice_out(real[1], False)
    bm = real[3]
    rows = dat[ff]
    base = {"site": "main.main_driver --assign-only", "ff": ff}
    cs = {k: v for k, v in case.items()}
    cs["mode"] = "assign-search"
    # PAIRING: by position, never by (chain, resSeq, iCode) - chains may be blank and numbering may
    # restart.  The written lines are, in order, the atoms of biomolecule.residues that are not in
    # the missed list (print_biomolecule_atoms(matched_atoms)); name and coordinates must agree.
    nontrivial = False
    for a in out:
        if a.get("unreadable"):
            ctx.count("search:unreadable-line")
            return
    missed = {(s, n) for s, n in real[2]}
    missed_ids = real[4]
    matched = [(res, at) for res in bm.residues for at in res.atoms if id(at) not in missed_ids]
    r3f = e2e_clean.r3f
    if len(matched) != len(out) or any(
        at.name != o["name"] or (r3f(at.x), r3f(at.y), r3f(at.z)) != (o["x"], o["y"], o["z"]) for (_, at), o in zip(matched, out)
    ):
        ctx.fail(dict(base, field="record", condition="written-lines-are-not-the-assigned-atoms-in-order"),
                 f"{ff}: {len(out)} written lines vs {len(matched)} atoms outside the missed list, or names/coordinates differ in order", cs)
        return
    lines_of = {}
    for (res, at), o in zip(matched, out):
        lines_of.setdefault(id(res), []).append(o)
    # names the INPUT lists per residue (nothing may be deleted in this mode): input records are tied to
    # residue objects by identical coordinates; a record without a partner belongs to the residue of
    # its consecutive run (same chain, resSeq, iCode columns)
    in_names = {}
    sl0 = e2e_clean.slicer(case["text"])
    if sl0 is not None:
        by_xyz = {}
        for res in bm.residues:
            for at in res.atoms:
                by_xyz.setdefault((at.x, at.y, at.z), res)
        run, run_key = [], None
        recs = list(sl0[1]) + [None]
        for d in recs:
            k3 = None if d is None else (d["chain"], d["seq"], d["ic"])
            if k3 != run_key or d is None:
                owner = next((by_xyz[(x["x"], x["y"], x["z"])] for x in run if (x["x"], x["y"], x["z"]) in by_xyz), None)
                if owner is not None:
                    in_names.setdefault(id(owner), set()).update(x["name"] for x in run)
                run, run_key = [], k3
            if d is not None:
                run.append(d)
    for chain in bm.chains:
        rl = list(chain.residues)
        poly = [r for r in rl if tab.get(r.name, ("KGeneric",))[0] in ("KAmino", "KNucleic")]
        for res in rl:
            names = {a.name for a in res.atoms} | in_names.get(id(res), set())
            first = bool(poly) and res is rl[0] and res is poly[0]
            last = bool(poly) and res is poly[-1] and not first
            exp = expected_state(ct, tab, res.name, names, first, last)
            if exp is None:
                continue
            mine = lines_of.get(id(res), [])
            for a in mine:
                key = (exp, a["name"])
                if key not in rows:
                    ctx.count("search:not-a-direct-DAT-row")
                    continue
                nontrivial = True
                ctx.count("search:DAT-row-checked")
                want = ("%.4f" % float(rows[key][0]), "%.4f" % float(rows[key][1]))
                if (a["q"], a["r"]) != want:
                    ctx.fail(dict(base, field="charge/radius", condition="differs-from-DAT-row"),
                             f"{ff}: atom {a['name']} of {res.name} {res.chain_id!r}{res.res_seq} (state {exp}, output serial {a['serial']}) written with {a['q']}/{a['r']}, DAT row says {want[0]}/{want[1]}", cs)
                    return
            wn = {a["name"] for a in mine}
            for at in res.atoms:
                if at.name not in wn and (exp, at.name) in rows:
                    ctx.fail(dict(base, field="record", condition="parameterised-atom-not-written"),
                             f"{ff}: atom {at.name} of {res.name} {res.res_seq} has a DAT row under {exp} but is not in the output", cs)
                    return
    # every coordinate record of the input (independent column read) is written or reported
    # missing - up to the alias tables and the 5TERM removal of set_termini
    sl = e2e_clean.slicer(case["text"])
    if sl is not None:
        kept = sl[0]
        if case["dropw"]:
            kept = [d for d in kept if d["resn"] not in ("HOH", "WAT")]
        wkeys = {(a["x"], a["y"], a["z"], a["name"]) for a in out}
        mserials = {s_ for s_, _ in real[2]}
        talts = {}
        for nme in ("NTERM", "CTERM"):
            talts.update(e2e_clean.patch_tables()[nme][1])
        rm5 = set(e2e_clean.patch_tables()["5TERM"][0])
        seen_canon = {}
        for d in kept:
            alts = tab.get(d["resn"], ("", {}))[1]
            n1 = alts.get(d["name"], d["name"])
            cands = {d["name"], n1, talts.get(n1, n1)}
            # an alias spelling of an atom the residue already lists is the same atom (first listed wins)
            ckey = (d["segchain"], d["seq"], d["ic"], d["resn"], talts.get(n1, n1))
            if ckey in seen_canon and seen_canon[ckey] != d["name"]:
                ctx.count("search:alias-duplicate-of-an-earlier-record(same atom)")
                continue
            seen_canon.setdefault(ckey, d["name"])
            if any((r3f(d["x"]), r3f(d["y"]), r3f(d["z"]), c) in wkeys for c in cands) or d["serial"] in mserials:
                continue
            if d["name"] in rm5 and tab.get(d["resn"], ("",))[0] == "KNucleic":
                ctx.count("design-deviation:5prime-phosphate-removed-by-5TERM-patch")
                continue
            ctx.fail(dict(base, field="record", condition="input-record-neither-written-nor-missing"),
                     f"{ff}: input record {d['name']} {d['resn']} {d['chain']}{d['seq']}{d['ic']} (serial {d['serial']}) is neither in the output nor in the missed list", cs)
            return
    n_in = sum(len(r.atoms) for r in bm.residues)
    if len(out) + len(missed) != n_in:
        ctx.fail(dict(base, field="record", condition="written+missed != atoms"), f"{len(out)} written + {len(missed)} reported missing != {n_in} atoms", cs)
        return
    for a in out:
        pass
    ctx.evaluated(json.dumps([sorted(case["feats"]), ff, len(out), len(missed)]), nontrivial)


# --------------------------------------------------------------------------


def run_extra(ctx):
    c07._quiet()
    try:
        gen_names()
    except Exception as e:  # noqa: BLE001
        ctx.broke("generator-broken", "gen/e2e_names.py (Generated/E2ENames.v from names.json)", str(e))
        return False
    ok = core.proof_stage(ctx, PROP_FILE, THEOREMS_EXTRA, ALLOWED_AXIOMS)
    try:
        tab = c07.deftab()
        pt = e2e_clean.patch_tables()
        ct = class_table()
        dat = {ff: dat_rows(ff) for ff in FFS}
    except Exception as e:  # noqa: BLE001
        ctx.broke("generator-broken", "definition / class / patch / DAT tables from /repo (E2E_Assign)", str(e))
        return False
    headers = {ff: header_for(ff, tab, ct, pt, dat[ff]) for ff in FFS}
    n = 900 if ctx.thorough else 96
    cases = load_corpus()
    cases += [gen_case(ctx, ctx.rng, k) for k in range(n)]
    reals = {}
    nbad = 0
    jobs = {}
    for ff in FFS:
        idx = [i for i, c in enumerate(cases) if c["ff"] == ff]
        terms = []
        for i in idx:
            c = cases[i]
            c["text"] = c07.clean_text(c["text"])
            tbl, unsupported = e2e_clean.coord_table(c["text"])
            terms.append(model_term(c, tbl))
            for f in c["feats"]:
                if f.startswith("kind:"):
                    ctx.count("e2e_assign:" + f)
            ctx.count("e2e_assign:ff:" + ff)
        jobs[ff] = (idx, terms)
    # the six force fields are evaluated concurrently (separate coqc processes)
    from concurrent.futures import ThreadPoolExecutor

    def work(ff):
        out = {"tie": tie_q4_eval(ff, headers[ff]), "res": None, "err": None}
        idx, terms = jobs[ff]
        if terms:
            try:
                out["res"] = core.run_cases("E2EA" + ff, headers[ff], terms, chunk=6)
            except core.CoqEvalError as e:
                out["err"] = str(e)[-1500:]
        return out

    with ThreadPoolExecutor(max_workers=6) as ex:
        results = dict(zip(FFS, ex.map(work, FFS)))
    for ff in FFS:
        ok = tie_q4_check(ctx, ff, results[ff]["tie"]) and ok
        idx, terms = jobs[ff]
        res = results[ff]["res"]
        if results[ff]["err"] is not None:
            ctx.broke("correspondence-broken", f"assign_only_run (Model/AssignRun.v) did not evaluate ({ff})", results[ff]["err"])
            ok = False
            continue
        if not terms:
            continue
        for i, m in zip(idx, res):
            c = cases[i]
            r = impl_assign(ctx, c["text"], ff, c["dropw"], c["keep"], c["ws"])
            reals[i] = r
            ctx.cov["correspondence_cases"] += 1
            ctx.count("e2e_assign:outcome:" + ("file-written" if r[0] == "OK" else "raised:" + r[1]))
            got = show_impl(r)
            if "expect_file" in c and got != c["expect_file"]:
                ctx.cov["correspondence_disagreements"] += 1
                ok = False
                ctx.broke("correspondence-broken", "Coq witness (Proofs/AssignRun.v: " + c.get("what", "") + ") vs main.run_pdb2pqr --assign-only",
                          f"theorem states {c['expect_file'][:600]!r}\n/repo gives {got[:600]!r}", {k: v for k, v in c.items()})
            if got != m:
                ctx.cov["correspondence_disagreements"] += 1
                nbad += 1
                ok = False
                if nbad <= 4:
                    # first differing line
                    gl, ml = got.split("\n"), m.split("\n")
                    d = next((j for j in range(min(len(gl), len(ml))) if gl[j] != ml[j]), min(len(gl), len(ml)))
                    ctx.broke(
                        "correspondence-broken",
                        "assign_only_run (Model/AssignRun.v = C07 ingest ; set_termini ; C02 set_state ; C01 assign ; C08 print) vs main.run_pdb2pqr --assign-only (missed list + written file, byte for byte)",
                        f"ff={ff} dropw={c['dropw']} keep={c['keep']} ws={c['ws']} feats={c['feats']}\nfirst difference at line {d}:\nimpl : {gl[d - 1:d + 2]}\nmodel: {ml[d - 1:d + 2]}\nimpl head: {got[:300]!r}\nmodel head: {m[:300]!r}",
                        {k: v for k, v in c.items()},
                    )
    extra = []
    if not ok:
        extra = [gen_case(ctx, ctx.rng, k) for k in range(150 if not ctx.thorough else 1500)]
    for i, c in enumerate(cases):
        if i in reals:
            search_case(ctx, c, reals[i], tab, ct, dat)
    for c in extra:
        c["text"] = c07.clean_text(c["text"])
        search_case(ctx, c, impl_assign(ctx, c["text"], c["ff"], c["dropw"], c["keep"], c["ws"], tag="x"), tab, ct, dat)
    ctx.trusted += [
        "E2E_Assign: string<->id table Generated/E2ENames.v re-expressed from Generated/names.json (the interner of gen/ff_tables.py); "
        "'%.4f' rendering q4 compared with Python for every entry of the six maps each run; residue-class table (name -> python class) and "
        "patch tables regenerated from /repo; oracles fok / r3 / near as in E2E_Clean; float summation of Residue.charge modelled by exact decimals",
    ]
    ctx.assumptions += [
        "E2E_Assign: no --ligand, --ffout, --userff, --neutraln/--neutralc; built-in force fields only; 7-bit input text",
    ]
    return ok


def replay_extra(ctx, data):
    case = data.get("case") or {}
    if not isinstance(case, dict) or case.get("mode") != "assign-search" or "text" not in case:
        return None
    c07._quiet()
    tab, ct = c07.deftab(), class_table()
    dat = {ff: dat_rows(ff) for ff in FFS}
    r = impl_assign(ctx, case["text"], case["ff"], case.get("dropw", False), case.get("keep", True), case.get("ws", False), tag="r")
    print(f"replay: pdb2pqr --assign-only --ff={case['ff']} -> {show_impl(r)[:500]!r}")
    before = len(ctx.failures)
    search_case(ctx, case, r, tab, ct, dat)
    new = ctx.failures[before:]
    for f in new:
        print("replay: FAILS", f["signature"], f["what"][:300])
    if not new:
        print("replay: passes")
    return 1 if new else 0
