"""C18 - DX -> cube preserves the grid data."""

import io as _io
import math

from harness import core

META = {
    "id": "C18",
    "level": "proof",
    "technique": "Coq proof (induction over the value list) of a hand-written text-level model of read_dx/write_cube + exact-text correspondence with the implementation",
    "level_text": (
        "Theorems over all value lists, tokens-per-line layouts and atom lists: every DX data token is "
        "read in file order, written exactly once in order in lines of 6 (last 1..6), header carries "
        "negated counts/origin/spacings and one line per atom. The model is tied to pdb2pqr.io by exact "
        "equality of the produced cube text on generated DX files (all n mod 6), and an independent "
        "read-back oracle checks the real output numerically."
    ),
    "level_note": (
        "Trusted: Coq kernel+vm_compute; float()/int() and the three format specs are oracles (Section "
        "variables in Coq, Python-filled tables in the executable instance); Python file iteration and "
        "str.split are modelled (ASCII whitespace); the correspondence harness."
    ),
    "design_ref": "DESIGN.md 4 C18",
}

THEOREMS = [
    "C18_chunks_concat",
    "C18_chunks_shaped",
    "C18_read_dx_values",
    "C18_body_tokens",
    "C18_header_fields",
    "C18_dx2cube_values",
    "C18_nonvacuous",
]

HEADER = "From Coq Require Import String List ZArith.\nFrom PV Require Import Lib.Strings Model.DxCube.\nImport ListNotations.\nOpen Scope string_scope.\n"


class A:  # minimal atom for write_cube
    def __init__(self, serial, charge, x, y, z):
        self.serial, self.charge, self.x, self.y, self.z = serial, charge, x, y, z


def gen_case(rng, k, force_n=None):
    """A DX text with uniquely identifiable values plus an atom list."""
    kind = rng.random()
    if force_n is not None:
        n = force_n
        nx, ny, nz = n, 1, 1
    else:
        nx, ny, nz = rng.choice([(1, 1, 1), (2, 1, 1), (1, 2, 3), (2, 2, 2), (3, 3, 3), (1, 1, 7), (2, 3, 2), (1, 5, 1), (4, 3, 3), (3, 2, 1), (1, 1, 13)])
        n = nx * ny * nz
    per = rng.choice([1, 2, 3, 3, 3, 4, 5, 6, 7])
    mags = [1e-300, 1e-30, 1e-5, 1.0, 123.456, 1e5, 1e30, 1e300]
    vals = []
    for i in range(n):
        m = rng.choice(mags)
        v = (rng.random() * 9 + 1) * m * rng.choice([1, -1])
        vals.append(f"{v:.6e}" if rng.random() < 0.8 else repr(v))
    if rng.random() < 0.1:
        vals = [rng.choice(["0", "-0.0", "1", "nan", "inf", "-inf", "1e400"]) if rng.random() < 0.3 else v for v in vals]
    org = [f"{rng.uniform(-1e3, 1e3):.6e}" for _ in range(3)]
    h = [f"{rng.uniform(0.1, 2):.6e}" for _ in range(3)]
    lines = []
    if rng.random() < 0.8:
        lines += ["# Data from pdb2pqr verif", "# comment line with origin delta words", "#"]
    lines.append(f"object 1 class gridpositions counts {nx} {ny} {nz}")
    lines.append(f"origin {org[0]} {org[1]} {org[2]}")
    # the three DX delta VECTORS: axis-aligned (APBS output) or a general sheared / rotated cell,
    # i.e. a non-symmetric 3x3 matrix whose rows must reach the cube's three axis lines unchanged
    z0 = "0.000000e+00"
    dmat = [[h[0], z0, z0], [z0, h[1], z0], [z0, z0, h[2]]]
    if rng.random() < 0.4:
        for i in range(3):
            for j in range(3):
                if i != j and rng.random() < 0.7:
                    dmat[i][j] = f"{rng.uniform(-0.9, 0.9):.6e}"
    for row in dmat:
        lines.append(f"delta {row[0]} {row[1]} {row[2]}")
    lines.append(f"object 2 class gridconnections counts {nx} {ny} {nz}")
    lines.append(f"object 3 class array type double rank 0 items {n} data follows")
    i = 0
    while i < n:
        p = per if rng.random() < 0.8 else rng.randint(1, 7)
        sep = rng.choice([" ", " ", "  ", "\t"])
        lines.append(sep.join(vals[i : i + p]) + rng.choice(["", " ", ""]))
        i += p
    if rng.random() < 0.8:
        lines += ['attribute "dep" string "positions"', 'object "regular positions regular connections" class field', 'component "positions" value 1', 'component "connections" value 2', 'component "data" value 3']
    # malformed stream
    mal = None
    if kind < 0.12:
        mal = rng.choice(["blank", "short_origin", "short_delta", "short_object", "no_origin", "two_deltas", "no_counts", "object_only"])
        if mal == "blank":
            lines.insert(rng.randrange(len(lines) + 1), rng.choice(["", "   "]))
        elif mal == "short_origin":
            lines = [l if not l.startswith("origin") else "origin 1.0 2.0" for l in lines]
        elif mal == "short_delta":
            lines = [l if not l.startswith("delta") else "delta 1.0" for l in lines]
        elif mal == "short_object":
            lines = [l if not l.startswith("object 1") else "object 1 class gridpositions counts 3" for l in lines]
        elif mal == "no_origin":
            lines = [l for l in lines if not l.startswith("origin")]
        elif mal == "two_deltas":
            idx = [j for j, l in enumerate(lines) if l.startswith("delta")][0]
            del lines[idx]
        elif mal == "no_counts":
            lines = [l for l in lines if not l.startswith("object 1")]
        elif mal == "object_only":
            lines.append("object")
    natoms = rng.choice([0, 1, 2, 3, 5])
    atoms = []
    for a in range(natoms):
        atoms.append((rng.choice([a + 1, 9999, 10000, 123456]), f"{rng.uniform(-1, 1):.4f}", f"{rng.uniform(-99, 99):.3f}", f"{rng.uniform(-99, 99):.3f}", f"{rng.uniform(-9999, 9999):.3f}"))
    comment = rng.choice(["CPMD CUBE FILE.", "x", "a b  c"])
    return {"lines": lines, "atoms": atoms, "comment": comment, "n": n, "mal": mal, "vals": vals, "counts": (nx, ny, nz), "org": org, "h": h, "dmat": dmat, "per": per}


def impl_run(case):
    from pdb2pqr import io as pio

    text = "".join(l + "\n" for l in case["lines"])
    try:
        d = pio.read_dx(_io.StringIO(text))
    except Exception as e:
        return "EXC-read", type(e).__name__
    out = _io.StringIO()
    atoms = [A(s, float(q), float(x), float(y), float(z)) for (s, q, x, y, z) in case["atoms"]]
    try:
        pio.write_cube(out, d, atoms, comment=case["comment"])
    except Exception as e:
        return "EXC-write", type(e).__name__
    return "OK:" + out.getvalue(), None


def model_term(case):
    toks = set()
    for l in case["lines"]:
        toks.update(l.split())
    for a in case["atoms"]:
        toks.update(a[1:])

    def okf(t):
        try:
            float(t)
            return True
        except ValueError:
            return False

    ftoks = sorted(t for t in toks if okf(t))
    tabE = core.coq_list([f"({core.coq_string(t)}, {core.coq_string(f'{float(t):< 13.5E}')})" for t in ftoks])
    tabF = core.coq_list([f"({core.coq_string(t)}, {core.coq_string(f'{float(t):>11.6f}')})" for t in ftoks])
    lines = core.coq_list([core.coq_string_bytes(l + "\n") for l in case["lines"]])
    atoms = core.coq_list([f"({core.coq_Z(s)}, {core.coq_string(q)}, {core.coq_string(x)}, {core.coq_string(y)}, {core.coq_string(z)})" for (s, q, x, y, z) in case["atoms"]])
    return f"run_dx2cube {tabE} {tabF} {core.coq_string(case['comment'])} {lines} {atoms}"


def oracle(case, out):
    """Independent read-back of the real cube text. Returns None or a reason."""
    if case["mal"]:
        return None
    if not out.startswith("OK:"):
        return f"well-formed DX raised {out}"
    text = out[3:]
    L = text.split("\n")
    nx, ny, nz = case["counts"]
    try:
        l3 = L[2].split()
        if int(l3[0]) != len(case["atoms"]):
            return "atom count"
        for a, b in zip(l3[1:4], case["org"]):
            if abs(float(a) - float(b)) > 5.1e-7:
                return "origin"
        for i, cnt in enumerate((nx, ny, nz)):
            w = L[3 + i].split()
            if int(w[0]) != -cnt:
                return f"count[{i}] not negated/equal"
            for j in range(3):
                exp = float(case["dmat"][i][j])
                if abs(float(w[1 + j]) - exp) > 5.1e-7:
                    return "spacing" if i == j else "axis-vector-component"
        na = len(case["atoms"])
        for i, (s, q, x, y, z) in enumerate(case["atoms"]):
            w = L[6 + i].split()
            if len(w) != 5 or int(w[0]) != s:
                return "atom line"
            for a, b in zip(w[1:], (q, x, y, z)):
                if abs(float(a) - float(b)) > 5.1e-7:
                    return "atom field"
        body = L[6 + na :]
        toks = " ".join(body).split()
        if len(toks) != nx * ny * nz:
            return f"value count {len(toks)} != {nx*ny*nz}"
        for t, v in zip(toks, case["vals"]):
            fv, ft = float(v), float(t)
            if math.isnan(fv):
                if not math.isnan(ft):
                    return "nan lost"
            elif math.isinf(fv):
                if ft != fv:
                    return "inf lost"
            elif fv == 0:
                if ft != 0:
                    return "zero"
            elif abs(ft - fv) > 5.01e-6 * abs(fv):
                return f"value {v} -> {t}"
        for ln in body[:-1]:
            if len(ln.split()) != 6:
                return "line with != 6 values"
        if body and not (1 <= len(body[-1].split()) <= 6) and nx * ny * nz > 0:
            return "last line size"
    except (IndexError, ValueError) as e:
        return f"unparseable cube: {e}"
    return None


def entry_point_check(ctx):
    """dx_to_cube() itself (argv entry) on a few files, via read_pqr."""
    import sys

    from pdb2pqr import main as pmain

    d = ctx.scratch_dir()
    bad = 0
    for n in (5, 6, 7, 12, 13):
        case = gen_case(ctx.rng, 0, force_n=n)
        while case["mal"] is not None:  # the entry-point check uses well-formed files only (the malformed stream is compared above)
            case = gen_case(ctx.rng, 0, force_n=n)
        case["lines"] = [l for l in case["lines"] if l.strip()]
        (d / "a.dx").write_text("".join(l + "\n" for l in case["lines"]))
        pqr = ""
        atoms = []
        # the PQR side of dx2cube goes through io.read_pqr: ATOM and HETATM records in pdb2pqr's own
        # fixed-column layout, including serials >= 10000 where the record name runs into the serial
        # ("HETATM10001"), REMARK/TER/END lines in between, and the whitespace layout
        specs = [("ATOM", 1), ("ATOM", 2), ("HETATM", 3), ("ATOM", 9999), ("HETATM", 10001), ("HETATM", 99999), ("ATOM", 10002)]
        ctx.rng.shuffle(specs)
        specs = specs[: ctx.rng.randint(3, len(specs))]
        ws = ctx.rng.random() < 0.3
        pqr += "REMARK   1 PQR file generated by the verification harness\n"
        for j, (rec, ser) in enumerate(specs):
            x, y, z, q, r = 1.5 + j, -2.25 - j, 3.0, (-0.5 if j % 2 else 0.25), 1.8
            if ws:
                pqr += f"{rec} {ser} CA ALA A {j+1} {x:.3f} {y:.3f} {z:.3f} {q:.4f} {r:.4f}\n"
            else:
                pqr += f"{rec:<6}{ser:5d}  CA  ALA A{j+1:4d}    {x:8.3f}{y:8.3f}{z:8.3f} {q:7.4f} {r:6.4f}\n"
            if j == 1:
                pqr += "TER\n"
            atoms.append((ser, f"{q:.4f}", f"{x:.3f}", f"{y:.3f}", f"{z:.3f}"))
        pqr += "TER\nEND\n"
        (d / "a.pqr").write_text(pqr)
        old = sys.argv
        sys.argv = ["dx2cube", str(d / "a.dx"), str(d / "a.pqr"), str(d / "a.cube")]
        try:
            pmain.dx_to_cube()
            out = "OK:" + (d / "a.cube").read_text()
        except BaseException as e:  # noqa
            out = f"EXC-{type(e).__name__}"
        finally:
            sys.argv = old
        case["atoms"] = atoms
        why = oracle(case, out)
        ctx.evaluated(("entry", n), True)
        if why:
            bad += 1
            ctx.fail({"site": "main.dx_to_cube", "condition": why.split()[0]}, f"dx_to_cube output wrong: {why}", {"dx": case["lines"], "n": n})
        # the console entry point in a FRESH process, with every value of its one option (--log-level): the
        # option configures logging only, so the cube must be the same bytes and satisfy the same oracle
        levels = [None, "DEBUG", "INFO", "WARNING", "ERROR", "CRITICAL"]
        if not ctx.thorough:
            levels = [None, "DEBUG", ctx.rng.choice(levels[2:])] if n in (5, 12) else [ctx.rng.choice(levels)]
        for lv in levels:
            o2 = entry_process(d, lv)
            ctx.evaluated(("entry-process", n, lv), True)
            ctx.count(f"entry-process:log-level={lv}")
            why2 = oracle(case, o2)
            if why2 or (out.startswith("OK:") and o2 != out):
                bad += 1
                why2 = why2 or "differs-from-the-default-run cube bytes differ from the run without the option"
                ctx.fail({"site": "main.dx_to_cube", "condition": why2.split()[0], "option": "log-level"}, f"dx2cube --log-level {lv} (fresh process) output wrong: {why2}", {"entry_case": {k: case[k] for k in ("lines", "mal", "vals", "counts", "org", "dmat", "n")}, "pqr": pqr, "atoms": [list(a) for a in atoms], "log_level": lv})
    return bad


def entry_process(d, level):
    """dx2cube as a console script would run it: fresh interpreter, argv, working directory = scratch"""
    import subprocess
    import sys

    cube = d / "p.cube"
    if cube.exists():
        cube.unlink()
    argv = ["dx2cube"] + ([f"--log-level={level}"] if level else []) + ["a.dx", "a.pqr", "p.cube"]
    code = f"import sys; sys.path.insert(0, {str(core.REPO)!r}); sys.argv = {argv!r}; import pdb2pqr.main as m; m.dx_to_cube()"
    p = subprocess.run([sys.executable, "-c", code], cwd=str(d), capture_output=True, text=True, timeout=300, env={**__import__("os").environ, "PYTHONPATH": str(core.REPO), "PYTHONHASHSEED": "0"})
    if p.returncode != 0 or not cube.exists():
        last = (p.stderr.strip().splitlines() or ["?"])[-1]
        return f"EXC-{last.split(':')[0][:40]}"
    return "OK:" + cube.read_text()


def run(ctx):
    ctx.cov["rule"] = (
        "generated DX texts (grid shapes incl. every n mod 6, 1..7 tokens per line, magnitudes 1e-300..1e300, "
        "nan/inf, comment/attribute lines, malformed stream 12%) x atom lists; non-trivial = well-formed with "
        ">= 1 value; distinct by (n mod 6, n<=6, tokens-per-line, #atoms)"
    )
    ok = core.proof_stage(ctx, "C18", THEOREMS, [])
    ncases = 3000 if ctx.thorough else 300
    cases = [gen_case(ctx.rng, k, force_n=(k if k < 20 else None)) for k in range(ncases)]
    impl = [impl_run(c) for c in cases]
    # correspondence
    corr_broken = False
    try:
        res = core.run_cases("C18", HEADER, [model_term(c) for c in cases], chunk=150)
    except core.CoqEvalError as e:
        res = None
        corr_broken = True
        ctx.broke("correspondence-broken", "model evaluation failed", str(e))
    if res is not None:
        for c, (iout, exc), mout in zip(cases, impl, res):
            ctx.cov["correspondence_cases"] += 1
            if iout != mout:
                ctx.cov["correspondence_disagreements"] += 1
                corr_broken = True
                if len([b for b in ctx.broken if b["kind"] == "correspondence-broken"]) < 3:
                    ctx.broke("correspondence-broken", "Model.DxCube.run_dx2cube vs io.read_dx/write_cube", f"impl={iout[:300]!r} model={mout[:300]!r}", {"lines": c["lines"], "atoms": c["atoms"]})
    # search on the implementation with the independent oracle
    extra = []
    if not ok or corr_broken:
        extra = [gen_case(ctx.rng, k, force_n=(k % 40)) for k in range(3000)]
    for c, (iout, exc) in list(zip(cases, impl)) + [(c, impl_run(c)) for c in extra]:
        ctx.count("malformed:" + str(c["mal"]) if c["mal"] else f"nmod6={c['n'] % 6}")
        nontrivial = c["mal"] is None and c["n"] >= 1
        ctx.evaluated((c["n"] % 6, c["n"] <= 6, c["per"], len(c["atoms"])), nontrivial)
        why = oracle(c, iout)
        if why:
            ctx.fail({"site": "io.write_cube/read_dx", "condition": why.split()[0]}, f"cube does not preserve DX: {why}", {"lines": c["lines"], "atoms": c["atoms"], "comment": c["comment"], "counts": c["counts"], "vals": c["vals"], "org": c["org"], "h": c["h"], "dmat": c["dmat"], "mal": None, "n": c["n"], "per": c["per"], "observed": iout[:2000]})
    entry_point_check(ctx)
    c0 = cases[7]
    ctx.sample({"dx_lines": c0["lines"][:14], "atoms": c0["atoms"], "impl_output_head": impl[7][0][:300]})
    ctx.sample({"obligation": "C18_body_tokens: tokens(concat(cube_body d)) = map core (dx_values d), for all d"})
    ctx.trusted += [
        "oracles: float(), int(), format specs '< 13.5E', '>11.6f', '>4' (tables filled by Python in the executable instance)",
        "modelled, not verified: io.read_dx, io.write_cube (hand model Model/DxCube.v, tied by exact text equality on generated cases)",
    ]
    ctx.assumptions += ["DX lines contain ASCII only; str.split whitespace = ASCII whitespace"]


def replay(ctx, data):
    case = data["case"]
    if "entry_case" in case:  # console entry point in a fresh process
        d = ctx.scratch_dir()
        c = dict(case["entry_case"])
        c["atoms"] = [tuple(a) for a in case["atoms"]]
        (d / "a.dx").write_text("".join(l + "\n" for l in c["lines"]))
        (d / "a.pqr").write_text(case["pqr"])
        base = entry_process(d, None)
        out = entry_process(d, case["log_level"])
        why = oracle(c, out) or oracle(c, base) or ("differs from the run without the option" if out != base else None)
        print("replay: dx2cube --log-level", case["log_level"], "->", "FAILS: " + why if why else "passes")
        ctx.cleanup()
        return 1 if why else 0
    out, _ = impl_run(case)
    why = oracle(case, out) if "counts" in case else None
    print("replay:", "FAILS: " + why if why else "passes", "| output head:", out[:200].replace("\n", "\\n"))
    return 1 if why else 0
