"""C10 - mmCIF and PDB encodings of one structure give the same result.

Stages (AGENT_GUIDE protocol):
 1. proof stage  : Properties/C10.v (theorems about Model/CifLine.v = cif.atom_site after fix_C10_P1..P4).
 2. correspondence: the text line cif.atom_site assembles (captured by wrapping pdb.ATOM / pdb.HETATM /
    pdb.MODEL / pdb.ENDMDL while the real cif.atom_site runs on a block parsed by the real mmcif_pdbx)
    must equal the model's line EXACTLY, and the parsed fields / exception must equal the model's, on
    generated _atom_site rows and on the offline files tests/data/*.cif; both for the installed
    missing-value convention ('.' -> "", '?' -> None) and for the verbatim convention ('.', '?') the code
    was written against (emulated on the parsed block).  The model's PDB-side spec (pdb_line_of_row +
    parse_atom) is tied to an independent Python PDB writer + the real pdb.ATOM/HETATM.
 3. search (model independent): one row written as mmCIF and as a PDB v3.3 line, read by the real readers,
    fields compared; builder structures written both ways by harness.builder through io.get_molecule and
    through the whole pipeline (PQR q, r compared).
"""

from __future__ import annotations

import io as _io
import json
import logging
import time
from pathlib import Path

from harness import core

META = {
    "id": "C10",
    "level": "proof",
    "technique": (
        "Coq proof about a hand-written string-level model of cif.atom_site (line assembly as coded) and of "
        "pdb.ATOM/HETATM parsing, parameterised by the mmCIF library's missing-value convention; exact-text "
        "correspondence of the assembled line with the implementation; model-independent CIF-vs-PDB search"
    ),
    "level_text": (
        "Model = cif.atom_site AFTER the repairs fix_C10_P1..P6. Proved at FULL strength for the readers: for EVERY "
        "_atom_site row expressible as one PDB ATOM/HETATM record and every library convention that hands '.'/'?' over as "
        "one of '', '.', '?', None (the installed mmcif_pdbx 2.1.0 and verbatim readers) the line cif.atom_site assembles "
        "IS the PDB v3.3 record of the row, character for character (C10_cif_line_is_pdb_record), hence both readers "
        "return the same atom in all 16 fields - alternate location, insertion code, four-character names, formal charge "
        "included (C10_cif_eq_pdb, C10_cif_eq_pdb_agrees) - and whole atom_site loops with one model or several models "
        "give one record per row in file order (C10_atom_site_single, C10_atom_site_models); the convention hypothesis "
        "cannot be dropped (C10_mv_ok_needed). cif.read_cif (after fix_c10_r4: the 13 non-coordinate category handlers run "
        "through _optional_records) returns exactly atom_site's coordinate records whatever those handlers do, return or "
        "raise a caught exception (C10_read_cif_guarded_atoms), and atom_site stays strict (C10_read_cif_guarded_strict); "
        "without the helper one raising handler aborts the route (C10_read_cif_handler_raises). The handlers are opaque in "
        "the model; the harness checks on every generated file that the real read_cif returns and keeps atom_site's records. "
        "No refuted class is left for the readers of atom_site. NOT proved here: charges and radii (the pipeline "
        "after the readers) - explored by running the real pipeline on both encodings and composed with the ingest/print "
        "models in E2E_CifClean; other versions of mmcif_pdbx are covered only through the convention parameter (one "
        "emulated); values that are literally '.' or '?' (indistinguishable from missing markers) are outside the domain."
    ),
    "level_note": (
        "Trusted: Coq kernel+vm_compute; mmcif_pdbx tokenisation (rows are taken from its parse), float() "
        "(coordinates stay text in the model; the harness applies Python float() to the model's text), "
        "int() modelled for ASCII sign+digits; str.strip modelled for ASCII whitespace; the hand model "
        "Model/CifLine.v is tied to the code only by the differential runs of this check."
    ),
    "design_ref": "DESIGN.md 4 C10, 5 F8",
}

THEOREMS = [
    "C10_spec_roundtrip",
    "C10_cif_line_is_pdb_record",
    "C10_cif_eq_pdb",
    "C10_cif_eq_pdb_agrees",
    "C10_cif_eq_pdb_both_conventions",
    "C10_mv_ok_needed",
    "C10_atom_site_single",
    "C10_atom_site_models",
    "C10_read_cif_atoms",
    "C10_read_cif_handler_raises",
    "C10_read_cif_guarded_atoms",
    "C10_read_cif_guarded_strict",
    "C10_read_cif_blocks_one_site",
    "C10_file_layer_cif_any_text",
    "C10_file_layer_legal_opening",
    "C10_file_layer_other_suffix",
    "C10_file_layer_nonvacuous",
    "C10_guard_nonvacuous",
]

HEADER = (
    "From Coq Require Import String List ZArith.\n"
    "From PV Require Import Lib.Strings Lib.Decimal Model.CifLine.\n"
    "Import ListNotations.\nOpen Scope string_scope.\n"
)

# order of the model's record constructor mkrow
MROW = (
    "group_PDB", "id", "type_symbol", "label_atom_id", "label_alt_id", "label_comp_id", "label_asym_id",
    "pdbx_PDB_ins_code", "Cartn_x", "Cartn_y", "Cartn_z", "occupancy", "B_iso_or_equiv", "pdbx_formal_charge",
    "auth_seq_id", "auth_comp_id", "auth_asym_id", "auth_atom_id", "pdbx_PDB_model_num",
)
# order of the columns in the CIF text the harness writes (as in PDB-archive files)
ITEMS = (
    "group_PDB", "id", "type_symbol", "label_atom_id", "label_alt_id", "label_comp_id", "label_asym_id",
    "label_entity_id", "label_seq_id", "pdbx_PDB_ins_code", "Cartn_x", "Cartn_y", "Cartn_z", "occupancy",
    "B_iso_or_equiv", "pdbx_formal_charge", "auth_seq_id", "auth_comp_id", "auth_asym_id", "auth_atom_id",
    "pdbx_PDB_model_num",
)
CONVS = ("installed", "verbatim")
MV = {"installed": "mv_installed", "verbatim": "mv_legacy"}
PRIMARY = ("kind", "serial", "name", "alt_loc", "res_name", "chain_id", "res_seq", "ins_code", "x", "y", "z")
SITE = "cif.atom_site"


# ---------------------------------------------------------------------------
# rows <-> CIF text <-> Coq terms


def mkrow(g, id_, ts, nm, alt, comp, asym, ins, x, y, z, occ, b, chg, seq, acomp, aasym, anm, model="1"):
    return {
        "group_PDB": g, "id": id_, "type_symbol": ts, "label_atom_id": nm, "label_alt_id": alt,
        "label_comp_id": comp, "label_asym_id": asym, "label_entity_id": "1", "label_seq_id": seq,
        "pdbx_PDB_ins_code": ins, "Cartn_x": x, "Cartn_y": y, "Cartn_z": z, "occupancy": occ,
        "B_iso_or_equiv": b, "pdbx_formal_charge": chg, "auth_seq_id": seq, "auth_comp_id": acomp,
        "auth_asym_id": aasym, "auth_atom_id": anm, "pdbx_PDB_model_num": model,
    }


# the witnesses of the Coq refutation theorems (Model/CifLine.v w_*), same values
WITNESSES = {
    "w_plain": mkrow("ATOM", "7", "C", "CA", ".", "LYS", "A", "?", "-10.123", "16.581", "2.104", "1.00", "20.55", "?", "12", "LYS", "A", "CA"),
    "w_alt": mkrow("ATOM", "7", "C", "CA", "A", "LYS", "A", "?", "-10.123", "16.581", "2.104", "0.50", "20.55", "?", "12", "LYS", "A", "CA"),
    "w_name4": mkrow("ATOM", "7", "H", "HD21", ".", "ASN", "A", "?", "-10.123", "16.581", "2.104", "1.00", "20.55", "?", "12", "ASN", "A", "HD21"),
    "w_ins": mkrow("ATOM", "7", "C", "CA", ".", "LYS", "A", "B", "-10.123", "16.581", "2.104", "1.00", "20.55", "?", "12", "LYS", "A", "CA"),
    "w_wide": mkrow("ATOM", "7", "C", "CA", ".", "LYS", "A", "?", "-100.123", "16.581", "2.104", "1.00", "20.55", "?", "12", "LYS", "A", "CA"),
    "w_occ": mkrow("ATOM", "7", "C", "CA", ".", "LYS", "A", "?", "-10.123", "16.581", "2.104", "1.0000", "20.55", "?", "12", "LYS", "A", "CA"),
    "w_label": mkrow("HETATM", "478", "O", "O", ".", "HOH", "B", "?", "31.221", "16.581", "2.104", "1.00", "20.55", "?", "62", "HOH", "A", "O"),
    "w_charge": mkrow("ATOM", "7", "N", "NZ", ".", "LYS", "A", "?", "-10.123", "16.581", "2.104", "1.00", "20.55", "1", "12", "LYS", "A", "NZ"),
    "w_comp": mkrow("HETATM", "478", "O", "O", ".", "WAT", "A", "?", "31.221", "16.581", "2.104", "1.00", "20.55", "?", "62", "HOH", "A", "O"),
    "w_atomname": mkrow("ATOM", "7", "C", "CA", ".", "LYS", "A", "?", "-10.123", "16.581", "2.104", "1.00", "20.55", "?", "12", "LYS", "A", "CA1"),
}
# all of them were refutation witnesses before fix_C10_P1..P6: regression cases that must agree
WITNESSES["w_noauth_values"] = mkrow("ATOM", "7", "C", "CA", ".", "LYS", "A", "?", "-10.123", "16.581", "2.104", "1.00", "20.55", "-2", "12", "?", "A", ".")
ALLOWED_ABSENT = ("auth_atom_id", "auth_comp_id", "label_asym_id")  # optional / never read


def cif_quote(s: str) -> str:
    if s in (".", "?"):
        return s
    if "'" in s:
        return '"' + s + '"'
    if '"' in s or s[:1] in "_#$[];" or s.lower().startswith(("data_", "loop_", "save_", "global_", "stop_")):
        return "'" + s + "'"
    return s


def cif_loop_text(rows, absent=()):
    cols = [k for k in ITEMS if k not in absent]
    out = ["data_TEST", "#", "loop_"] + ["_atom_site." + k for k in cols]
    for r in rows:
        out.append(" ".join(cif_quote(r[k]) for k in cols))
    out.append("#")
    return "\n".join(out) + "\n"


def coq_item(tok):
    if tok is None:
        return "Absent"
    if tok == ".":
        return "Dot"
    if tok == "?":
        return "Qm"
    return f"(Tok {core.coq_string(tok)})"


def coq_row(r, absent=()):
    return "(mkrow " + " ".join(coq_item(None if k in absent else r[k]) for k in MROW) + ")"


def rows_from_block(block):
    """rows (raw-token dicts) from a category parsed by the installed mmcif_pdbx:
    None came from '?', '' from '.', anything else is the token."""
    a = block.get_object("atom_site")
    names = list(a.attribute_list)
    rows = []
    for vals in a._row_list:
        d = {}
        for k, v in zip(names, vals):
            d[k] = "?" if v is None else ("." if v == "" else v)
        rows.append(d)
    absent = tuple(k for k in ITEMS if k not in names)
    return rows, absent


def load_block(text: str, conv: str):
    import pdbx

    blocks = pdbx.load(_io.StringIO(text))
    if conv == "verbatim":
        verbatimize(blocks)
    return blocks[0]


def verbatimize(blocks):
    """Emulate a reader that stores the tokens '.' and '?' verbatim (the convention
    cif.py's == "." / == "?" tests were written for)."""
    for b in blocks:
        for name in b.get_object_name_list():
            c = b.get_object(name)
            for row in c._row_list:
                for j, v in enumerate(row):
                    if v is None:
                        row[j] = "?"
                    elif v == "":
                        row[j] = "."
    return blocks


# ---------------------------------------------------------------------------
# running the real cif.atom_site with the assembled lines captured


def rec_tuple(o):
    kind = type(o).__name__
    return (
        kind, o.serial, o.name, o.alt_loc, o.res_name, o.chain_id, o.res_seq, o.ins_code,
        repr(float(o.x)), repr(float(o.y)), repr(float(o.z)),
        repr(float(o.occupancy)), repr(float(o.temp_factor)), o.seg_id, o.element, o.charge,
    )


def impl_atom_site(block):
    """-> {"recs": [...], "errs": [...], "exn": name|'-'}; recs entries
    ('A', line, 16 fields) / ('M', line, n) / ('E',)"""
    from pdb2pqr import cif, pdb

    cap = []
    orig = {n: getattr(pdb, n) for n in ("ATOM", "HETATM", "MODEL", "ENDMDL")}

    def wrap(name):
        cls = orig[name]

        def make(line):
            try:
                o = cls(line)
            except BaseException as e:
                cap.append((name, line, None, type(e).__name__))
                raise
            cap.append((name, line, o, None))
            return o

        return make

    for n in orig:
        setattr(pdb, n, wrap(n))
    exn, errs = "-", []
    try:
        try:
            _recs, errs = cif.atom_site(block)
        except Exception as e:  # noqa: BLE001
            exn = type(e).__name__
    finally:
        for n, c in orig.items():
            setattr(pdb, n, c)
    recs = []
    for name, line, o, e in cap:
        if o is None:
            continue  # the failed constructor: MODEL failures are caught inside, ATOM ones end the call
        if name in ("ATOM", "HETATM"):
            recs.append(("A", line) + rec_tuple(o))
        elif name == "MODEL":
            recs.append(("M", line, str(o.serial)))
        else:
            recs.append(("E",))
    return {"recs": recs, "errs": [str(x) for x in errs], "exn": exn, "cap": cap}


def pyfloat_fields(line, f):
    """apply the float oracle to the model's text fields -> 16-tuple or the exception name"""
    kind, serial, name, alt, resn, chain, resseq, ins, x, y, z, occ, tf, seg, elem, chg = f
    try:
        fx, fy, fz = float(x), float(y), float(z)
    except ValueError:
        return "ValueError"
    try:
        focc, ftf = float(occ), float(tf)
        tail = (repr(focc), repr(ftf), seg, elem, chg)
    except ValueError:
        tail = ("0.0", "0.0", "", "", "")
    return (kind, int(serial), name, alt, resn, chain, int(resseq), ins, repr(fx), repr(fy), repr(fz)) + tail


def parse_model_outcome(s: str):
    """show_outcome text -> same shape as impl_atom_site (float oracle applied in order)"""
    lines = s.split("\n")
    assert lines[-1].startswith("EXN:") and lines[-2].startswith("ERRS:"), s[-200:]
    exn = lines[-1][4:]
    errs = [e for e in lines[-2][5:].split(",") if e]
    recs = []
    for ln in lines[:-2]:
        if ln == "E":
            recs.append(("E",))
        elif ln.startswith("M|"):
            _, l, n = ln.split("|")
            recs.append(("M", l, n))
        else:
            p = ln.split("|")
            assert p[0] == "A" and len(p) == 18, ln
            t = pyfloat_fields(p[1], p[2:])
            if t == "ValueError":
                return {"recs": recs, "errs": [], "exn": "ValueError"}
            recs.append(("A", p[1]) + t)
    return {"recs": recs, "errs": errs, "exn": exn}


def outcomes_equal(a, b):
    if a["exn"] != b["exn"] or a["recs"] != b["recs"]:
        return False
    return a["exn"] != "-" or a["errs"] == b["errs"]


# ---------------------------------------------------------------------------
# independent PDB v3.3 writer (wwPDB format guide, ATOM/HETATM) and reader run


def tokv(t):
    return "" if t in (".", "?", None) else t


def pdb_charge_cols(t):
    t = tokv(t)
    try:
        z = int(t)
    except ValueError:
        return "  "
    if z == 0 or abs(z) > 9:
        return "  "
    return f"{abs(z)}{'+' if z > 0 else '-'}"


def eff(r, name):
    """the author's value when the row gives one, else the label value (PDB files carry the author's names)"""
    a = r.get("auth_" + name)
    return a if a not in (".", "?", None) else r.get("label_" + name)


def without(r, absent):
    return {k: (None if k in absent else v) for k, v in r.items()} if absent else r


def pdb_line(r):
    """The line a PDB-archive style writer emits for the row (auth_* identifiers)."""
    name, el = tokv(eff(r, "atom_id")), tokv(r["type_symbol"])
    nf = (" " + f"{name:<3s}") if (len(name) < 4 and len(el) < 2) else f"{name:<4s}"
    return (
        f"{tokv(r['group_PDB']):<6s}{tokv(r['id']):>5s} {nf}{tokv(r['label_alt_id']):<1s}"
        f"{tokv(eff(r, 'comp_id')):>3s} {tokv(r['auth_asym_id']):<1s}{tokv(r['auth_seq_id']):>4s}"
        f"{tokv(r['pdbx_PDB_ins_code']):<1s}   "
        f"{tokv(r['Cartn_x']):>8s}{tokv(r['Cartn_y']):>8s}{tokv(r['Cartn_z']):>8s}"
        f"{tokv(r['occupancy']):>6s}{tokv(r['B_iso_or_equiv']):>6s}          {el:>2s}{pdb_charge_cols(r['pdbx_formal_charge'])}"
    )


def impl_parse_pdb_line(kind, line):
    from pdb2pqr import pdb

    cls = pdb.ATOM if kind == "ATOM" else pdb.HETATM
    try:
        return rec_tuple(cls(line))
    except Exception as e:  # noqa: BLE001
        return type(e).__name__


def is_ascii_int(s):
    b = s[1:] if s[:1] in "+-" else s
    return b.isascii() and b.isdigit()


def okv(s, lo, hi):
    return lo <= len(s) <= hi and not any(c.isspace() for c in s)


def expressible(r, absent=()):
    """The row denotes one PDB ATOM/HETATM record (independent restatement of the domain)."""
    if any(k not in ALLOWED_ABSENT for k in absent):
        return False
    r = without(r, absent)
    m = lambda t: t in (".", "?", None)  # noqa: E731
    t = lambda k: r[k]  # noqa: E731
    nm, comp = eff(r, "atom_id"), eff(r, "comp_id")
    return (
        t("group_PDB") in ("ATOM", "HETATM")
        and not m(t("id")) and okv(t("id"), 1, 5) and is_ascii_int(t("id"))
        and not m(nm) and okv(nm, 1, 4)
        and (m(t("label_alt_id")) or okv(t("label_alt_id"), 1, 1))
        and not m(comp) and okv(comp, 1, 3)
        and not m(t("auth_asym_id")) and okv(t("auth_asym_id"), 1, 1)
        and not m(t("auth_seq_id")) and okv(t("auth_seq_id"), 1, 4) and is_ascii_int(t("auth_seq_id"))
        and (m(t("pdbx_PDB_ins_code")) or okv(t("pdbx_PDB_ins_code"), 1, 1))
        and all(not m(t(k)) and okv(t(k), 1, 8) for k in ("Cartn_x", "Cartn_y", "Cartn_z"))
        and all(not m(t(k)) and okv(t(k), 1, 6) for k in ("occupancy", "B_iso_or_equiv"))
        and not m(t("type_symbol")) and okv(t("type_symbol"), 1, 2)
        and (m(t("pdbx_formal_charge")) or okv(t("pdbx_formal_charge"), 1, 99))
    )


def conditions(r, lib_alt=None):
    """Known defect classes of cif.atom_site the row falls in: none is left after fix_C10_P1..P6."""
    return []


def as_coded_line(r, lib_alt, lib_chg):
    """DIAGNOSIS ONLY: with no known defect left the assembled line must be the PDB record itself."""
    return pdb_line(r)


def lib_of(tok, conv):
    """what the library hands over for a written token (installed 2.1.0 / verbatim emulation)"""
    if tok == ".":
        return "" if conv == "installed" else "."
    if tok == "?":
        return None if conv == "installed" else "?"
    return tok


def lib_value(block, item, i):
    try:
        return block.get_object("atom_site").get_value(item, i)
    except Exception:  # noqa: BLE001
        return "<absent>"


def diagnose(r, lib_alt, lib_chg, cif_res, pdb_res, cif_line):
    """-> (signature, text).  cif_res / pdb_res: 16-tuples or exception names."""
    conds = conditions(r, lib_alt)
    if isinstance(cif_res, str):
        fields = f"raises:{cif_res}"
    elif isinstance(pdb_res, str):
        fields = f"pdb-raises:{pdb_res}"
    else:
        names = PRIMARY + ("occupancy", "temp_factor", "seg_id", "element", "formal_charge")
        fields = ",".join(n for n, a, b in zip(names, cif_res, pdb_res) if a != b)
    explained = "as-coded" if (cif_line is not None and cif_line == as_coded_line(r, lib_alt, lib_chg)) else "no"
    sig = {"site": SITE, "condition": "+".join(conds) or "none", "explained": explained, "fields": fields}
    return sig, f"mmCIF row and its PDB record are read differently ({sig['condition']}; differing: {fields})"


def numeric(r):
    try:
        for k in ("Cartn_x", "Cartn_y", "Cartn_z"):
            float(r[k])
    except (ValueError, TypeError):
        return False
    return True


COORD_SLICES = ((30, 38), (38, 46), (46, 54))


def row_oracle(r, conv, absent=()):
    """Model-independent check of one expressible row with numeric coordinates: the row as a one-row
    mmCIF loop through the real mmcif_pdbx + cif.atom_site, and as a PDB v3.3 line through the real
    pdb.ATOM / pdb.HETATM.  -> dict(agree, text_agree, sig, what, detail)"""
    blk = load_block(cif_loop_text([r], absent), conv)
    lib_alt, lib_chg = lib_value(blk, "label_alt_id", 0), lib_value(blk, "pdbx_formal_charge", 0)
    out = impl_atom_site(blk)
    kind = r["group_PDB"]
    r = without(r, absent)
    pline = pdb_line(r)
    pres = impl_parse_pdb_line(kind, pline)
    cap = [c for c in out["cap"] if c[0] in ("ATOM", "HETATM")]
    cline = cap[0][1] if cap else None
    arecs = [x for x in out["recs"] if x[0] == "A"]
    if out["exn"] != "-":
        cres = out["exn"]
    elif len(arecs) != 1:
        cres = "NoRecord"
    else:
        cres = arecs[0][2:]
    both = (not isinstance(cres, str)) and (not isinstance(pres, str))
    prim = both and cres[:11] == pres[:11]
    agree = prim and tuple(cres) == tuple(pres)  # all 16 fields, formal charge included
    text_agree = prim and all(cline[a:b].strip() == pline[a:b].strip() for a, b in COORD_SLICES)
    detail = {"cif_line": cline, "pdb_line": pline, "cif_fields": list(cres) if both or not isinstance(cres, str) else cres,
              "pdb_fields": list(pres) if not isinstance(pres, str) else pres}
    if agree:
        return {"agree": True, "primary_agree": True, "text_agree": text_agree, "sig": None, "what": "", "detail": detail}
    sig, what = diagnose(r, lib_alt, lib_chg, cres, pres, cline)
    return {"agree": False, "primary_agree": prim, "text_agree": text_agree, "sig": sig, "what": what, "detail": detail}


def multi_oracle(rows, conv):
    """Several models (model independent): the loop through the real cif.atom_site against the PDB text
    'MODEL n / records of that model in file order / ENDMDL' (models in order of first appearance)
    through the real pdb.read_pdb.  -> None | (sig, what, detail)"""
    from pdb2pqr import pdb

    blk = load_block(cif_loop_text(rows), conv)
    out = impl_atom_site(blk)
    order = []
    for r in rows:
        if r["pdbx_PDB_model_num"] not in order:
            order.append(r["pdbx_PDB_model_num"])
    lines, exp_rows = [], []
    for m in order:
        lines.append(f"MODEL     {m:>4s}")
        for r in rows:
            if r["pdbx_PDB_model_num"] == m:
                lines.append(pdb_line(r))
                exp_rows.append(r)
        lines.append("ENDMDL")
    try:
        plist, perr = pdb.read_pdb(_io.StringIO("\n".join(lines) + "\n"))
    except Exception as e:  # noqa: BLE001
        return {"site": "pdb.read_pdb", "condition": f"raises:{type(e).__name__}", "explained": "no", "fields": ""}, "PDB rendering not readable", {"pdb_text": lines}
    shape_p = [type(x).__name__ if not isinstance(x, pdb.MODEL) else f"MODEL {x.serial}" for x in plist]
    shape_c = [("ATOM/HETATM" if x[0] == "A" else f"MODEL {x[2]}" if x[0] == "M" else "ENDMDL") for x in out["recs"]]
    shape_p = ["ATOM/HETATM" if x in ("ATOM", "HETATM") else x for x in shape_p]
    detail = {"pdb_text": lines, "cif_records": shape_c, "pdb_records": shape_p, "cif_exn": out["exn"]}
    atoms_p = [x for x in plist if isinstance(x, (pdb.ATOM, pdb.HETATM))]
    atoms_c = [x for x in out["recs"] if x[0] == "A"]
    if out["exn"] == "-" and shape_c != shape_p:
        return {"site": SITE, "condition": "several-models", "explained": "no", "fields": "record-sequence"}, "MODEL/ENDMDL blocks from mmCIF differ from the PDB file's", detail
    for k, r in enumerate(exp_rows):
        lib_alt, lib_chg = lib_of(r["label_alt_id"], conv), lib_of(r["pdbx_formal_charge"], conv)
        pt = rec_tuple(atoms_p[k]) if k < len(atoms_p) else "Missing"
        if k < len(atoms_c):
            ct, cl = atoms_c[k][2:], atoms_c[k][1]
        else:
            caps = [c for c in out["cap"] if c[0] in ("ATOM", "HETATM")]
            ct, cl = out["exn"], (caps[k][1] if k < len(caps) else None)
        if isinstance(ct, str) or isinstance(pt, str) or tuple(ct) != tuple(pt):
            sig, what = diagnose(r, lib_alt, lib_chg, ct, pt, cl)
            detail.update(row=r, cif_line=cl)
            return sig, what, detail
    return None


# ---------------------------------------------------------------------------
# generators

NAMES = {
    1: ["N", "C", "O", "H", "P", "S"],
    2: ["CA", "CB", "CG", "OG", "SG", "HA", "N9", "FE", "ZN", "H1", "O2"],
    3: ["CD1", "OXT", "OG1", "NE2", "OP1", "O5'", "C1'", "HB2", "HG1", "1HB"],
    4: ["HD21", "HH11", "HG23", "HO5'", "H5''", "1HD2", "HE22"],
}
COMPS = ["ALA", "LYS", "ASN", "THR", "HOH", "GLY", "HIS", "DA", "DT", "A", "U", "NAG", "ZN", "CYS", "SO4"]
COORDS = {5: ["1.000", "0.001", "9.999"], 6: ["12.345", "-1.500", "99.999", "-0.000"], 7: ["-12.345", "123.456", "-99.999", "100.000"],
          8: ["-123.456", "1234.567", "-999.999", "9999.999"], 9: ["-1234.567", "12345.678"]}


def element_of(name):
    if name in ("FE", "ZN", "CL"):
        return name
    for ch in name:
        if ch.isalpha():
            return ch
    return "X"


def gen_coord(rng, wide_ok):
    """a %.3f coordinate text of a chosen total width (5..7, or 5..9)"""
    w = rng.choice([5, 6, 6, 7, 7, 7] + ([8, 8, 9] if wide_ok else []))
    if rng.random() < 0.4:
        return rng.choice(COORDS[w])
    neg = w >= 6 and rng.random() < 0.5
    digits = (w - 1 if neg else w) - 4  # integer digits
    lo = 0 if digits == 1 else 10 ** (digits - 1)
    v = rng.randint(lo, 10**digits - 1)
    return ("-" if neg else "") + f"{v}.{rng.randint(0, 999):03d}"


def gen_row(rng, cls=None, model="1"):
    """cls None: an ordinary row inside every guard; otherwise exactly that defect class is present."""
    grp = rng.choice(["ATOM", "ATOM", "ATOM", "HETATM"])
    nlen = 4 if cls == "name4" else rng.choice([1, 2, 2, 3, 3])
    name = rng.choice(NAMES[nlen])
    comp = rng.choice(COMPS)
    asym = rng.choice("ABCDEFXYZabz019")
    seq = rng.choice(["1", "9", "12", "99", "100", "999", "-5", "-99", "1000", "9999", "-999", "0"]) if rng.random() < 0.6 else str(rng.randint(-99, 9999))
    sid = rng.choice(["1", "9", "10", "99", "478", "999", "1000", "9999", "10000", "99999"]) if rng.random() < 0.6 else str(rng.randint(1, 99999))
    wide = cls == "wide"
    x, y, z = (gen_coord(rng, False) for _ in range(3))
    if wide:
        k = rng.randrange(3)
        v = rng.choice(COORDS[8])
        x, y, z = [(v if i == k else c) for i, c in enumerate((x, y, z))]
    occ = rng.choice(["1.00", "0.50", "0.33", "1.0", "0.5"])
    if cls == "occ":
        occ = rng.choice(["1.0000", "0.5000", "100.00"])
    b = rng.choice(["20.55", "5.10", "100.00", "0.00", "99.99", "7.5"])
    alt = rng.choice(["."] * 11 + ["?"]) if cls != "alt" else rng.choice("ABC12")
    ins = rng.choice(["?", "?", "."]) if cls != "ins" else rng.choice("ABZ")
    chg = rng.choice(["?", "?", "?", ".", "0"]) if cls != "charge" else rng.choice(["1", "-1", "2", "-2", "+1", "9", "-9", "10", "-10", "0", "3", "1a", "+-1"])
    r = mkrow(grp, sid, element_of(name), name, alt, comp, asym, ins, x, y, z, occ, b, chg, seq, comp, asym, name, model)
    if cls == "noauth":
        for k_ in rng.choice([("auth_atom_id",), ("auth_comp_id",), ("auth_atom_id", "auth_comp_id")]):
            r[k_] = rng.choice(["?", "."])
    if cls == "label":
        which = rng.choice(["asym", "asym", "comp", "atom"])
        if which == "asym":
            r["label_asym_id"] = rng.choice([c for c in "ABCDEFGH" if c != asym])
        elif which == "comp":
            r["label_comp_id"] = rng.choice([c for c in COMPS if c != comp])
        else:
            r["label_atom_id"] = rng.choice([n for n in NAMES[2] + NAMES[3] if n != name])
    return r


MALFORMED = ("absent", "none-mandatory", "bad-int", "group", "asym2", "comp4", "seq5", "id6", "coord9", "coord-text", "model-none")


def gen_case(rng, k):
    """A small _atom_site loop: mostly valid rows with boundary widths, one defect class
    per row at most, plus a malformed stream and multi-model loops."""
    n = rng.choice([1, 1, 2, 3, 4])
    absent, mal, rows = (), None, []
    u = rng.random()
    multi = u < 0.14
    if multi:
        nm = rng.choice([2, 2, 3])
        per = rng.choice([1, 2])
        labels = rng.sample(["1", "2", "3", "7", "10", "9999", "12345", "A"], nm) if rng.random() < 0.25 else [str(i + 1) for i in range(nm)]
        for m in labels:
            for _ in range(per):
                rows.append(gen_row(rng, rng.choice([None, None, None, "alt", "name4"]), m))
        if rng.random() < 0.2:
            rng.shuffle(rows)
    else:
        for _ in range(n):
            cls = rng.choice([None] * 8 + ["alt", "alt", "name4", "name4", "ins", "wide", "occ", "label", "label", "charge", "charge", "noauth"])
            rows.append(gen_row(rng, cls))
    if 0.14 <= u < 0.27:
        mal = rng.choice(MALFORMED)
        r = rng.choice(rows)
        if mal == "absent":
            absent = (rng.choice(list(MROW)),) if rng.random() < 0.6 else tuple(rng.sample(["auth_atom_id", "auth_comp_id", "label_asym_id"], rng.choice([1, 2])))
        elif mal == "none-mandatory":
            r[rng.choice(["id", "label_atom_id", "label_comp_id", "label_asym_id", "auth_seq_id", "Cartn_x", "occupancy", "type_symbol", "B_iso_or_equiv"])] = rng.choice(["?", "."])
        elif mal == "bad-int":
            r[rng.choice(["id", "auth_seq_id"])] = rng.choice(["1a", "x", "+5", "-", "1.0", "+-5", "--5"])
        elif mal == "group":
            r["group_PDB"] = rng.choice(["ANISOU", "atom", "HETATM1", "ATOMS", "?", "."])
        elif mal == "asym2":
            r["label_asym_id"] = r["auth_asym_id"] = rng.choice(["AA", "BA", "A1B"])
        elif mal == "comp4":
            r["label_comp_id"] = r["auth_comp_id"] = rng.choice(["ABCD", "HOHH"])
        elif mal == "seq5":
            r["auth_seq_id"] = rng.choice(["10000", "-1000", "99999"])
        elif mal == "id6":
            r["id"] = rng.choice(["100000", "999999"])
        elif mal == "coord9":
            r[rng.choice(["Cartn_x", "Cartn_y", "Cartn_z"])] = rng.choice(COORDS[9])
        elif mal == "coord-text":
            r[rng.choice(["Cartn_x", "Cartn_y", "Cartn_z"])] = rng.choice(["abc", "1,5", "--1.0", "1e3", "nan"])
        elif mal == "model-none":
            r["pdbx_PDB_model_num"] = rng.choice(["?", "."])
    conv = CONVS[k % 2]
    return {"rows": rows, "absent": list(absent), "conv": conv, "mal": mal, "multi": multi}


def model_term(case):
    mv = MV[case["conv"]]
    rows = core.coq_list([coq_row(r, case["absent"]) for r in case["rows"]])
    return (
        f"(let rows := {rows} in show_outcome (atom_site {mv} rows) ++ \"@@\" ++ "
        f"join \"@\" (map show_spec rows) ++ \"@@\" ++ "
        f"join \"@\" (map (fun r => show_bool (expressible r) ++ show_bool (guard r) ++ show_bool (agreesb {mv} r)) rows))"
    )


def impl_case(case):
    text = cif_loop_text(case["rows"], case["absent"])
    blk = load_block(text, case["conv"])
    # the rows the library hands over must be the rows we wrote (ties cif_quote to the tokenizer)
    back, absent = rows_from_block(load_block(text, "installed"))
    sane = absent == tuple(k for k in ITEMS if k in case["absent"]) and all(
        all(b.get(k) == r[k] for k in ITEMS if k not in case["absent"]) for b, r in zip(back, case["rows"])
    ) and len(back) == len(case["rows"])
    out = impl_atom_site(blk)
    spec = []
    for r in case["rows"]:
        g = None if "group_PDB" in case["absent"] else r["group_PDB"]
        if g not in ("ATOM", "HETATM"):
            spec.append(None)
            continue
        rr = {k: (None if k in case["absent"] else v) for k, v in r.items()}
        line = pdb_line(rr)
        spec.append((line, impl_parse_pdb_line(g, line)))
    return out, spec, sane


def compare_case(ctx, case, mout, impl, label):
    """-> list of disagreement descriptions"""
    out, spec, sane = impl
    bad = []
    if not sane:
        bad.append("harness: CIF text did not parse back to the written tokens")
    try:
        mo, ms, mb = mout.split("@@")
    except ValueError:
        return [f"unparsable model output {mout[:200]!r}"]
    exp = parse_model_outcome(mo)
    if not outcomes_equal(exp, out):
        i = 0
        while i < min(len(exp["recs"]), len(out["recs"])) and exp["recs"][i] == out["recs"][i]:
            i += 1
        bad.append(
            f"Model.CifLine.atom_site vs cif.atom_site ({case['conv']}): first difference at record {i}: "
            f"model={exp['recs'][i] if i < len(exp['recs']) else None!r} impl={out['recs'][i] if i < len(out['recs']) else None!r} "
            f"exn model={exp['exn']} impl={out['exn']} errs model={exp['errs']} impl={out['errs']}"
        )
    mspec = ms.split("@") if case["rows"] else []
    for r, s, m in zip(case["rows"], spec, mspec):
        if s is None:
            if m != "NOKIND":
                bad.append(f"show_spec: model {m!r} for a row without ATOM/HETATM kind")
            continue
        parts = m.split("|")
        if len(parts) == 2:
            mt = parts[1]
        elif len(parts) == 17:
            mt = pyfloat_fields(parts[0], parts[1:])
        else:
            bad.append(f"show_spec unparsable: {m!r}")
            continue
        if parts[0] != s[0] or mt != s[1]:
            bad.append(f"Model.CifLine.pdb_line_of_row/parse_atom vs independent writer + pdb.{r['group_PDB']}: model=({parts[0]!r}, {mt!r}) impl={s!r}")
    return bad


# ---------------------------------------------------------------------------
# offline CIF files


def file_chunks(path: Path, size=120):
    import pdbx

    with open(path, encoding="utf-8") as fh:
        blk = pdbx.load(fh)[0]
    rows, absent = rows_from_block(blk)
    ok = all(not any(ch in str(v) for ch in "|@\n") for r in rows for v in r.values())
    chunks = [rows[i : i + size] for i in range(0, len(rows), size)]
    return chunks, absent, ok


def block_with_rows(path: Path, lo, hi, conv):
    import pdbx

    with open(path, encoding="utf-8") as fh:
        blocks = pdbx.load(fh)
    a = blocks[0].get_object("atom_site")
    a._row_list[:] = a._row_list[lo:hi]
    if conv == "verbatim":
        verbatimize(blocks)
    return blocks[0]


# ---------------------------------------------------------------------------
# end to end: builder structure written both ways


def patched_load(conv):
    """context manager: pdbx.load emulating the verbatim convention (or untouched)"""
    import contextlib

    import pdbx

    @contextlib.contextmanager
    def cm():
        if conv != "verbatim":
            yield
            return
        orig = pdbx.load

        def load(fh):
            return verbatimize(orig(fh))

        pdbx.load = load
        try:
            yield
        finally:
            pdbx.load = orig

    return cm()


def atoms_to_rows(atoms, hetatm_for=("HOH",)):
    """the rows builder.to_cif writes (for diagnosis)"""
    rows = []
    for i, a in enumerate(atoms, 1):
        rec = "HETATM" if a.resname in hetatm_for else a.record
        el = a.element or element_of(a.name)
        rows.append(mkrow(rec, str(i), el, a.name, a.altloc.strip() or ".", a.resname, a.chain.strip() or ".", a.icode.strip() or "?",
                          f"{a.x:.3f}", f"{a.y:.3f}", f"{a.z:.3f}", f"{a.occ:.2f}", f"{a.bfac:.2f}", "?", str(a.resseq), a.resname,
                          a.chain.strip() or ".", a.name))
    return rows


def read_records(path):
    from pdb2pqr import io as pio
    from pdb2pqr import pdb

    try:
        pdblist, is_cif = pio.get_molecule(str(path))
    except Exception as e:  # noqa: BLE001
        return type(e).__name__, None
    return [x for x in pdblist if isinstance(x, (pdb.ATOM, pdb.HETATM))], is_cif


def build_structures(ctx, count):
    from harness import builder as B

    import numpy as np

    out = []
    seqs = [["ALA", "LYS", "ASN", "GLY"], ["SER", "HIS", "ASP", "TRP", "CYS"], ["GLU", "ARG", "THR", "PHE"], ["MET", "GLN", "ILE", "PRO", "TYR", "VAL", "LEU"]]
    for i in range(count):
        seq = list(seqs[i % len(seqs)]) if i < len(seqs) else [ctx.rng.choice(B.STANDARD_AA) for _ in range(ctx.rng.randint(3, 6))]
        chain = ctx.rng.choice("ABK")
        start = ctx.rng.choice([1, 12, 98, 997])
        variant = ["heavy", "heavy+water", "withH", "heavy-2chains", "heavy-2models"][i % 5]
        atoms = B.build_peptide(seq, chain=chain, start=start, hydrogens=(variant == "withH"))
        if variant == "heavy+water":
            g = np.random.default_rng(ctx.rng.randrange(1 << 30))
            atoms = list(atoms) + list(B.waters(3, around=atoms, rng=g, chain=chain, start=start + len(seq) + 5))
        if variant == "heavy-2chains":
            other = B.build_peptide(["GLY", "SER", "ALA"], chain="C" if chain != "C" else "D", start=5)
            other = B.rigid(other, t=(30.0, 0.0, 0.0))
            atoms = list(atoms) + list(other)
        atoms = B.reserial(list(atoms))
        out.append({"atoms": atoms, "variant": variant, "seq": seq, "chain": chain, "start": start})
    return out


def pqr_key(p):
    return (p["record"], p["name"], p["resname"], p["chain"], p["resseq"], round(p["x"], 3), round(p["y"], 3), round(p["z"], 3), round(p["charge"], 4), round(p["radius"], 4))


def e2e_one(ctx, st, conv, ff, run_pipeline):
    """-> None | (sig, what, detail).  Compares io.get_molecule records, then PQR atoms."""
    from harness import builder as B

    d = ctx.scratch_dir()
    atoms = st["atoms"]
    ptxt = B.to_pdb(atoms, serial_start=None, ter=True)
    ctxt = B.to_cif(atoms)
    rows = atoms_to_rows(atoms)
    if st["variant"] == "heavy-2models":
        # the same chain twice: model 2 is model 1 moved by (0.5, -0.25, 1.0); serials continue
        n = len(atoms)
        atoms2 = [a for a in B.rigid(atoms, t=(0.5, -0.25, 1.0))]
        for k, a in enumerate(atoms2):
            a.serial = n + 1 + k
        ptxt = ("MODEL        1\n" + B.to_pdb(atoms, serial_start=None, ter=True, end=False) + "ENDMDL\n"
                + "MODEL        2\n" + B.to_pdb(atoms2, serial_start=None, ter=True, end=False) + "ENDMDL\nEND\n")
        rows2 = atoms_to_rows(atoms2)
        for k, r in enumerate(rows2):
            r["id"] = str(n + 1 + k)
            r["pdbx_PDB_model_num"] = "2"
        head = ctxt[: ctxt.index("\nATOM ") + 1] if "\nATOM " in ctxt else ctxt[: ctxt.index("\nHETATM ") + 1]
        rows = rows + rows2
        ctxt = head + "".join(" ".join(cif_quote(r[k]) for k in ITEMS) + "\n" for r in rows) + "#\n"
    args = [f"--ff={ff}"] + ctx.rng.choice([[], ["--keep-chain"], ["--keep-chain", "--with-ph=7"]])
    detail = {"variant": st["variant"], "seq": st["seq"], "chain": st["chain"], "start": st["start"], "conv": conv, "ff": ff}
    return e2e_texts(ctx, ptxt, ctxt, rows, conv, args, run_pipeline, detail)


def e2e_texts(ctx, ptxt, ctxt, rows, conv, args, run_pipeline, detail):
    from harness import builder as B

    d = ctx.scratch_dir()
    detail = dict(detail, conv=conv, args=args, run_pipeline=run_pipeline, pdb_text=ptxt, cif_text=ctxt, rows=rows)
    (d / "s.pdb").write_text(ptxt)
    (d / "s.cif").write_text(ctxt)
    with patched_load(conv):
        crecs, is_cif = read_records(d / "s.cif")
    precs, _ = read_records(d / "s.pdb")
    if isinstance(precs, str):
        return {"site": "pdb.read_pdb", "condition": f"raises:{precs}", "explained": "no", "fields": ""}, "builder PDB not readable", detail
    if is_cif is not True and not isinstance(crecs, str):
        return {"site": "io.get_molecule", "condition": "cif-suffix-not-dispatched", "explained": "no", "fields": ""}, "a .cif path was not read by the mmCIF reader", detail
    if isinstance(crecs, str):
        # find the first row whose own reading fails, for the signature
        for r in rows:
            res = row_oracle(r, conv)
            if not res["agree"]:
                detail.update(res["detail"], row=r)
                return res["sig"], f"cif.read_cif raises {crecs}; first bad row: {res['what']}", detail
        return {"site": "cif.read_cif", "condition": f"raises:{crecs}", "explained": "no", "fields": ""}, f"cif.read_cif raises {crecs}", detail
    if len(crecs) != len(precs):
        return {"site": "cif.read_cif", "condition": "record-count", "explained": "no", "fields": f"{len(crecs)}!={len(precs)}"}, "different number of coordinate records from mmCIF and PDB", detail
    for r, c, p in zip(rows, crecs, precs):
        ct, pt = rec_tuple(c), rec_tuple(p)
        if ct != pt:
            sig, what = diagnose(r, lib_of(r["label_alt_id"], conv), lib_of(r["pdbx_formal_charge"], conv), ct, pt, c.original_text)
            detail.update(row=r, cif_line=c.original_text, pdb_line=p.original_text)
            return sig, what, detail
    if not run_pipeline:
        return None
    rp = B.run_pdb2pqr(ptxt, args, workdir=d / "p", log_level=logging.ERROR)
    with patched_load(conv):
        rc = B.run_pdb2pqr(ctxt, args, workdir=d / "c", log_level=logging.ERROR, input_name="input.cif")
    ep, ec = type(rp["exc"]).__name__ if rp["exc"] else None, type(rc["exc"]).__name__ if rc["exc"] else None
    if ep or ec or rp["pqr_text"] is None or rc["pqr_text"] is None:
        if ep == ec and ep is not None:
            return None  # both encodings rejected alike (not this property)
        return {"site": "main.main_driver", "condition": f"pdb:{ep} cif:{ec}", "explained": "no", "fields": "run"}, "one encoding runs, the other fails", detail
    ap, ac = [pqr_key(x) for x in B.parse_pqr(rp["pqr_text"])], [pqr_key(x) for x in B.parse_pqr(rc["pqr_text"])]
    if ap != ac:
        j = next((i for i, (a, b) in enumerate(zip(ap, ac)) if a != b), min(len(ap), len(ac)))
        detail.update(pdb_atom=ap[j] if j < len(ap) else None, cif_atom=ac[j] if j < len(ac) else None, n_pdb=len(ap), n_cif=len(ac))
        return {"site": "main.main_driver", "condition": "pqr-atoms-differ", "explained": "no", "fields": "q/r/atoms"}, "PQR atoms (name, residue, coordinates, charge, radius) differ between the PDB and the mmCIF run", detail
    if not rc["pqr_text"].rstrip("\n").endswith("#"):
        ctx.count("e2e:cif-trailer-missing")
    return None


# ---------------------------------------------------------------------------
# the other categories cif.read_cif processes (header, title, compnd, source, keywds, expdata, author,
# ssbond, cispep, cryst1, origxn, scalen before atom_site; conect after it).  The property is about the
# RESULT: whatever a legal mmCIF file holds there must neither change nor abort the atoms.

HANDLERS_PRE = ("header", "title", "compnd", "source", "keywds", "expdata", "author", "ssbond", "cispep", "cryst1", "origxn", "scalen")
HANDLERS_POST = ("conect",)
HANDLER_CATS = {
    "header": ("struct_keywords", "pdbx_database_status", "entry"), "title": ("struct",), "compnd": ("entity",),
    "source": ("entity_src_gen",), "keywds": ("struct_keywords",), "expdata": ("exptl",), "author": ("audit_author",),
    "ssbond": ("struct_conn",), "cispep": ("struct_mon_prot_cis",), "cryst1": ("cell", "symmetry"),
    "origxn": ("database_PDB_matrix",), "scalen": ("atom_sites",), "conect": ("struct_conn", "atom_site"),
}
OPTIONAL_IN_CODE = ("entity_src_gen", "struct_conn", "struct_mon_prot_cis")  # handlers return early when these are absent


def single_cats():
    """key-value categories as PDB-archive files have them: {category: [(item, value text)]}"""
    return {
        "entry": [("id", "TEST")],
        "struct_keywords": [("entry_id", "TEST"), ("pdbx_keywords", "'DE NOVO PROTEIN'"), ("text", "'synthetic structure'")],
        "pdbx_database_status": [("entry_id", "TEST"), ("recvd_initial_deposition_date", "2000-01-01")],
        "struct": [("entry_id", "TEST"), ("title", "'synthetic structure built from templates'")],
        "exptl": [("entry_id", "TEST"), ("method", "'X-RAY DIFFRACTION'")],
        "cell": [("entry_id", "TEST"), ("length_a", "1.000"), ("length_b", "1.000"), ("length_c", "1.000"),
                 ("angle_alpha", "90.00"), ("angle_beta", "90.00"), ("angle_gamma", "90.00"), ("Z_PDB", "1")],
        "symmetry": [("entry_id", "TEST"), ("space_group_name_H-M", "'P 1'")],
        "atom_sites": [("entry_id", "TEST")]
        + [(f"fract_transf_matrix[{i}][{j}]", "1.000000" if i == j else "0.000000") for i in (1, 2, 3) for j in (1, 2, 3)]
        + [(f"fract_transf_vector[{i}]", "0.00000") for i in (1, 2, 3)],
        "database_PDB_matrix": [("entry_id", "TEST")]
        + [(f"origx[{i}][{j}]", "1.000000" if i == j else "0.000000") for i in (1, 2, 3) for j in (1, 2, 3)]
        + [(f"origx_vector[{i}]", "0.00000") for i in (1, 2, 3)],
    }


def loop_cats(rng, rows):
    """loop_ categories: {category: (items, [row values])} + per-category notes on what the rows refer to"""
    notes = {}
    cats = {
        "entity": (["id", "type", "pdbx_description"], [["1", "polymer", "'synthetic peptide'"], ["2", "water", "water"]][: rng.choice([1, 2])]),
        "audit_author": (["name", "pdbx_ordinal"], [["'Builder, A.'", "1"], ["'Checker, B.'", "2"]][: rng.choice([1, 2])]),
        "entity_src_gen": (["entity_id", "pdbx_gene_src_scientific_name", "gene_src_common_name", "pdbx_gene_src_ncbi_taxonomy_id"],
                           [["1", "'Homo sapiens'", "human", "9606"]]),
    }
    # struct_conn: partners that exist, that are absent from atom_site (ligand / chain removed, annotation kept),
    # that exist twice (alt-locs) or in several models
    items = ["id", "conn_type_id"]
    for pt in ("ptnr1_", "ptnr2_"):
        items += [pt + k for k in ("label_asym_id", "label_comp_id", "label_seq_id", "label_atom_id", "auth_asym_id", "auth_comp_id", "auth_seq_id", "symmetry")]
        items.append("pdbx_" + pt + "PDB_ins_code")
    items.append("pdbx_dist_value")
    conn_rows, kinds = [], []
    arows = [r for r in rows if r["group_PDB"] in ("ATOM", "HETATM")]
    for n in range(rng.choice([1, 1, 2, 3])):
        ctype = rng.choice(["disulf", "metalc", "covale", "hydrog"])
        vals = [f"{ctype}{n + 1}", ctype]
        for pt in ("ptnr1_", "ptnr2_"):
            mode = rng.choice(["present", "present", "present", "absent-atom", "absent-atom", "absent-residue"])
            a = rng.choice(arows) if arows else None
            if a is None:
                mode = "absent-residue"
                a = mkrow("ATOM", "1", "C", "CA", ".", "ALA", "A", "?", "0.000", "0.000", "0.000", "1.00", "0.00", "?", "1", "ALA", "A", "CA")
            asym, comp, seq, atom = a["auth_asym_id"], eff(a, "comp_id") or "ALA", a["auth_seq_id"], a["label_atom_id"]
            if mode == "absent-atom":
                atom = rng.choice(["ZN", "XX", "O9"])
            elif mode == "absent-residue":
                comp, seq, atom = rng.choice(["ZN", "NAG", "CYS"]), str(rng.randint(700, 990)), rng.choice(["ZN", "C1", "SG"])
            kinds.append(mode)
            vals += [a["label_asym_id"], comp, a.get("label_seq_id", seq), atom, asym, comp, seq, rng.choice(["1_555", "1_555", "2_655"]), "?"]
        vals.append(rng.choice(["2.03", "2.031", "1.98"]))
        conn_rows.append(vals)
    if sum(1 for r in arows if r["label_alt_id"] not in (".", "?")) and "present" in kinds:
        kinds.append("altloc-rows")
    if len({r["pdbx_PDB_model_num"] for r in arows}) > 1:
        kinds.append("several-models")
    cats["struct_conn"] = (items, conn_rows)
    notes["struct_conn"] = sorted(set(k for k in kinds if k != "present"))
    cis_items = ["pdbx_id", "label_comp_id", "label_seq_id", "label_asym_id", "label_alt_id", "pdbx_PDB_ins_code", "auth_comp_id", "auth_seq_id",
                 "auth_asym_id", "pdbx_label_comp_id_2", "pdbx_label_seq_id_2", "pdbx_label_asym_id_2", "pdbx_PDB_ins_code_2",
                 "pdbx_auth_comp_id_2", "pdbx_auth_seq_id_2", "pdbx_auth_asym_id_2", "pdbx_PDB_model_num", "pdbx_omega_angle"]
    cats["struct_mon_prot_cis"] = (cis_items, [["1", "SER", "7", "A", ".", "?", "SER", "7", "A", "PRO", "8", "A", "?", "PRO", "8", "A", "1", "-0.11"]])
    return cats, notes


def gen_other(rng, rows, mode):
    """-> (text before atom_site, text after it, state {category: 'full'|'category-absent'|'item-absent'|'missing-value'}, notes).
    mode 'full': every category as in an archive file; 'minimal': only what the code cannot do without... there is no such
    thing, so: optional-in-code categories dropped; 'mixed': each category independently full / absent / partially filled."""
    singles = single_cats()
    loops, notes = loop_cats(rng, rows)
    state = {}
    before, after = [], []

    def damage(cat, items):
        """-> (state, items') for one category in mode mixed"""
        u = rng.random()
        if u < 0.55:
            return "full", items
        if u < 0.70:
            return "category-absent", None
        cand = [i for i, (k, _v) in enumerate(items) if k != "entry_id"]
        j = rng.choice(cand)
        if u < 0.85:
            return "item-absent", [x for i, x in enumerate(items) if i != j]
        return "missing-value", [(k, (rng.choice(["?", "."]) if i == j else v)) for i, (k, v) in enumerate(items)]

    for cat, items in singles.items():
        st, it = ("full", items) if mode != "mixed" else damage(cat, items)
        state[cat] = st
        if it is not None:
            before += [f"_{cat}.{k} {v}" for k, v in it] + ["#"]
    for cat, (items, lrows) in loops.items():
        if mode == "no-optional" and cat in OPTIONAL_IN_CODE:
            state[cat] = "category-absent"
            continue
        st = "full"
        if mode == "mixed":
            st, it = damage(cat, [(k, None) for k in items])
            if st == "category-absent":
                state[cat] = st
                continue
            if st == "item-absent":
                keep = [k for k, _ in it]
                idx = [items.index(k) for k in keep]
                items, lrows = keep, [[r_[i] for i in idx] for r_ in lrows]
            elif st == "missing-value":
                j = rng.randrange(len(items))
                lrows = [[(rng.choice(["?", "."]) if i == j else v) for i, v in enumerate(r_)] for r_ in lrows]
        state[cat] = st
        txt = ["loop_"] + [f"_{cat}.{k}" for k in items] + [" ".join(r_) for r_ in lrows] + ["#"]
        (after if cat in ("struct_conn", "struct_mon_prot_cis") else before).extend(txt)
    return "\n".join(before) + "\n", "\n".join(after) + "\n", state, notes


def cif_file_text(rows, before, after, absent=()):
    loop = cif_loop_text(rows, absent)
    body = loop[loop.index("loop_") :]
    return "data_TEST\n#\n" + before + body + after


def handler_cause(h, state, notes, absent=()):
    causes = set()
    for cat in HANDLER_CATS[h]:
        if cat == "atom_site":
            causes.update(f"atom_site-without-{k}" for k in absent)
            continue
        st = state.get(cat, "full")
        if st != "full":
            causes.add(f"{cat}:{st}")
        causes.update(f"{cat}:{n}" for n in notes.get(cat, ()))
    return "+".join(sorted(causes)) or "none"


OTHERS_STATS = {"absorbed": 0, "absorbed_unreported": 0}


def others_oracle(rows, before, after, state, notes, conv, absent=()):
    """read_cif level, model independent: every handler of read_cif is run on its own on the parsed block (the proviso of
    C10_read_cif_atoms: no handler raises); then read_cif's ATOM/HETATM/MODEL/ENDMDL records must be those atom_site returns
    for the same block alone.  -> list of (sig, what, detail)"""
    from pdb2pqr import cif, pdb

    text = cif_file_text(rows, before, after, absent)
    out = []
    import pdbx

    def blocks():
        b = pdbx.load(_io.StringIO(text))
        return verbatimize(b) if conv == "verbatim" else b

    raised = {}
    for h in HANDLERS_PRE + HANDLERS_POST:
        try:
            getattr(cif, h)(blocks()[0])
        except Exception as e:  # noqa: BLE001
            raised[h] = type(e).__name__
    try:
        site = impl_atom_site(blocks()[0])
    except Exception as e:  # noqa: BLE001
        return out + [({"site": "cif.atom_site", "condition": f"harness-{type(e).__name__}", "cause": "none"}, "atom_site runner failed", {})]
    with patched_load(conv):
        try:
            plist, rerr = cif.read_cif(_io.StringIO(text))
            rexc = None
        except Exception as e:  # noqa: BLE001
            plist, rerr, rexc = None, None, type(e).__name__
    if site["exn"] != "-":
        return out  # atom_site itself rejects the rows (not about the other categories)
    if rexc is not None:
        # the route yields nothing: name the handler(s) that raise on this block
        for h, exc in raised.items():
            sig = {"site": f"cif.{h}", "condition": f"raises-{exc}", "cause": handler_cause(h, state, notes, absent)}
            out.append((sig, f"cif.{h} raises {exc} on a legal mmCIF file and cif.read_cif aborts: the mmCIF route yields nothing while the PDB file of the same atoms is read",
                        {"handler": h, "state": {k: v for k, v in state.items() if v != 'full'}, "notes": notes}))
        if not raised:
            out.append(({"site": "cif.read_cif", "condition": f"raises-{rexc}", "cause": "no-handler-raises"}, "read_cif raises although no handler does", {}))
        return out
    # read_cif returned; handlers that raise on their own were absorbed (records skipped) - the atoms must be unaffected
    OTHERS_STATS["absorbed"] += len(raised)
    OTHERS_STATS["absorbed_unreported"] += sum(1 for h in raised if h not in [str(x) for x in (rerr or [])])
    got = []
    for x in plist:
        if isinstance(x, (pdb.ATOM, pdb.HETATM)):
            got.append(("A", x.original_text) + rec_tuple(x))
        elif isinstance(x, pdb.MODEL):
            got.append(("M", x.original_text, str(x.serial)))
        elif isinstance(x, pdb.ENDMDL):
            got.append(("E",))
    if got != site["recs"]:
        out.append(({"site": "cif.read_cif", "condition": "atom-records-changed-by-other-categories", "cause": handler_cause("conect", state, notes, absent)},
                    "the coordinate records read_cif returns are not those of atom_site alone", {"n_read_cif": len(got), "n_atom_site": len(site["recs"])}))
    return out


# ---------------------------------------------------------------------------


# ---------------------------------------------------------------------------
# FILE layer of the mmCIF route: legal openings and lexical variants of the whole file, through the real
# entry points io.get_molecule / main_driver on a FILE, against the PDB encoding of the same atoms.

FILE_XFORMS = (
    "preamble-magic", "preamble-banner", "preamble-bare-hash", "preamble-blank", "preamble-indent", "data-upper", "data-mixed",
    "loop-upper", "loop-mixed", "crlf", "cr", "comments", "bom", "quote-single", "quote-double", "text-block", "tabs",
    "no-final-newline", "suffix-upper", "suffix-mixed",
)
# legal by the CIF grammar and read by mmcif_pdbx: tag case is mishandled by /repo (known finding C10-F24); an extra
# data block without atom_site was (C10-F25, repaired by fix_c10_f25) and must be read now
FINDING_XFORMS = ("tag-case-category", "tag-case-item", "extra-block-before", "extra-block-after")
QUOTABLE = ("label_atom_id", "label_comp_id", "label_asym_id", "auth_comp_id", "auth_asym_id", "auth_atom_id", "type_symbol", "group_PDB")


def file_variant(rng, rows, before, after, xf):
    """-> (text, suffix): the mmCIF file of the rows with the lexical variants [xf] applied"""
    cols = list(ITEMS)
    cat = "_ATOM_SITE." if "tag-case-category" in xf else "_atom_site."
    tag = (lambda k: k.lower() if k.startswith("Cartn") or k == "B_iso_or_equiv" else k.upper()) if "tag-case-item" in xf else (lambda k: k)
    loopkw = "LOOP_" if "loop-upper" in xf else "Loop_" if "loop-mixed" in xf else "loop_"
    sep = "\t" if "tabs" in xf else " "
    lines = []
    if "preamble-magic" in xf:
        lines.append("#\\#CIF_1.1")
    if "preamble-banner" in xf:
        lines += ["# written by some modelling program 1.2 on 2020-01-01", "# title: test"]
    if "preamble-bare-hash" in xf:
        lines.append("#")
    if "preamble-blank" in xf:
        lines += ["", "   "] if "preamble-magic" in xf or rng.random() < 0.5 else [""]
    kw = "DATA_" if "data-upper" in xf else "Data_" if "data-mixed" in xf else "data_"
    if "extra-block-before" in xf:
        lines += [kw + "comp_list", "#", "_chem_comp.id ALA", "_chem_comp.name ALANINE", "#"]
    lines.append(("  " if "preamble-indent" in xf else "") + kw + "TEST")
    lines.append("#")
    body_before = before.replace("loop_", loopkw).rstrip("\n").split("\n") if before.strip() else []
    lines += body_before
    lines.append(loopkw)
    lines += [cat + tag(k) for k in cols]
    for r in rows:
        toks = []
        for k in cols:
            v = r[k]
            q = cif_quote(v)
            if q == v and v not in (".", "?") and k in QUOTABLE:
                u = rng.random()
                if "text-block" in xf and u < 0.08:
                    q = "\n;" + v + "\n;\n"
                elif "quote-single" in xf and u < 0.5:
                    q = "'" + v + "'"
                elif "quote-double" in xf and u < 0.5:
                    q = '"' + v + '"'
            toks.append(q)
        line = ""
        for t in toks:
            line += t if (not line or line.endswith("\n")) else sep + t
        lines.append(line.rstrip("\n") if line.endswith(";\n") else line)
    lines.append("#")
    lines += after.replace("loop_", loopkw).rstrip("\n").split("\n") if after.strip() else []
    if "extra-block-after" in xf:
        lines += [kw + "comp_list", "#", "_chem_comp.id ALA", "_chem_comp.name ALANINE", "#"]
    if "comments" in xf:
        out, intext = [], False
        for ln in lines:
            for part in ln.split("\n"):
                pass
            if ln.startswith(";") or "\n;" in ln:
                out.append(ln)
                continue
            if ln and not ln.startswith("#") and rng.random() < 0.2 and "'" not in ln and '"' not in ln:
                ln = ln + "  # a comment"
            out.append(ln)
            if ln == "#" and rng.random() < 0.3:
                out.append("# ---- next category ----")
        lines = out + ["# end of file"]
    nl_ = "\r\n" if "crlf" in xf else "\r" if "cr" in xf else "\n"
    text = "\n".join(lines)
    text = text if "no-final-newline" in xf else text + "\n"
    text = text.replace("\n", nl_)
    if "bom" in xf:
        text = "﻿" + text
    suffix = ".CIF" if "suffix-upper" in xf else rng.choice([".Cif", ".cIF"]) if "suffix-mixed" in xf else ".cif"
    return text, suffix


def gen_xforms(rng, k):
    """a small set of legal variants; every single variant is hit on its own during the first cases"""
    singles = list(FILE_XFORMS)
    if k < len(singles):
        xf = {singles[k]}
    else:
        xf = set(rng.sample(singles, rng.choice([2, 3, 4, 6])))
    for a, b in (("data-upper", "data-mixed"), ("loop-upper", "loop-mixed"), ("crlf", "cr"), ("suffix-upper", "suffix-mixed")):
        if a in xf and b in xf:
            xf.discard(b)
    return xf


def routed_get_molecule(path):
    """io.get_molecule(path) with the two readers wrapped to see which one the file layer chose.
    -> (route 'cif'|'pdb'|'none', records | exception name, is_cif | None)"""
    from pdb2pqr import cif, pdb
    from pdb2pqr import io as pio

    called = []
    o_c, o_p = cif.read_cif, pdb.read_pdb

    def rc(fh):
        called.append("cif")
        return o_c(fh)

    def rp(fh):
        called.append("pdb")
        return o_p(fh)

    cif.read_cif, pdb.read_pdb = rc, rp
    try:
        try:
            plist, is_cif = pio.get_molecule(str(path))
            res = [rec_tuple(x) for x in plist if isinstance(x, (pdb.ATOM, pdb.HETATM))]
        except Exception as e:  # noqa: BLE001
            res, is_cif = type(e).__name__, None
    finally:
        cif.read_cif, pdb.read_pdb = o_c, o_p
    return (called[0] if called else "none"), res, is_cif


def write_text_file(path, text):
    with open(path, "w", encoding="utf-8", newline="") as fh:
        fh.write(text)


def file_oracle(ctx, rows, text, suffix, xf, ref):
    """-> (observed route, None | (sig, what, detail)).  ref = records of the PDB encoding through io.get_molecule."""
    d = ctx.scratch_dir()
    f = d / ("variant" + suffix)
    write_text_file(f, text)
    try:
        route, res, is_cif = routed_get_molecule(f)
    finally:
        f.unlink()
    variant = "+".join(sorted(xf)) or "plain"
    detail = {"kind": "file", "rows": rows, "suffix": suffix, "text": text, "xf": sorted(xf), "route": route}
    if route != "cif":
        return route, ({"site": "io.get_molecule", "condition": f"mmcif-file-routed-to-{route}-reader", "variant": variant},
                       f"a legal mmCIF file named *{suffix} is not read by the mmCIF reader (route: {route}); the PDB encoding of the same atoms is read", detail)
    if isinstance(res, str):
        return route, ({"site": "cif.read_cif", "condition": f"raises-{res}", "variant": variant},
                       f"a legal mmCIF file makes the mmCIF route raise {res}; the PDB encoding of the same atoms is read", detail)
    if is_cif is not True or res != ref:
        return route, ({"site": "io.get_molecule", "condition": "records-differ-from-pdb-encoding" if is_cif else "is_cif-flag-false", "variant": variant},
                       "the mmCIF file gives other coordinate records than the PDB encoding of the same atoms", dict(detail, n_cif=len(res), n_pdb=len(ref)))
    return route, None


def pdb_reference(ctx, rows):
    d = ctx.scratch_dir()
    f = d / "reference.pdb"
    write_text_file(f, "".join(pdb_line(r) + "\n" for r in rows) + "END\n")
    route, res, _ = routed_get_molecule(f)
    f.unlink()
    return res


def file_layer_stage(ctx, escalate):
    """generated file variants: model tie (classify_input vs the reader io.get_molecule calls) + search"""
    nfile = (1500 if ctx.thorough else 500) if escalate else (800 if ctx.thorough else 110)
    cases = []
    for k in range(nfile):
        rows = [gen_row(ctx.rng, ctx.rng.choice([None] * 5 + ["alt", "name4", "charge", "label"])) for _ in range(ctx.rng.choice([1, 2, 3]))]
        if not all(expressible(r) and numeric(r) for r in rows):
            continue
        xf = gen_xforms(ctx.rng, k)
        if k % 9 == 8:
            xf.add(ctx.rng.choice(FINDING_XFORMS))
        before, after, _state, _notes = gen_other(ctx.rng, rows, ctx.rng.choice(["full", "no-optional"]))
        text, suffix = file_variant(ctx.rng, rows, before, after, xf)
        cases.append((rows, text, suffix, xf))
    # suffixes the file layer sends to the PDB reader (model tie only: how io.get_molecule treats them)
    other = [(".mmcif", "data_X\n"), (".pdb", "data_X\n"), (".ent", "#\n"), ("", "data_X\n"), (".cif.txt", "data_X\n"), (".txt", "ATOM\n")]
    terms = [f"show_route (classify_input {core.coq_string(sfx)} {core.coq_string_bytes(t.lstrip(chr(0xfeff))[:120])}) ++ \"|\" ++ show_bool (legal_opening {core.coq_string_bytes(t.lstrip(chr(0xfeff))[:400])})"
             for (_r, t, sfx, _x) in cases]
    terms += [f"show_route (classify_input {core.coq_string(sfx)} {core.coq_string_bytes(t)}) ++ \"|-\"" for sfx, t in other]
    try:
        mres = core.run_cases("C10file", HEADER, terms, chunk=60)
    except core.CoqEvalError as e:
        mres = None
        ctx.broke("correspondence-broken", "file-layer model evaluation failed", str(e))
    nbad = 0
    for i, (rows, text, suffix, xf) in enumerate(cases):
        ref = pdb_reference(ctx, rows)
        route, fail = file_oracle(ctx, rows, text, suffix, xf, ref)
        ctx.evaluated(("file", tuple(sorted(xf)), suffix), True)
        ctx.count("file:" + ("agree" if fail is None else "fail:" + fail[0]["condition"]))
        if mres is not None:
            ctx.cov["correspondence_cases"] += 1
            mroute, mlegal = mres[i].split("|")
            legal_expected = not (set(xf) & {"extra-block-before"}) or True
            if mroute != route or mlegal != "1":
                nbad += 1
                ctx.cov["correspondence_disagreements"] += 1
                if nbad <= 3:
                    ctx.broke("correspondence-broken", "Model.CifLine.classify_input / legal_opening vs io.get_molecule",
                              f"model route={mroute} legal_opening={mlegal}; io.get_molecule called the {route} reader; variant {sorted(xf)} suffix {suffix}",
                              {"text_head": text[:300], "suffix": suffix})
        if fail is not None:
            ctx.fail(fail[0], fail[1], fail[2])
    if mres is not None:
        d = ctx.scratch_dir()
        for j, (sfx, t) in enumerate(other):
            f = d / ("other" + sfx)
            write_text_file(f, t)
            route, _res, _ = routed_get_molecule(f)
            f.unlink()
            ctx.cov["correspondence_cases"] += 1
            if mres[len(cases) + j].split("|")[0] != route:
                ctx.cov["correspondence_disagreements"] += 1
                ctx.broke("correspondence-broken", "Model.CifLine.classify_input vs io.get_molecule (other suffixes)", f"suffix {sfx!r}: model {mres[len(cases) + j]} real {route}", {"suffix": sfx})
    return cases


def file_e2e(ctx, st, xf, ff):
    """a builder structure as an mmCIF FILE variant through main_driver, against its PDB file.  -> None | (sig, what, detail)"""
    from harness import builder as B

    rows = atoms_to_rows(st["atoms"])
    before, after, _s, _n = gen_other(ctx.rng, rows, "full")
    text, suffix = file_variant(ctx.rng, rows, before, after, xf)
    ptxt = B.to_pdb(st["atoms"], serial_start=None, ter=True)
    d = ctx.scratch_dir()
    args = [f"--ff={ff}", "--keep-chain"]
    rp = B.run_pdb2pqr(ptxt, args, workdir=d / "fp", log_level=logging.ERROR)
    rc = B.run_pdb2pqr(text, args, workdir=d / "fc", log_level=logging.ERROR, input_name="input" + suffix)
    variant = "+".join(sorted(xf)) or "plain"
    detail = {"kind": "file-e2e", "xf": sorted(xf), "suffix": suffix, "pdb_text": ptxt, "cif_text": text, "args": args}
    ep, ec = type(rp["exc"]).__name__ if rp["exc"] else None, type(rc["exc"]).__name__ if rc["exc"] else None
    if ep is None and (ec is not None or rc["pqr_text"] is None):
        return {"site": "main.main_driver", "condition": f"mmcif-file-run-fails:{ec}", "variant": variant}, "the PDB file runs, the mmCIF file of the same atoms does not", detail
    if ep is not None:
        return None
    ap, ac = [pqr_key(x) for x in B.parse_pqr(rp["pqr_text"])], [pqr_key(x) for x in B.parse_pqr(rc["pqr_text"])]
    if ap != ac:
        return {"site": "main.main_driver", "condition": "pqr-atoms-differ", "variant": variant}, "PQR atoms differ between the PDB file and the mmCIF file", detail
    return None


def load_corpus():
    cases = []
    d = core.CORPUS / "C10"
    if d.exists():
        for f in sorted(d.glob("*.json")):
            data = json.loads(f.read_text())
            for c in data.get("cases", []):
                cases.append(c)
    return cases


def run(ctx):
    logging.getLogger("pdb2pqr").setLevel(logging.CRITICAL)
    ctx.cov["rule"] = (
        "generated _atom_site loops (1-6 rows; per row at most one of the classes alt-loc / 4-char name / insertion code / "
        "8-char coordinate / 6-char occupancy / label<>auth / formal charge; boundary widths of id, seq, names, coordinates; "
        "14% several models; 13% malformed: absent column, '?' in a mandatory item, non-integer id/seq, foreign group_PDB, "
        "over-wide asym/comp/seq/id/coordinate, non-numeric coordinate, missing model number), each under the installed and the "
        "verbatim missing-value convention, + the rows of tests/data/1FAS.cif and 3U7T.cif in chunks, + builder structures written "
        "as PDB and mmCIF. non-trivial = expressible ATOM/HETATM row (or structure with >= 1 residue); distinct by "
        "(convention, defect classes, widths of id/name/comp/seq/x/y/z/occ, group) resp. (variant, sequence, convention, ff)"
    )
    ok = core.proof_stage(ctx, "C10", THEOREMS, [])

    # ---- correspondence -------------------------------------------------
    corpus = load_corpus()
    ncases = 6000 if ctx.thorough else 560
    cases = []
    for c in corpus:
        for conv in CONVS:
            cases.append({"rows": c["rows"], "absent": c.get("absent", []), "conv": conv, "mal": None, "multi": False, "corpus": c.get("name")})
    cases += [gen_case(ctx.rng, k) for k in range(ncases)]
    impl = []
    for c in cases:
        try:
            impl.append(impl_case(c))
        except Exception as e:  # noqa: BLE001 - a crash of the impl runner is a correspondence problem, not a harness crash
            impl.append(e)
    corr_broken = False
    disagree_rows = []
    mouts = None
    try:
        mouts = core.run_cases("C10", HEADER, [model_term(c) for c in cases], chunk=60)
    except core.CoqEvalError as e:
        corr_broken = True
        ctx.broke("correspondence-broken", "model evaluation failed", str(e))
    if mouts is not None:
        for c, im, mo in zip(cases, impl, mouts):
            ctx.cov["correspondence_cases"] += 1
            ctx.count(("corr:" + c["conv"] + ":") + ("malformed:" + c["mal"] if c["mal"] else "multi-model" if c["multi"] else "rows"))
            bad = [f"impl runner raised {im!r}"] if isinstance(im, Exception) else compare_case(ctx, c, mo, im, "generated")
            if bad:
                ctx.cov["correspondence_disagreements"] += 1
                corr_broken = True
                disagree_rows += c["rows"]
                if len([b for b in ctx.broken if b["kind"] == "correspondence-broken"]) < 3:
                    ctx.broke("correspondence-broken", bad[0].split(":")[0], "\n".join(bad)[:2500], {"rows": c["rows"], "absent": c["absent"], "conv": c["conv"]})
        # the model's verdicts against the real readers (guard => agreement; agreesb = observed agreement)
        nverd = 0
        for c, im, mo in zip(cases, impl, mouts):
            if isinstance(im, Exception) or any(k_ not in ALLOWED_ABSENT for k_ in c["absent"]) or c["multi"]:
                continue
            bits = mo.split("@@")[2].split("@") if mo.count("@@") == 2 else []
            for r, b in zip(c["rows"], bits):
                if len(b) != 3:
                    continue
                m_expr, m_guard, m_agree = (ch == "1" for ch in b)
                p_expr = expressible(r, tuple(c["absent"]))
                if m_expr != p_expr:
                    corr_broken = True
                    ctx.cov["correspondence_disagreements"] += 1
                    ctx.broke("correspondence-broken", "Model.CifLine.expressible vs harness expressible()", json.dumps(r), {"rows": [r], "absent": [], "conv": c["conv"]})
                    continue
                if not p_expr or not numeric(r):
                    continue
                nverd += 1
                res = row_oracle(r, c["conv"], tuple(c["absent"]))
                # the model compares coordinate TEXT (float() is an oracle there): compare like with like
                observed = res["text_agree"]
                if m_agree != observed or (m_guard and not res["primary_agree"]):
                    corr_broken = True
                    ctx.cov["correspondence_disagreements"] += 1
                    disagree_rows.append(r)
                    if len([x for x in ctx.broken if x["kind"] == "correspondence-broken"]) < 4:
                        ctx.broke("correspondence-broken", "Model.CifLine.agreesb/guard vs real cif.atom_site + pdb.ATOM on the same row",
                                  f"model agreesb={m_agree} guard={m_guard}, real readers agree={observed}", {"rows": [r], "absent": [], "conv": c["conv"]})
        ctx.count("corr:row-verdicts-compared", nverd)

    # offline files, in chunks, both conventions
    data_dir = core.REPO / "tests" / "data"
    fcases = []
    for fn in ("1FAS.cif", "3U7T.cif"):
        p = data_dir / fn
        if not p.exists():
            ctx.notes.append(f"{fn} not found under {data_dir}")
            continue
        size = 120
        chunks, absent, okchars = file_chunks(p, size)
        if not okchars:
            ctx.notes.append(f"{fn}: separator characters in tokens, skipped")
            continue
        for i, ch in enumerate(chunks):
            for conv in CONVS:
                fcases.append({"file": fn, "lo": i * size, "hi": i * size + len(ch), "rows": ch, "absent": list(absent), "conv": conv})
    if fcases and mouts is not None:
        try:
            fouts = core.run_cases("C10f", HEADER, [f"show_outcome (atom_site {MV[c['conv']]} {core.coq_list([coq_row(r, c['absent']) for r in c['rows']])})" for c in fcases], chunk=2)
        except core.CoqEvalError as e:
            fouts = None
            corr_broken = True
            ctx.broke("correspondence-broken", "model evaluation failed on tests/data CIF rows", str(e))
        if fouts is not None:
            for c, mo in zip(fcases, fouts):
                ctx.cov["correspondence_cases"] += 1
                ctx.count(f"corr:{c['conv']}:file:{c['file']}", len(c["rows"]))
                out = impl_atom_site(block_with_rows(data_dir / c["file"], c["lo"], c["hi"], c["conv"]))
                exp = parse_model_outcome(mo)
                if not outcomes_equal(exp, out):
                    ctx.cov["correspondence_disagreements"] += 1
                    corr_broken = True
                    i = 0
                    while i < min(len(exp["recs"]), len(out["recs"])) and exp["recs"][i] == out["recs"][i]:
                        i += 1
                    disagree_rows += c["rows"][max(0, i - 1) : i + 2]
                    if len([b for b in ctx.broken if b["kind"] == "correspondence-broken"]) < 5:
                        ctx.broke("correspondence-broken", f"Model.CifLine.atom_site vs cif.atom_site on {c['file']} rows {c['lo']}..{c['hi']} ({c['conv']})",
                                  f"first difference at record {i}: model={exp['recs'][i] if i < len(exp['recs']) else None!r} impl={out['recs'][i] if i < len(out['recs']) else None!r} exn model={exp['exn']} impl={out['exn']}",
                                  {"file": c["file"], "lo": c["lo"], "hi": c["hi"], "conv": c["conv"]})

    # ---- search on the implementation (model independent) ----------------
    escalate = (not ok) or corr_broken
    srows = []
    for name, r in WITNESSES.items():
        srows.append((name, r, ()))
    for c in corpus:
        for r in c["rows"]:
            srows.append(("corpus", r, tuple(c.get("absent", ()))))
    for r in disagree_rows[:200]:
        srows.append(("disagreeing", r, ()))
    nsearch = (20000 if ctx.thorough else 5000) if escalate else (6000 if ctx.thorough else 700)
    classes = [None, None, None, None, "alt", "name4", "ins", "wide", "occ", "label", "charge", "noauth"]
    for k in range(nsearch):
        srows.append(("gen", gen_row(ctx.rng, classes[k % len(classes)]), None))
    nfail = 0
    for origin, r, absent in srows:
        # non-archive files: the optional auth_atom_id / auth_comp_id columns (and the unread label_asym_id) may be absent
        if absent is None:
            absent = ()
        if origin == "gen" and ctx.rng.random() < 0.15:
            absent = tuple(sorted(ctx.rng.sample(list(ALLOWED_ABSENT), ctx.rng.choice([1, 2, 3]))))
        if not expressible(r, absent) or not numeric(r):
            ctx.evaluated("outside-domain", False)
            continue
        for conv in CONVS:
            res = row_oracle(r, conv, absent)
            key = (conv, absent, r["group_PDB"], len(eff(without(r, absent), "atom_id")), len(eff(without(r, absent), "comp_id")),
                   r["label_atom_id"] == r["auth_atom_id"], r["label_comp_id"] == r["auth_comp_id"], r["label_alt_id"] in (".", "?"),
                   r["pdbx_PDB_ins_code"] in (".", "?"), r["pdbx_formal_charge"],
                   len(r["auth_seq_id"]), max(len(r[k]) for k in ("Cartn_x", "Cartn_y", "Cartn_z")), len(r["occupancy"]))
            ctx.evaluated(key, True)
            ctx.count(f"search:{conv}:" + ("agree" if res["agree"] else "differ:" + res["sig"]["condition"]))
            if not res["agree"]:
                nfail += 1
                ctx.fail(res["sig"], res["what"], {"kind": "row", "row": r, "absent": list(absent), "conv": conv, "origin": origin, **res["detail"]})

    # several models
    nmulti = (1500 if ctx.thorough else 400) if escalate else (600 if ctx.thorough else 120)
    for k in range(nmulti):
        nm = ctx.rng.choice([2, 2, 3])
        labels = [str(i + 1) for i in range(nm)] if ctx.rng.random() < 0.7 else ctx.rng.sample(["1", "2", "5", "10", "999", "9999"], nm)
        rows = []
        for m in labels:
            for _ in range(ctx.rng.choice([1, 2])):
                rows.append(gen_row(ctx.rng, ctx.rng.choice([None] * 6 + ["alt", "ins", "charge", "charge", "label", "noauth", "name4"]), m))
        if ctx.rng.random() < 0.25:
            ctx.rng.shuffle(rows)
        if not all(expressible(r) and numeric(r) for r in rows):
            ctx.evaluated("outside-domain", False)
            continue
        for conv in CONVS:
            res = multi_oracle(rows, conv)
            ctx.evaluated(("multi", conv, nm, len(rows), tuple(r["pdbx_PDB_model_num"] for r in rows) == tuple(sorted(r["pdbx_PDB_model_num"] for r in rows))), True)
            ctx.count(f"search:{conv}:several-models:" + ("agree" if res is None else "differ:" + res[0]["condition"]))
            if res is not None:
                ctx.fail(res[0], res[1], {"kind": "models", "rows": rows, "conv": conv, **res[2]})

    # offline files against a PDB rendering of their own rows (auth_* identifiers)
    for fn in ("1FAS.cif", "3U7T.cif"):
        p = data_dir / fn
        if not p.exists():
            continue
        import pdbx

        with open(p, encoding="utf-8") as fh:
            rows, absent = rows_from_block(pdbx.load(fh)[0])
        step = 1 if (ctx.thorough or escalate) else 7
        for i in range(0, len(rows), step):
            r = rows[i]
            if absent or not expressible(r) or not numeric(r):
                continue
            for conv in CONVS:
                res = row_oracle(r, conv)
                ctx.evaluated((fn, i, conv), True)
                ctx.count(f"search:{conv}:{fn}:" + ("agree" if res["agree"] else "differ:" + res["sig"]["condition"]))
                if not res["agree"]:
                    ctx.fail(res["sig"], res["what"], {"kind": "row", "row": r, "conv": conv, "origin": f"{fn} row {i}", **res["detail"]})

    # the other categories of the file (read_cif level): present / absent / partially filled / missing-value markers,
    # struct_conn partners that are absent from atom_site, present twice (alt-locs) or in several models
    nother = (1200 if ctx.thorough else 400) if escalate else (600 if ctx.thorough else 90)
    for k in range(nother):
        shape = ctx.rng.choice(["plain", "plain", "altloc", "models"])
        rows = [gen_row(ctx.rng, ctx.rng.choice([None] * 6 + ["label", "charge"])) for _ in range(ctx.rng.choice([1, 2, 3]))]
        if shape == "altloc":
            r0 = dict(rows[0], label_alt_id="A")
            rows = [r0, dict(r0, label_alt_id="B", id=str(int(r0["id"]) % 99998 + 1), Cartn_x=gen_coord(ctx.rng, False))] + rows[1:]
        elif shape == "models":
            rows = rows + [dict(r, pdbx_PDB_model_num="2", Cartn_x=gen_coord(ctx.rng, False)) for r in rows]
        absent = ()
        if ctx.rng.random() < 0.15:
            absent = tuple(sorted(ctx.rng.sample(list(ALLOWED_ABSENT), ctx.rng.choice([1, 2]))))
        if not all(expressible(r, absent) and numeric(r) for r in rows):
            ctx.evaluated("outside-domain", False)
            continue
        mode = ["full", "no-optional", "mixed"][k % 3]
        before, after, state, notes = gen_other(ctx.rng, rows, mode)
        for conv in CONVS:
            res = others_oracle(rows, before, after, state, notes, conv, absent)
            ctx.evaluated(("others", conv, mode, shape, absent, tuple(sorted((c_, s_) for c_, s_ in state.items() if s_ != "full")), tuple(notes.get("struct_conn", ()))), True)
            ctx.count(f"others:{conv}:{mode}:" + ("ok" if not res else "fail"))
            for sig, what, det in res:
                ctx.count(f"others:{conv}:{sig['site']}:{sig['condition']}")
                ctx.fail(sig, what, {"kind": "others", "rows": rows, "absent": list(absent), "before": before, "after": after, "state": state,
                                     "notes": notes, "conv": conv, **det})

    # the FILE layer: legal openings / lexical variants of the whole file through io.get_molecule
    file_layer_stage(ctx, escalate)

    # builder structures, both encodings, through io.get_molecule and the whole pipeline
    t0 = time.time()
    nst = 30 if ctx.thorough else (15 if escalate else 8)
    try:
        structs = build_structures(ctx, nst)
    except Exception as e:  # noqa: BLE001
        structs = []
        ctx.notes.append(f"builder failed: {e!r}")
    ffs = ["AMBER", "PARSE", "CHARMM", "SWANSON"]
    for i, st in enumerate(structs):
        for conv in CONVS:
            ff = ffs[i % len(ffs)]
            run_pipeline = True
            try:
                res = e2e_one(ctx, st, conv, ff, run_pipeline)
            except Exception as e:  # noqa: BLE001
                ctx.notes.append(f"end-to-end harness error: {e!r}")
                continue
            ctx.evaluated(("e2e", st["variant"], tuple(st["seq"]), conv, ff), True)
            ctx.count(f"e2e:{conv}:{st['variant']}:" + ("agree" if res is None else "differ:" + res[0]["condition"]))
            if res is not None:
                sig, what, det = res
                ctx.fail(sig, what, {"kind": "structure", **det})
    # the same structures with the other categories of an archive file (struct_conn to absent partners included),
    # and with damaged ones: the result must not change, and nothing may abort
    for i, st in enumerate(structs):
        rows = atoms_to_rows(st["atoms"])
        for mode in (["full", "mixed"] if i % 2 == 0 else ["no-optional", "full"]):
            conv = CONVS[(i + (mode == "mixed")) % 2]
            before, after, state, notes = gen_other(ctx.rng, rows, mode)
            res = others_oracle(rows, before, after, state, notes, conv)
            ctx.evaluated(("e2e-others", st["variant"], tuple(st["seq"]), conv, mode), True)
            for sig, what, det in res:
                ctx.fail(sig, what, {"kind": "others", "rows": rows, "absent": [], "before": before, "after": after, "state": state, "notes": notes, "conv": conv, **det})
            if res:
                ctx.count(f"e2e-others:{conv}:{mode}:handler-raises")
                continue
            from harness import builder as B

            ptxt = B.to_pdb(st["atoms"], serial_start=None, ter=True)
            ctxt = cif_file_text(rows, before, after)
            args = [f"--ff={ffs[i % len(ffs)]}", "--keep-chain"]
            try:
                r2 = e2e_texts(ctx, ptxt, ctxt, rows, conv, args, True, {"variant": st["variant"] + "+others:" + mode, "seq": st["seq"]})
            except Exception as e:  # noqa: BLE001
                ctx.notes.append(f"end-to-end (others) harness error: {e!r}")
                continue
            ctx.count(f"e2e-others:{conv}:{mode}:" + ("agree" if r2 is None else "differ:" + r2[0]["condition"]))
            if r2 is not None:
                ctx.fail(r2[0], r2[1], {"kind": "structure", **r2[2]})
    # ... and through main_driver on a file (PQR atoms, q, r against the PDB file's)
    for i, st in enumerate(structs[: (8 if ctx.thorough or escalate else 4)]):
        xf = gen_xforms(ctx.rng, ctx.rng.randrange(7) if i % 2 == 0 else 99)
        try:
            r3 = file_e2e(ctx, st, xf, ffs[i % len(ffs)])
        except Exception as e:  # noqa: BLE001
            ctx.notes.append(f"file-layer end-to-end harness error: {e!r}")
            continue
        ctx.evaluated(("file-e2e", st["variant"], tuple(sorted(xf))), True)
        ctx.count("file-e2e:" + ("agree" if r3 is None else "fail:" + r3[0]["condition"]))
        if r3 is not None:
            ctx.fail(r3[0], r3[1], r3[2])
    ctx.count("others:handler-raises-absorbed-by-read_cif", OTHERS_STATS["absorbed"])
    ctx.count("others:absorbed-but-not-in-error-list", OTHERS_STATS["absorbed_unreported"])
    ctx.count("e2e:wall_s", int(time.time() - t0))

    # ---- evidence ---------------------------------------------------------
    if cases and mouts is not None:
        ctx.sample({"rows": cases[len(corpus) * 2]["rows"][:2], "conv": cases[len(corpus) * 2]["conv"], "model_output_head": mouts[len(corpus) * 2][:400]})
    w = row_oracle(WITNESSES["w_plain"], "installed")
    if not w["agree"]:
        ctx.sample({"witness": "w_plain (installed mmcif_pdbx)", "signature": w["sig"], "detail": w["detail"]})
    ctx.sample({"obligation": "C10_cif_eq_pdb_partial: forall mv r, guard mv r = true -> both readers succeed and give the atom the row denotes"})
    ctx.trusted += [
        "oracles: mmcif_pdbx tokenisation (rows are taken from its parse; its missing-value convention is the model parameter mv), "
        "Python float() (the model keeps coordinate text; the harness applies float() to it), int() modelled for ASCII [+-]digits",
        "modelled, not verified: cif.atom_site, cif.count_models, pdb.ATOM/HETATM/MODEL.__init__ (hand model Model/CifLine.v, tied by exact "
        "equality of the captured assembled lines, parsed fields and exception types on generated rows and on tests/data/*.cif)",
        "the 'verbatim' convention is EMULATED on the parsed block ('' -> '.', None -> '?'); no second version of mmcif_pdbx is installed",
        "charges and radii: only explored (builder structures through the real pipeline in both encodings), not proved",
    ]
    ctx.assumptions += [
        "ASCII tokens without '|', '@', newline; int()/strip() restricted to ASCII digits / whitespace",
        "PDB side of the comparison = PDB v3.3 ATOM/HETATM record written from auth_* identifiers (as the PDB archive does)",
    ]

    # composition of the C10 (atom_site), C07 (ingest) and C08 (print) models: `pdb2pqr --clean` on mmCIF input
    # end to end (Properties/E2E_CifClean.v), compared byte for byte with the real CLI on .cif and .pdb encodings
    from harness.props import e2e_cifclean

    e2e_cifclean.run_extra(ctx)


def replay(ctx, data):
    from harness.props import e2e_cifclean

    r = e2e_cifclean.replay_extra(ctx, data)
    if r is not None:
        return r
    logging.getLogger("pdb2pqr").setLevel(logging.CRITICAL)
    case = data.get("case") or {}
    if case.get("kind") == "row":
        res = row_oracle(case["row"], case["conv"], tuple(case.get("absent", ())))
        if res["agree"]:
            print("replay: passes (mmCIF row and PDB record read identically)")
            return 0
        print("replay: FAILS:", res["what"], "| signature:", json.dumps(res["sig"]), "|", json.dumps(res["detail"])[:700])
        return 1
    if case.get("kind") == "file":
        ref = pdb_reference(ctx, case["rows"])
        route, fail = file_oracle(ctx, case["rows"], case["text"], case["suffix"], set(case["xf"]), ref)
        print("replay:", ("FAILS: " + fail[1] + " | " + json.dumps(fail[0])) if fail else f"passes (route {route}, records equal the PDB encoding's)")
        ctx.cleanup()
        return 1 if fail else 0
    if case.get("kind") == "file-e2e":
        from harness import builder as B

        d = ctx.scratch_dir()
        rp = B.run_pdb2pqr(case["pdb_text"], case["args"], workdir=d / "fp", log_level=logging.ERROR)
        rc = B.run_pdb2pqr(case["cif_text"], case["args"], workdir=d / "fc", log_level=logging.ERROR, input_name="input" + case["suffix"])
        ok = rp["pqr_text"] is not None and rc["pqr_text"] is not None and [pqr_key(x) for x in B.parse_pqr(rp["pqr_text"])] == [pqr_key(x) for x in B.parse_pqr(rc["pqr_text"])]
        print("replay:", "passes" if ok else f"FAILS: pdb exc={rp['exc']!r} cif exc={rc['exc']!r}")
        ctx.cleanup()
        return 0 if ok else 1
    if case.get("kind") == "others":
        res = others_oracle(case["rows"], case["before"], case["after"], case["state"], case["notes"], case["conv"], tuple(case.get("absent", ())))
        for sig, what, _det in res:
            print("replay: FAILS:", what, "|", json.dumps(sig))
        if not res:
            print("replay: passes (no handler raises; read_cif's coordinate records are atom_site's)")
        return 1 if res else 0
    if case.get("kind") == "models":
        res = multi_oracle(case["rows"], case["conv"])
        print("replay:", "FAILS: " + res[1] + " | " + json.dumps(res[0]) if res else "passes")
        return 1 if res else 0
    if case.get("kind") == "structure":
        res = e2e_texts(ctx, case["pdb_text"], case["cif_text"], case["rows"], case["conv"], case["args"], case.get("run_pipeline", True), {})
        print("replay:", "FAILS: " + res[1] + " | " + json.dumps(res[0]) if res else "passes")
        ctx.cleanup()
        return 1 if res else 0
    # proof / correspondence replays: re-run the disagreeing loop on the implementation and print it
    for b in data.get("broken", []):
        c = b.get("case") or {}
        if "rows" in c:
            out = impl_atom_site(load_block(cif_loop_text(c["rows"], c.get("absent", [])), c.get("conv", "installed")))
            print("replay: implementation gives", json.dumps({"recs": out["recs"], "errs": out["errs"], "exn": out["exn"]})[:1500])
    print("replay: no concrete failing input was recorded (proof or correspondence break); see 'broken' in the replay file")
    return 1
