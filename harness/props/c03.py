"""C03 - no atom is silently lost, duplicated or invented."""

from __future__ import annotations

import logging
import re
import sys

from harness import core

sys.path.insert(0, str(core.VERIF / "gen"))

META = {
    "id": "C03",
    "level": "proof",
    "technique": (
        "Coq proof (reachable-set certificates, sound for every step sequence by induction over the step list) "
        "about an executable name-level model of the four optimisation protocols + generated patch/instance "
        "tables; trace-inclusion tie on monitored real runs; model-independent outer join of input atoms, "
        "final model, PQR lines, unassigned list and log"
    ),
    "level_text": (
        "Proved in Coq for EVERY sequence of protocol steps and oracle answers (any length): Flip, Alcoholic and Water for "
        "ARBITRARY residues - any ordered atom-name list meeting a boolean well-formedness predicate (names distinct, none a "
        "*FLIP/LP*/FLIP placeholder, moveable names among them; Water: not H2 without H1): the residue is never corrupted (no "
        "KeyError, no name collision) and complete leaves exactly the expected names, no duplicate, no placeholder, no hydrogen "
        "missing; the 57 generated table instances (every optimisable residue type x position x terminus charge, regenerated "
        "from /repo each run) meet the predicate. Carboxylic (ASH, GLH + cleanup) is proved per table instance only "
        "(reachable-set certificate, C03_carboxylic_names_partial). Also proved: the name-list abstraction of Residue is exact "
        "while its guards hold (object list + dict stay consistent over any operation sequence; KeyError otherwise); "
        "repair_heavy + add_hydrogens at name level: for every residue and reference, if the placement oracles never fail, "
        "extras outside the reference are exactly the logged deletions and the result is exactly the reference's atoms; for "
        "every amino-acid template the seenmap loop rebuilds a whole missing side chain from N,CA,C,O (generated obligation); "
        "hits++misses is a permutation of the atoms; with --ligand no atom is written twice (C16's theorem); among run-time "
        "patches only 5TERM removes heavy atoms, exactly P,O1P,O2P. NOT proved (explored only): Carboxylic for arbitrary "
        "residues, that the repair loop's fuel always suffices, OP1/OP2 aliasing in repair, and the end-to-end statement, "
        "searched by an outer join on real runs over residue types x positions x protonation variants x options x six force "
        "fields. Refuted in the model: a water arriving with H2 but no H1 never gets H1 (real run aborts loudly). "
        "END TO END at name level (C03_pipeline_written_set): pipeline_names composes terminus patches -> repair_heavy -> "
        "add_hydrogens -> the protocol of the residue's kind -> cleanup -> HIS.set_state -> partition by force-field entry; for "
        "ALL inputs meeting the boolean guards, ALL label lists, never-failing placement oracles and ANY fully parameterising "
        "entry predicate the written names are exactly the expected final-state names (no hydrogen missing, no duplicate, no "
        "placeholder, nothing unassigned), logged deletions are exactly the names outside the reference and every input heavy "
        "reference atom occurs once; --clean / --assign-only add nothing. Instantiated on the maps C01 builds for the six force "
        "fields over 53 generated cases (33 fully parameterised each, 53 for PARSE). Partial there: Carboxylic protocol stage per "
        "table instance only; state patches after repair (CYX, pKa) are modelled and tied but outside the theorem."
    ),
    "level_note": (
        "Trusted: Coq kernel+vm_compute; gen/c03_table.py (ast scan of apply_patch literals, instance observation through "
        "the monitor, get_nearest_bonds cross-checked against a re-statement); the hand model Model/NameProtocol.v, tied to "
        "hydrogens/structures.py by trace inclusion on monitored real runs (per unit call: emitted create/remove/rename "
        "sequence equal, final names equal) incl. runs whose is_hbond answers are vetoed or coin-flipped and DRIVEN walks that "
        "take real protocol objects to every reachable ordered name state of the model; tied to Biomolecule.repair_heavy / "
        "add_hydrogens per residue (ordered names after, logged extras, ValueError text) on every monitored run, and END TO END "
        "per residue: pipeline_names on the residue's input names + the observed protocol labels vs final names, PQR names, "
        "unassigned names and logged deletions of the real run (every amino/water residue of every monitored run, ~1850 per "
        "quick run, ~400 distinct evaluated in Coq); the monitors "
        "(monkeypatches); oracle assumption: Carboxylic.finalize finds a hydrogen with energy < 999.99 whenever hlist is non-empty."
    ),
    "design_ref": "DESIGN.md 4 C03",
}

THEOREMS = [
    "C03_certificate_sound",
    "C03_good_names_meaning",
    "C03_flip_names",
    "C03_alcoholic_names",
    "C03_water_names",
    "C03_flip_names_table",
    "C03_alcoholic_names_table",
    "C03_water_names_table",
    "C03_carboxylic_names_partial",
    "C03_flip_nohb_table",
    "C03_water_nohb_table",
    "C03_water_names_refuted",
    "C03_split_hidden_ends",
    "C03_residue_init_nodup",
    "C03_residue_init_layers",
    "C03_layers_agree",
    "C03_layer_keyerror",
    "C03_repair_add_complete",
    "C03_rebuild_templates_table",
    "C03_pipeline_written_set",
    "C03_pipeline_written_set_lookup",
    "C03_pipeline_written_set_AMBER",
    "C03_pipeline_written_set_CHARMM",
    "C03_pipeline_written_set_PARSE",
    "C03_pipeline_written_set_PEOEPB",
    "C03_pipeline_written_set_SWANSON",
    "C03_pipeline_written_set_TYL06",
    "C03_pipeline_ff_nonvacuous",
    "C03_pipeline_clean",
    "C03_pipeline_assign_only",
    "C03_pipeline_carboxylic_partial",
    "C03_partition_no_loss_no_dup",
    "C03_ligand_step_once",
    "C03_patch_removals_table",
    "C03_nonvacuous",
    "C03_nonvacuous_repair",
]
HEADER = (
    "From Coq Require Import String List Bool.\nFrom PV Require Import Lib.Strings Model.NameProtocol.\n"
    "Import ListNotations.\nOpen Scope string_scope.\n"
)

FFS = ["AMBER", "CHARMM", "PARSE", "TYL06", "PEOEPB", "SWANSON"]
PLACEHOLDER = re.compile(r"(FLIP$)|(^LP)")
STATE_PATCHES = ("ASH", "GLH", "CYM", "CYX", "LYN", "TYM", "AR0", "HIP", "HID", "HIE", "HSD", "HSE", "HSP")
TITRATABLE = ("ARG", "ASP", "CYS", "GLU", "HIS", "LYS", "TYR")


def S(s):
    return core.coq_string(s)


def L(items):
    return "[" + "; ".join(items) + "]"


def op_term(o):
    if o[0] == "create":
        return f"Create {S(o[1])}"
    if o[0] == "remove":
        return f"Remove {S(o[1])}"
    return f"Rename {S(o[1])} {S(o[2])}"


def ops_term(ops):
    return L(op_term(o) for o in ops)



# --------------------------------------------------------------------------
# correspondence 0: the residue constructors (dedupe after the alias rename)


def _alt_table(resname):
    from harness import builder as B

    d = B.definitions().map.get(resname)
    return dict(d.altnames) if d is not None else {}


def constructor_cases(ctx, n):
    """Record lists with alias spellings, alt-loc copies, alias + canonical, two aliases of one
    atom, repeated records - for amino acids, nucleotides and water - through the real
    reader + Biomolecule (create_residue -> Amino/Nucleic/WAT.__init__)."""
    from dataclasses import replace

    from harness import builder as B

    rng = ctx.rng
    pep = B.build_peptide(["GLY", "ILE", "GLY", "THR", "GLY", "ASN", "GLY"], chain="A")
    dna = B.build_strand("ACGT", chain="B")
    rna = B.build_strand("ACGU", chain="C", rna=True)
    wat = B.waters(2, around=pep + dna + rna, chain="W", hydrogens=True)
    base = pep + dna + rna + wat
    groups = B.residues_of(base)
    cases = []
    for k in range(n):
        new = []
        picked = []
        for g in groups:
            rn = g[0].resname
            alt = _alt_table(rn if rn not in ("A", "C", "G", "U") else "R" + rn)
            inv = {}
            for a_, c_ in alt.items():
                if len(a_) <= 4:
                    inv.setdefault(c_, []).append(a_)
            recs = []
            for a in g:
                r = rng.random()
                spell = [a.name] + inv.get(a.name, [])
                if r < 0.70 or rn == "GLY":
                    recs.append(a)
                elif r < 0.80:  # alias spelling only
                    recs.append(replace(a, name=rng.choice(spell)))
                elif r < 0.90:  # two alt-loc copies under (possibly different) spellings
                    recs.append(replace(a, name=rng.choice(spell), altloc="A"))
                    recs.append(replace(a.at(a.xyz + 0.3), name=rng.choice(spell), altloc="B"))
                else:  # repeated record later in the residue
                    recs.append(a)
                    recs.append(replace(a.at(a.xyz + 0.2), name=rng.choice(spell)))
            if rng.random() < 0.3:
                rng.shuffle(recs)
            new += recs
            picked.append((g[0].chain, g[0].resseq, rn, [x.name for x in recs]))
        text = B.to_pdb(new, strict=False)
        try:
            bio = B.setup_biomolecule(text, termini=False)["biomolecule"]
        except Exception as e:  # noqa: BLE001
            ctx.count("constructor-case-raised:" + type(e).__name__)
            continue
        byk = {(r.chain_id, r.res_seq): r for r in bio.residues}
        for ch, rs, rn, names in picked:
            res = byk.get((ch, rs))
            if res is None or len(names) == len(set(names)) and not (set(names) & set(_alt_table(res.name))):
                continue
            alt = _alt_table(res.name)
            real = " ".join(a.name for a in res.atoms)
            term = f"show_names (residue_init {L('(' + S(o) + ', ' + S(c) + ')' for o, c in alt.items() if o in names)} {L(map(S, names))})"
            cases.append((term, real, {"what": "residue_init", "residue": f"{rn} {ch} {rs}", "records": names, "pdb": text}))
    return cases

# --------------------------------------------------------------------------
# correspondence 1: Residue operations vs layer 1 of the model


def residue_op_cases(ctx, n):
    """Random create/remove/rename sequences (small name pool, so collisions,
    renames onto existing names and rename x->x occur) on a real aa residue."""
    from harness import builder as B

    pep = B.build_peptide(["GLY", "ALA", "GLY"])
    text = B.to_pdb(pep)
    cases = []
    pool = ["CA", "N", "X1", "X2", "X3", "HD11", "HD1", "FLIP", "LP1"]
    for k in range(n):
        bio = B.setup_biomolecule(text)["biomolecule"]
        res = bio.residues[1]
        start = [a.name for a in res.atoms]
        ops = []
        raised = False
        for _ in range(ctx.rng.randint(1, 9)):
            kind = ctx.rng.choice(["create", "create", "remove", "rename", "rename"])
            cur = [x.name for x in res.atoms]
            a = ctx.rng.choice(cur) if (kind != "create" and cur and ctx.rng.random() < 0.85) else ctx.rng.choice(pool + start[:3])
            b = ctx.rng.choice(pool)
            ops.append((kind, a, b))
            try:
                if kind == "create":
                    res.create_atom(a, [0.0, 0.0, 0.0])
                elif kind == "remove":
                    res.remove_atom(a)
                else:
                    res.rename_atom(a, b)
            except KeyError:
                raised = True
                ops_done = ops
                break
        probes = sorted(set(pool + start))
        names = [a.name for a in res.atoms]
        mp = []
        for p in probes:
            at = res.map.get(p)
            if at is None:
                mp.append("-")
            else:
                idx = [i for i, x in enumerate(res.atoms) if x is at]
                mp.append(str(idx[0]) if idx and idx[0] < 10 else ("?" if not idx else chr(48 + idx[0])))
        impl = ("KeyError " if raised else "ok ") + " ".join(names) + " | " + " ".join(mp)
        rops = [f"RCreate {S(x)}" for x in start]
        for kind, a, b in ops:
            rops.append(f"RCreate {S(a)}" if kind == "create" else (f"RRemove {S(a)}" if kind == "remove" else f"RRename {S(a)} {S(b)}"))
        term = f"show_res {L(S(p) for p in probes)} (res_run_upto res_empty {L(rops)})"
        cases.append({"ops": ops, "start": start, "impl": impl, "term": term})
        ctx.count("residue-ops:" + ("keyerror" if raised else "ok"))
    return cases


# --------------------------------------------------------------------------
# structures


def build_structures(ctx):
    """[(tag, atoms, meta)] - builder structures rich in optimisable residues."""
    import numpy as np

    from harness import builder as B

    rng = ctx.rng
    nrng = np.random.default_rng(rng.randrange(1 << 30))
    out = []
    aas = list(B.STANDARD_AA)

    def chainset(seqs, origin_step=45.0, variants=None):
        atoms = []
        for k, seq in enumerate(seqs):
            atoms += B.build_peptide(seq, chain="ABCDEFGH"[k], origin=(0.0, origin_step * k, 0.0))
        return atoms

    # 1. all 20 residues, each at N / internal / C over three rotations
    order = aas[:]
    rng.shuffle(order)
    for rot in range(3):
        seqs = []
        for c in range(4):
            part = order[c * 5 : c * 5 + 5]
            part = part[rot % 5 :] + part[: rot % 5]
            if rot == 2:
                part = part[::-1]
            seqs.append(part)
        out.append((f"all20-rot{rot}", chainset(seqs), {}))
    # 2. optimisable-rich peptides with waters placed to hydrogen-bond
    opt = ["ASN", "GLN", "HIS", "SER", "THR", "TYR", "CYS", "ASP", "GLU", "ASH", "GLH", "HID", "HIE", "HIP", "LYS", "ARG"]
    for k in range(3):
        seq = [rng.choice(opt) for _ in range(7)]
        pep = B.build_peptide(seq, chain="A", helix=(k == 1))
        polar = [a for a in pep if a.name in ("OG", "OG1", "OH", "OD1", "OD2", "OE1", "OE2", "ND2", "NE2", "ND1", "SG")]
        wat = []
        for j, a in enumerate(polar[:4]):
            wat += B.waters(1, around=pep + wat, chain="W", start=j + 1, near=a, near_dist=2.8, rng=nrng, hydrogens=(j % 2 == 1))
        wat += B.waters(3, around=pep + wat, chain="W", start=20, rng=nrng)
        out.append((f"optrich{k}:" + "-".join(seq), pep + wat, {}))
    # 3. pre-named variants at every position
    var = ["ASH", "GLH", "HID", "HIE", "HIP", "CYM", "LYN", "TYM"]
    rng.shuffle(var)
    out.append(("variants-a", chainset([var[0:3], var[3:6], [var[6], "ALA", var[7]]]), {}))
    out.append(("variants-b", chainset([[var[2], var[0], var[1]], [var[5], var[3], var[4]], [var[7], var[6], "GLY"]]), {}))
    # 2b. flippable residues with a water next to each side-chain N/O
    pep = B.build_peptide(["ASN", "GLN", "HIS", "ALA", "ASN", "HIE", "GLN", "HID"], chain="A")
    polar = [a for a in pep if a.name in ("OD1", "ND2", "OE1", "NE2", "ND1") and a.resname != "ALA"]
    wat = []
    for j, a in enumerate(polar):
        wat += B.waters(1, around=pep + wat, chain="W", start=j + 1, near=a, near_dist=2.9, rng=nrng)
    out.append(("fliprich", pep + wat, {}))
    # 2c. a hydroxyl/thiol that accepts two N-H donors (both lone pairs built) / donates and accepts
    for tgt, on, bn in (("SER", "OG", "CB"), ("THR", "OG1", "CB"), ("TYR", "OH", "CZ"), ("CYS", "SG", "CB")):
        for dist in (2.8, 3.0, 3.2):
            out.append((f"twodonor-{tgt}-{dist}", hydroxyl_with_donors(tgt, on, bn, 2, nrng, dist=dist), {}))
        out.append((f"donacc-{tgt}", hydroxyl_with_donors(tgt, on, bn, 1, nrng, water=True), {}))
    # 3b. carboxylic acids with one C-O bond 0.12 A longer (Carboxylic.__init__ longflag paths)
    from dataclasses import replace as _rep

    for which in ("1", "2"):
        pep = B.build_peptide(["ASH", "ALA", "GLH", "SER", "ASH", "GLY", "GLH"], chain="A")
        new = []
        for a in pep:
            if a.name in ("OD" + which, "OE" + which):
                c = [x for x in pep if x.resseq == a.resseq and x.name == ("CG" if a.name.startswith("OD") else "CD")][0]
                v = a.xyz - c.xyz
                a = a.at(c.xyz + v * (1.0 + 0.12 / float((v ** 2).sum() ** 0.5)))
            new.append(a)
        polar = [a for a in new if a.name in ("OD1", "OD2", "OE1", "OE2")]
        wat = []
        for j, a in enumerate(polar[:3]):
            wat += B.waters(1, around=new + wat, chain="W", start=j + 1, near=a, near_dist=2.8, rng=nrng)
        out.append((f"carboxyl-long-O{which}", new + wat, {}))
    # 4. disulfide
    a, b = B.disulfide_pair(2.04, seq=("SER", "CYS", "THR"))
    out.append(("disulfide", a + b, {}))
    # 5. nucleic acids
    for rna in (False, True):
        for fpp in (False, True):
            for pn in ("OP", "O_P"):
                if rng.random() < 0.5 and not (fpp and pn == "OP"):
                    continue
                s = B.build_strand("ACGU" if rna else "ACGT", rna=rna, five_prime_phosphate=fpp, phosphate_names=pn)
                out.append((f"{'rna' if rna else 'dna'}-5p{int(fpp)}-{pn}", s, {"phos": pn}))
    # 6. extra atoms and missing heavy atoms
    pep = B.build_peptide(["SER", "LEU", "ASN", "PHE", "THR"], chain="A")
    extra = [r for r in pep if r.resseq == 2 and r.name == "CB"][0]
    from dataclasses import replace

    xa = replace(extra.at(extra.xyz + 0.9), name="XX1", element="C")
    xh = replace(extra.at(extra.xyz - 0.9), name="HX9", element="H")
    def with_extra(lst):
        k = max(i for i, r in enumerate(lst) if r.resseq == 2)
        return lst[: k + 1] + [xa, xh] + lst[k + 1 :]

    out.append(("extra-nomissing", with_extra(pep), {"extra": [("A", 2, "XX1"), ("A", 2, "HX9")]}))
    miss = [r for r in pep if not (r.resseq == 4 and r.name in ("CE1", "CZ")) and not (r.resseq == 3 and r.name == "ND2")]
    out.append(("missing-heavy", miss, {"missing": True}))
    out.append(("extra+missing", with_extra(miss), {"extra": [("A", 2, "XX1"), ("A", 2, "HX9")], "missing": True}))
    # 6b. alias spellings and alt-loc copies (ILE CD twice; CD + CD1; C5* twice; O4* + O4'; C5M twice)
    pal = B.build_peptide(["ALA", "ILE", "SER", "ILE", "GLY"], chain="A")
    al = []
    for a in pal:
        if a.resname == "ILE" and a.name == "CD1" and a.resseq == 2:
            al += [replace(a, name="CD", altloc="A"), replace(a.at(a.xyz + 0.25), name="CD", altloc="B")]
        elif a.resname == "ILE" and a.name == "CD1" and a.resseq == 4:
            al += [a, replace(a.at(a.xyz + 0.25), name="CD")]
        else:
            al.append(a)
    out.append(("alias-altloc-pep", al, {"alias": True}))
    sal = []
    for a in B.build_strand("ATGT", chain="B"):
        if a.name == "C5'" and a.resseq == 2:
            sal += [replace(a, name="C5*", altloc="A"), replace(a.at(a.xyz + 0.25), name="C5*", altloc="B")]
        elif a.name == "O4'" and a.resseq == 3:
            sal += [replace(a, name="O4*"), replace(a.at(a.xyz + 0.25), name="O4'")]
        elif a.name == "C7" and a.resseq == 4:
            sal += [replace(a, name="C5M", altloc="A"), replace(a.at(a.xyz + 0.25), name="C5M", altloc="B")]
        else:
            sal.append(a)
    out.append(("alias-altloc-dna", sal, {"alias": True}))
    # 6c. hydrogen-carrying inputs: built with hydrogens, an NMR file of the repo, pdb2pqr's own
    # --pdb-output re-fed (charged termini written, neutral termini asked next)
    hp = B.build_peptide(["ILE", "SER", "HIS", "ASP", "LYS", "CYS", "TYR", "GLY"], chain="A", hydrogens=True)
    out.append(("hyd-built", hp, {"hyd": True}))
    try:
        t1 = (core.REPO / "tests" / "data" / "1A1P.pdb").read_text()
        out.append(("hyd-1A1P", atoms_from_pdb(t1), {"hyd": True, "text": t1}))
    except OSError:
        pass
    try:
        import tempfile

        with tempfile.TemporaryDirectory(prefix="pv_c03_refeed_") as wd:
            hp0 = B.build_peptide(["THR", "ASN", "CYS", "GLU", "ARG", "PRO", "TRP"], chain="A")
            rr = B.run_pdb2pqr(B.to_pdb(hp0), ["--ff=PARSE", f"--pdb-output={wd}/o.pdb"], workdir=wd)
            if rr["exc"] is None:
                t2 = open(f"{wd}/o.pdb").read()
                out.append(("hyd-refed", atoms_from_pdb(t2), {"hyd": True, "text": t2}))
    except Exception:  # noqa: BLE001
        pass
    # 6d. nucleotides with partial phosphates and mixed phosphate spellings
    for rna in (False, True):
        s0 = B.build_strand("ACGU" if rna else "ACGT", chain="B", rna=rna, phosphate_names="OP")
        v = []
        for a in s0:
            if a.resseq == 2 and a.name == "OP2":
                continue  # truncated phosphate
            if a.resseq == 3 and a.name == "OP2":
                a = replace(a, name="O2P")  # mixed spelling inside one residue
            if a.resseq == 4 and a.name == "C5'":
                a = replace(a, name="C5*")
            v.append(a)
        out.append((f"na-partial-{'rna' if rna else 'dna'}", v, {"phos": "OP", "missing": True}))
    s1 = [a for a in B.build_strand("ACGT", chain="B", phosphate_names="O_P") if not (a.resseq == 3 and a.name == "O1P")]
    out.append(("na-partial-O_P", s1, {"phos": "O_P", "missing": True}))
    # 6e. layouts: residue numbering, short chains, undefined residues, waters under the polymer's chain ID
    base8 = B.build_peptide(["SER", "LEU", "ASN", "GLY", "THR", "LYS"], chain="A", start=-2)
    out.append(("layout-negnum", base8, {}))
    out.append(("layout-3digit-high", [replace(a, resseq=990 + a.resseq) for a in base8], {}))
    one = B.build_peptide(["ALA"], chain="B", origin=(0.0, 30.0, 0.0))
    two = B.build_peptide(["SER", "GLY"], chain="C", origin=(0.0, 60.0, 0.0))
    out.append(("layout-short-chains", B.build_peptide(["VAL", "ASN", "GLY"], chain="A") + one + two, {}))
    for posn, lab in ((1, "first"), (3, "middle"), (6, "last")):
        un = B.build_peptide(["ALA", "SER", "ALA", "GLN", "GLY", "ALA"], chain="A")
        un = [replace(a, resname="DAL", record="HETATM") if a.resseq == posn else a for a in un]
        out.append((f"layout-undefined-{lab}", un, {"undefined": True}))
    pw = B.build_peptide(["SER", "HIS", "GLY", "TYR"], chain="A")
    ww = [replace(a, chain="A", resseq=100 + a.resseq) for a in B.waters(3, around=pw, chain="W", rng=nrng)]
    out.append(("layout-water-samechain-after", pw + ww, {}))
    out.append(("layout-water-samechain-before", ww + pw, {}))
    # 6f. 1..4 strands under ONE chain ID, separated only by hidden chain ends (OXT on the strand's last
    # residue; nucleotides: a 3' H3T), written without any TER and with a TER after every strand
    for kst in (1, 2, 3, 4):
        strands = []
        for s_ in range(kst):
            seq_ = [["SER", "ALA", "GLY"], ["ASN", "LEU", "GLY", "THR"], ["GLY", "HIS", "ALA"], ["LYS", "GLY", "SER"]][s_]
            strands.append(B.build_peptide(seq_, chain="A", start=1 + 10 * s_, origin=(0.0, 40.0 * s_, 0.0), cterm_oxt=True))
        flat = [a for s_ in strands for a in s_]
        out.append((f"hidden-ends-{kst}-noter", flat, {"text": B.to_pdb(flat, ter=False), "hidden": kst}))
        if kst > 1:
            out.append((f"hidden-ends-{kst}-ter", flat, {"text": B.to_pdb(strands), "hidden": kst}))
    try:
        ns_ = []
        for s_ in range(3):
            st = B.build_strand("ACG", chain="B", start=1 + 10 * s_, origin=(0.0, 0.0, 60.0 * s_), hydrogens=True)
            ns_ += st
        if any(a.name == "H3T" for a in ns_):
            out.append(("hidden-ends-na-3", ns_, {"text": B.to_pdb(ns_, ter=False), "hidden": 3, "hyd": True}))
    except Exception:  # noqa: BLE001
        pass
    # 7. random side-chain deletions (whole side chains too) on a 20-residue peptide, one unknown atom
    for k in range(3):
        seq = aas[:]
        rng.shuffle(seq)
        pep2 = B.build_peptide(seq, chain="A")
        side = [a for a in pep2 if a.name not in ("N", "CA", "C", "O", "OXT")]
        kill = set()
        whole = rng.choice([r for r in range(2, 20) if seq[r - 1] not in ("GLY", "ALA")])
        if k == 1:
            kill |= {(a.resseq, a.name) for a in side if a.resseq == whole and a.name != "CB"}
        for a in rng.sample(side, 4):
            kill.add((a.resseq, a.name))
        kept = [a for a in pep2 if (a.resseq, a.name) not in kill]
        anchor = [a for a in kept if a.resseq == 7 and a.name == "CA"][0]
        xb = replace(anchor.at(anchor.xyz + 1.1), name="XQ", element="C")
        kk = max(i for i, a in enumerate(kept) if a.resseq == 7)
        kept = kept[: kk + 1] + [xb] + kept[kk + 1 :]
        out.append((f"missing-rand{k}", kept, {"extra": [("A", 7, "XQ")], "missing": True}))
    # 7b. an N-terminal residue that lost its backbone: the rebuild loop has to defer atoms
    seqd = ["LYS", "GLY", "SER", "LEU", "ARG", "VAL", "ALA", "GLU", "PHE", "ALA", "GLY", "ALA", "LEU", "ALA", "VAL", "ALA", "THR", "ALA", "GLY", "ALA"]
    pd = B.build_peptide(seqd, chain="A")
    out.append(("missing-deferral", [a for a in pd if not (a.resseq == 1 and a.name in ("N", "CA", "C", "O", "CB", "CE"))], {"missing": True}))
    # 8. a backbone atom missing as well (repair may have to give up)
    out.append(("missing-backbone", [a for a in pep if not (a.resseq == 3 and a.name in ("CA", "CB", "CG"))], {"missing": True}))
    return out



def _unit(v):
    import numpy as np

    return v / np.linalg.norm(v)


def _rodrigues(axis, deg):
    import math

    import numpy as np

    a = _unit(axis)
    th = math.radians(deg)
    K = np.array([[0, -a[2], a[1]], [a[2], 0, -a[0]], [-a[1], a[0], 0]])
    return np.eye(3) + math.sin(th) * K + (1 - math.cos(th)) * (K @ K)


def _rot_to(a, b):
    import math

    import numpy as np

    a, b = _unit(a), _unit(b)
    v = np.cross(a, b)
    c = float(a @ b)
    if np.linalg.norm(v) < 1e-9:
        if c > 0:
            return np.eye(3)
        p = np.cross(a, [1.0, 0, 0]) if abs(a[0]) < 0.9 else np.cross(a, [0, 1.0, 0])
        return _rodrigues(p, 180)
    return _rodrigues(v, math.degrees(math.atan2(np.linalg.norm(v), c)))


def hydroxyl_with_donors(target, oname, bname, ndonors, nrng, water=False, dist=2.9):
    """GLY-X-GLY whose hydroxyl/thiol atom receives `ndonors` backbone N-H donors: GLY-GLY-GLY
    strands placed so that the middle amide N sits 2.9 A from the oxygen on one of its free
    tetrahedral positions with the N-H bisector pointing at it (azimuth and spin scanned for
    the largest clearance); optionally a water next to the oxygen as well."""
    import math

    import numpy as np

    from harness import builder as B

    pep = B.build_peptide(["GLY", target, "GLY"], chain="A")
    og = [a for a in pep if a.resseq == 2 and a.name == oname][0]
    cb = [a for a in pep if a.resseq == 2 and a.name == bname][0]
    axis = _unit(og.xyz - cb.xyz)
    perp0 = _unit(np.cross(axis, [1.0, 0, 0]) if abs(axis[0]) < 0.9 else np.cross(axis, [0, 1.0, 0]))
    th = math.radians(70.5)
    placed = list(pep)
    phi0 = None
    for si in range(ndonors):
        s = B.build_peptide(["GLY", "GLY", "GLY"], chain="BC"[si])
        n = [a for a in s if a.resseq == 2 and a.name == "N"][0].xyz
        cp = [a for a in s if a.resseq == 1 and a.name == "C"][0].xyz
        ca = [a for a in s if a.resseq == 2 and a.name == "CA"][0].xyz
        bis = _unit(_unit(n - cp) + _unit(n - ca))
        base = np.array([a.xyz for a in placed])
        best = None
        for phi in range(0, 360, 15):
            if phi0 is not None and abs(((phi - phi0 + 180) % 360) - 180) < 100:
                continue
            d = axis * math.cos(th) + (_rodrigues(axis, phi) @ perp0) * math.sin(th)
            r0 = _rot_to(bis, -d)
            for psi in range(0, 360, 20):
                rm = _rodrigues(d, psi) @ r0
                tv = og.xyz + dist * d - rm @ n
                xs = np.array([rm @ a.xyz + tv for a in s])
                dd = np.sqrt(((xs[:, None, :] - base[None, :, :]) ** 2).sum(-1))
                md = np.sort(dd.ravel())[1]
                if best is None or md > best[0]:
                    best = (md, phi, rm, tv)
        _md, phi, rm, tv = best
        if phi0 is None:
            phi0 = phi
        placed += [a.at(rm @ a.xyz + tv) for a in s]
    if water:
        placed += B.waters(1, around=placed, chain="W", near=og, near_dist=2.8, rng=nrng)
    return placed


def atoms_from_pdb(text):
    """AtomRec list of the first model of a PDB text (fixed columns)."""
    from harness import builder as B

    out = []
    for ln in text.splitlines():
        if ln.startswith("ENDMDL"):
            break
        if not ln.startswith(("ATOM", "HETATM")):
            continue
        try:
            out.append(B.AtomRec(record=ln[:6].strip(), serial=int(ln[6:11]), name=ln[12:16].strip(), altloc=ln[16].strip(),
                                 resname=ln[17:20].strip(), chain=ln[21].strip(), resseq=int(ln[22:26]), icode=ln[26].strip(),
                                 x=float(ln[30:38]), y=float(ln[38:46]), z=float(ln[46:54]), element=ln[76:78].strip()))
        except ValueError:
            continue
    return out


OPTION_SETS = [
    [],
    ["--nodebump"],
    ["--noopt"],
    ["--nodebump", "--noopt"],
    ["--assign-only"],
    ["--clean"],
    ["--drop-water"],
    ["--neutraln", "--neutralc"],
    ["PH"],
]


class RunResult:
    pass


def run_structure(ctx, atoms, opts, ff, veto=None, monitor=True, phrng=None, text=None, extra=()):
    """One monitored pdb2pqr run. Returns dict."""
    import c03_table as G
    from harness import builder as B
    from pdb2pqr import main as pmain
    from pdb2pqr.hydrogens import optimize as hopt
    from pdb2pqr.hydrogens import structures as hs

    args = [f"--ff={ff}", "--keep-chain"]
    use_ph = "PH" in opts
    args += [o for o in opts if o not in ("PH", "PDBOUT")]
    pdbout = None
    if "PDBOUT" in opts:
        pdbout = ctx.scratch_dir() / "out_model.pdb"
        if pdbout.exists():
            pdbout.unlink()
        args.append(f"--pdb-output={pdbout}")
    if "--neutraln" in opts and ff != "PARSE":
        args = [a for a in args if a not in ("--neutraln", "--neutralc")]
    saved = []
    if use_ph:
        args += ["--titration-state-method=propka", "--with-ph=7.0"]
        orig_rp = pmain.run_propka

        def fake_propka(a, biomolecule):
            rows = []
            for res in biomolecule.residues:
                if res.name in TITRATABLE:
                    rows.append({"res_name": res.name, "res_num": res.res_seq, "chain_id": res.chain_id, "ins_code": res.ins_code,
                                 "group_label": f"{res.name} {res.res_seq} {res.chain_id}", "pKa": phrng.choice([0.5, 6.0, 8.0, 13.5])})
            return rows, ""

        pmain.run_propka = fake_propka
        saved.append((pmain, "run_propka", orig_rp))
    if veto is not None:
        o1 = hopt.Optimize.is_hbond
        o2 = hs.Carboxylic.is_carboxylic_hbond

        free = getattr(veto, "free", False)

        def is_hbond(self, donor, acc, _o=o1):
            if free:
                return veto.random() < 0.5
            r = _o(self, donor, acc)
            return r and veto.random() < 0.6

        def is_chb(self, donor, acc, _o=o2):
            if free:
                return veto.random() < 0.5
            r = _o(self, donor, acc)
            return r and veto.random() < 0.6

        hopt.Optimize.is_hbond = is_hbond
        hs.Carboxylic.is_carboxylic_hbond = is_chb
        saved += [(hopt.Optimize, "is_hbond", o1), (hs.Carboxylic, "is_carboxylic_hbond", o2)]
        if free:
            # every angle test passes: the answers of is_hbond alone decide the path
            o3 = hopt.Optimize.__dict__["get_hbond_angle"]
            hopt.Optimize.get_hbond_angle = staticmethod(lambda a1, a2, a3: 5.0)
            saved.append((hopt.Optimize, "get_hbond_angle", o3))
    args += list(extra)
    if text is None:
        text = B.to_pdb(atoms)
    mon = G.Monitor()
    rmon = RepairMonitor()
    try:
        if monitor:
            with mon.active(), rmon.active():
                r = B.run_pdb2pqr(text, args, workdir=ctx.scratch_dir())
        else:
            r = B.run_pdb2pqr(text, args, workdir=ctx.scratch_dir())
    finally:
        for obj, name, old in saved:
            setattr(obj, name, old)
    r["rmon"] = rmon
    r["args"] = args
    r["pdb_output_text"] = pdbout.read_text() if (pdbout is not None and pdbout.exists()) else None
    r["free"] = bool(veto is not None and getattr(veto, "free", False))
    r["mon"] = mon
    r["pdb_text"] = text
    return r



# --------------------------------------------------------------------------
# repair_heavy / add_hydrogens accounting: real per-residue effect vs the model


class RepairMonitor:
    """Wraps Biomolecule.repair_heavy and add_hydrogens; per amino residue records the names
    before and after, what the reference offers, and what was logged."""

    def __init__(self):
        self.repair = []  # dicts
        self.addh = []
        self.addh_raised = 0
        self.splits = []

    def active(self):
        import contextlib

        from pdb2pqr import aa, biomolecule
        from pdb2pqr import na as na_

        mon = self

        @contextlib.contextmanager
        def cm():
            o_rep = biomolecule.Biomolecule.repair_heavy
            o_add = biomolecule.Biomolecule.add_hydrogens
            lg = logging.getLogger("pdb2pqr.biomolecule")

            class H(logging.Handler):
                def __init__(self):
                    super().__init__(logging.WARNING)
                    self.msgs = []

                def emit(self, record):
                    self.msgs.append(record.getMessage())

            def snap(bio):
                out = []
                for res in bio.residues:
                    if not isinstance(res, (aa.Amino, na_.Nucleic)):
                        continue
                    ref = res.reference
                    near = {}
                    for an in ref.map:
                        try:
                            near[an] = list(ref.get_nearest_bonds(an))
                        except KeyError:
                            pass
                    out.append({"res": res, "key": str(res), "before": [a.name for a in res.atoms], "ref": list(ref.map.keys()), "near": near,
                                "pn": getattr(res, "peptide_n", None) is not None, "pc": getattr(res, "peptide_c", None) is not None,
                                "ssb": bool(isinstance(res, aa.CYS) and res.ss_bonded)})
                return out

            def repair(self_):
                h = H()
                old = lg.level
                lg.addHandler(h)
                lg.setLevel(logging.WARNING)
                try:
                    anym = self_.num_missing_heavy > 0
                finally:
                    pass
                recs = snap(self_)
                h.msgs.clear()
                err = None
                try:
                    return o_rep(self_)
                except ValueError as e:
                    err = str(e)
                    raise
                finally:
                    lg.removeHandler(h)
                    lg.setLevel(old)
                    for r in recs:
                        r["after"] = [a.name for a in r["res"].atoms]
                        r["any_missing"] = anym
                        r["logged"] = [m.split()[2] for m in h.msgs if m.startswith("Extra atom ") and m.split(" in ", 1)[1].startswith(r["key"] + "!")]
                        r["error"] = err if (err and f"residue {r['key']} in structure" in err) else None
                        del r["res"]
                    # residues after the raising one were not processed
                    if err:
                        k = [i for i, r in enumerate(recs) if r["error"]]
                        recs = recs[: k[0] + 1] if k else []
                    mon.repair += recs

            def addh(self_, hlist=None):
                h = H()
                old = lg.level
                lg.addHandler(h)
                lg.setLevel(logging.WARNING)
                recs = snap(self_)
                raised = False
                try:
                    return o_add(self_, hlist)
                except BaseException:
                    raised = True  # the run ends here (loudly): half-processed residues are not a final state
                    raise
                finally:
                    lg.removeHandler(h)
                    lg.setLevel(old)
                    if raised:
                        mon.addh_raised += 1
                        recs = []
                    for r in recs:
                        r["after"] = [a.name for a in r["res"].atoms]
                        r["failed"] = [m.split()[2] for m in h.msgs if m.startswith("Couldn't rebuild ") and m.endswith(f"in {r['key']}!")]
                        del r["res"]
                    mon.addh += recs

            o_term = biomolecule.Biomolecule.set_termini

            def termini(self_, *a, **kw):
                before = [(ch, list(ch.residues)) for ch in self_.chains]
                try:
                    return o_term(self_, *a, **kw)
                finally:
                    where = {}
                    for ch in self_.chains:
                        for res in ch.residues:
                            where.setdefault(id(res), []).append(id(ch))
                    for ch, rs in before:
                        marks = []
                        poly = [k_ for k_, res in enumerate(rs) if isinstance(res, (aa.Amino, na_.Nucleic))]
                        lastpoly = poly[-1] if poly else -1
                        for k_, res in enumerate(rs):
                            m_ = (isinstance(res, aa.Amino) and res.has_atom("OXT")) or (
                                isinstance(res, na_.Nucleic) and (res.has_atom("H3T") or res.name.endswith("3")))
                            marks.append(bool(m_) and k_ != lastpoly)  # the chain's own last polymer residue is its terminus
                        segs, cur, last = [], 0, None
                        for res in rs:
                            w = tuple(where.get(id(res), []))
                            if w != last and cur:
                                segs.append(cur)
                                cur = 0
                            last = w
                            cur += 1
                        if cur:
                            segs.append(cur)
                        mon.splits.append({"marks": marks, "segments": segs, "chain": ch.chain_id,
                                           "multi": [str(res) for res in rs if len(where.get(id(res), [])) != 1]})

            biomolecule.Biomolecule.set_termini = termini
            biomolecule.Biomolecule.repair_heavy = repair
            biomolecule.Biomolecule.add_hydrogens = addh
            try:
                yield mon
            finally:
                biomolecule.Biomolecule.repair_heavy = o_rep
                biomolecule.Biomolecule.add_hydrogens = o_add
                biomolecule.Biomolecule.set_termini = o_term

        return cm()


def repair_terms(rm):
    """[(term, expected string, case)] for the recorded residues."""
    out = []
    for s in rm.splits:
        if not any(s["marks"]):
            continue
        term = ('join " " (map (fun s => repeat_char (Ascii.ascii_of_nat 120) (List.length s)) (split_at bool (fun b => b) [] '
                + L("true" if m else "false" for m in s["marks"]) + "))")
        exp = " ".join("x" * n for n in s["segments"]) if not s["multi"] else "residues in several chains: " + " ".join(s["multi"][:4])
        out.append((term, exp, {"what": "set_termini", "residue": f"chain {s['chain']}", "before": s["marks"], "after": s["segments"], "logged": s["multi"]}))
    for r in rm.repair:
        miss = [x for x in r["ref"] if not x.startswith("H") and x not in ("N+1", "C-1") and x not in r["before"]]
        near = L(f"({S(a)}, {L(map(S, r['near'].get(a, [])))})" for a in miss)
        term = (f"show_rres (repair_heavy {L(map(S, r['ref']))} (feas_tab {near} {'true' if r['pn'] else 'false'} {'true' if r['pc'] else 'false'}) "
                f"{'true' if r['any_missing'] else 'false'} {L(map(S, r['before']))})")
        if r["error"]:
            exp = "ValueError " + r["error"].split("Heavy atoms missing from", 1)[1].split(":", 1)[1].strip()
        else:
            exp = "DONE " + " ".join(r["after"]) + " | logged " + " ".join(r["logged"])
        out.append((term, exp.strip(), {"what": "repair_heavy", "residue": r["key"], "before": r["before"], "after": r["after"], "logged": r["logged"]}))
    for r in rm.addh:
        hf = f"(fun r _ => negb (mem r {L(map(S, r['failed']))}))"
        term = (f"match add_hydrogens {L(map(S, r['ref']))} {hf} {'true' if r['ssb'] else 'false'} (mkW {L(map(S, r['before']))} []) with "
                f"Some w => show_names (w_names w) | None => \"ANOMALY\" end")
        out.append((term, " ".join(r["after"]), {"what": "add_hydrogens", "residue": r["key"], "before": r["before"], "after": r["after"], "failed": r["failed"]}))
    return out

# --------------------------------------------------------------------------
# correspondence 2: trace inclusion


def tri_of(ops):
    if not ops:
        return "Skip"
    if len(ops) == 1 and ops[0][0] == "create":
        return "Ok"
    return "Fail"


def trace_term(rec):
    """Coq term of type string for one protocol object, or (None, reason)."""
    import c03_table as G

    if rec.stray:
        return None, f"operations outside any protocol unit call: {rec.stray[:3]}"
    try:
        _tag, kterm, base, _exp = G.instance_of(rec)
    except G.GenError as e:
        return None, str(e)
    calls = list(rec.calls)
    init = calls.pop(0)
    # merge undo records into the preceding try_donor
    merged = []
    for c in calls:
        if c.method == "undo":
            if merged and merged[-1].method == "try_donor":
                merged[-1].ops = merged[-1].ops + c.ops
                continue
            return None, f"undo without preceding try_donor: {c.ops}"
        merged.append(c)
    final = rec.final_names if rec.final_names is not None else [a.name for a in rec.residue.atoms]
    comp = None
    steps = []
    labs = []
    kind = rec.kind
    for c in merged:
        if c.method == "complete":
            comp = c
            continue
        if comp is not None:
            return None, f"call {c.method} after complete"
        if kind == "Flip":
            lab = f"FFix {S(c.arg)}" if c.method == "fix_flip" else "FFinalize"
        elif kind in ("Alcoholic", "Water"):
            p = "A" if kind == "Alcoholic" else "W"
            if c.method == "try_donor":
                lab = f"{p}Donor {tri_of(c.ops)}"
            elif c.method == "try_acceptor":
                lab = f"{p}Acceptor {tri_of(c.ops)}"
            else:
                lab = f"{p}Finalize"
        else:
            hlb = c.hl_before
            removed = [o[1] for o in c.ops if o[0] == "remove"]
            kept = [h for h in hlb if h not in removed]
            if c.method == "try_acceptor":
                if not c.ops and len(hlb) >= 2:
                    continue  # no hydrogen bond: nothing happened
                lab = f"CAcceptor {'true' if (not removed or (hlb and removed[0] == hlb[0])) else 'false'}"
            elif c.method == "fix":
                lab = f"CFix {S(kept[0] if len(kept) == 1 else '?')}"
            else:
                lab = "CFinalize " + (f"(Some {S(kept[0])})" if (len(kept) == 1 and not c.fixed_before) else "None")
        steps.append(f"({lab}, {ops_term(c.ops)})")
        labs.append(lab)
    if kind == "Flip":
        mv = kterm[len("KFlip "):]
        head = f"accept_all _ _ (flip_step {mv}) flip_complete (flip_start {L(map(S, base))} {mv})"
        fin = f"(Some (tt, {ops_term(comp.ops)}))" if comp else "None"
    elif kind == "Alcoholic":
        h = kterm[len("KAlc "):]
        head = f"accept_all _ _ (alc_step {h}) (alc_complete {h}) (alc_start {h} {L(map(S, base))})"
        fin = f"(Some (tt, {ops_term(comp.ops)}))" if comp else "None"
    elif kind == "Water":
        head = f"accept_all _ _ wat_step wat_complete (wat_start {L(map(S, base))})"
        fin = f"(Some (tt, {ops_term(comp.ops)}))" if comp else "None"
    else:
        c = kterm[len("KCarb "):]
        hl0 = rec.params.get("hl_init", [])
        keys = rec.params["optkeys"]
        h2 = [k for k in keys if k.endswith("2")][0]
        # order / longflag from what __init__ did
        doubled = [o[1] for o in init.ops if o[0] == "rename"]
        if len(doubled) == 2:
            ordf, lf = "false", "false"
        elif len(doubled) == 1:
            ordf, lf = ("true" if doubled[0] == h2 else "false"), "true"
            # a single doubling also happens without longflag when the other hydrogen is absent
            other = [k for k in keys if k != doubled[0]][0]
            if other not in base:
                ordf, lf = "false", "false"
        else:
            ordf, lf = "false", "false"
        head = f"accept_all _ _ (carb_step {c}) (carb_complete {c}) (carb_start {c} {ordf} {lf} {L(map(S, base))})"
        if comp:
            removed = [o[1] for o in comp.ops if o[0] == "remove"]
            kept = [h for h in comp.hl_before if h not in removed]
            best = f"(Some {S(kept[0])})" if (len(kept) == 1 and not comp.fixed_before) else "None"
            fin = f"(Some ({best}, {ops_term(comp.ops + rec.cleanup_ops)}))"
        else:
            fin = f"(Some (None, {ops_term(rec.cleanup_ops)}))"
    term = f"{head} {ops_term(init.ops)} {L(steps)} {fin} {L(map(S, final))}"
    # the same walk as protocol kind + label list of the pipeline model
    if kind == "Flip":
        rec.pk = (f"(PFlip {kterm[len('KFlip '):]})", f"(LFlip {L(labs)})")
    elif kind == "Alcoholic":
        rec.pk = (f"(PAlc {kterm[len('KAlc '):]})", f"(LAlc {L(labs)})")
    elif kind == "Water":
        rec.pk = ("PWat", f"(LWat {L(labs)})")
    else:
        if comp:
            removed = [o[1] for o in comp.ops if o[0] == "remove"]
            kept = [h for h in comp.hl_before if h not in removed]
            bestc = f"(Some {S(kept[0])})" if (len(kept) == 1 and not comp.fixed_before) else "None"
        else:
            bestc = "None"
        rec.pk = (f"(PCarb {kterm[len('KCarb '):]} {ordf} {lf})", f"(LCarb {L(labs)} {bestc})")
    return term, None


TERMINAL_PATCHES = ("PEPTIDE", "NTERM", "CTERM", "NEUTRAL-NTERM", "NEUTRAL-CTERM", "5TERM", "3TERM")
_FF_CACHE = {}


def _forcefield(ff):
    if ff not in _FF_CACHE:
        from harness import builder as B
        from pdb2pqr import forcefield

        _FF_CACHE[ff] = forcefield.Forcefield(ff.lower(), B.definitions(), None, None)
    return _FF_CACHE[ff]


def e2e_terms(atoms, r, opts, ff):
    """Per residue: the pipeline model on the residue's INPUT names with the oracle answers
    observed in the run vs what the real run ended with (final names, names written in the
    PQR, names reported unassigned, deletions logged)."""
    from harness import builder as B
    from pdb2pqr import aa

    if r["exc"] is not None or r["result"] is None:
        return []
    missed, _pka, bio = r["result"]
    clean, assign_only = "--clean" in opts, "--assign-only" in opts
    mode = "MClean" if clean else ("MAssignOnly" if assign_only else f"(MFull {'false' if '--noopt' in opts else 'true'})")
    defs = B.definitions()
    inp = {}
    for a in atoms:
        inp.setdefault((a.chain, str(a.resseq) + a.icode), []).append(a.name)
    written = {}
    for p in B.parse_pqr(r["pqr_text"] or ""):
        written.setdefault((p["chain"], p["resseq"]), []).append(p["name"])
    missed_ids = {id(a) for a in (missed or [])}
    recs = {id(rec.residue): rec for rec in r["mon"].order}
    rmon = r.get("rmon")
    rep = {x["key"]: x for x in (rmon.repair if rmon else [])}
    anym = bool(rmon.repair and rmon.repair[0].get("any_missing")) if rmon else False
    ffobj = None if clean else _forcefield(ff)
    out = []
    for res in bio.residues:
        if not isinstance(res, (aa.Amino, aa.WAT)):
            continue
        key = (res.chain_id, str(res.res_seq) + res.ins_code)
        if key not in inp:
            continue
        ns = inp[key]
        alt0 = {o: c for o, c in _alt_table(res.name if res.name != "WAT" else "WAT").items() if o in ns}
        final = [a.name for a in res.atoms]
        patches = list(getattr(res, "patches", []))
        ps1, ps2 = [], []
        for pn in patches:
            pt = defs.patches[pn]
            fx = f"mkPF {L(map(S, pt.remove))} {L('(' + S(o) + ', ' + S(n) + ')' for o, n in pt.altnames.items())}"
            (ps1 if pn in TERMINAL_PATCHES else ps2).append(fx)
        ref = list(res.reference.map.keys())
        ssb = bool(isinstance(res, aa.CYS) and getattr(res, "ss_bonded", False))
        rec = recs.get(id(res))
        pk = getattr(rec, "pk", None) if rec is not None else None
        if rec is not None and pk is None:
            continue  # trace not expressible: already reported by the trace stage
        kterm, lterm = pk if pk else ("PNone", "LNone")
        cl = "None"
        for nm, c in (("ASH", 'mkcarb "HD1" "OD1" "HD2" "OD2"'), ("GLH", 'mkcarb "HE1" "OE1" "HE2" "OE2"')):
            if res.name == nm or nm in patches:
                cl = f"(Some ({c}))"
        his = "None"
        if isinstance(res, aa.HIS) and "HIP" not in patches and res.name not in ("HIP", "HSP"):
            his = "(Some false)" if ("HE2" in final and "HD1" not in final) else "(Some true)"
        if clean:
            ent = "(fun _ => true)"
            exp_w, exp_u = list(final), []
        else:
            ffname = res.ffname
            has = [n for n in dict.fromkeys(final + ns + ref) if ffobj.get_params(ffname, n) != (None, None)]
            ent = f"(fun x => mem x {L(map(S, has))})"
            exp_w = written.get(key, [])
            exp_u = [a.name for a in res.atoms if id(a) in missed_ids]
        lg = rep.get(str(res), {}).get("logged", []) if not (clean or assign_only) else []
        rr = rep.get(str(res))
        feas = "(fun _ _ => true)"
        if rr is not None and not (clean or assign_only):
            miss = [x for x in rr["ref"] if not x.startswith("H") and x not in ("N+1", "C-1") and x not in rr["before"]]
            near = L(f"({S(a)}, {L(map(S, rr['near'].get(a, [])))})" for a in miss)
            feas = f"(feas_tab {near} {'true' if rr['pn'] else 'false'} {'true' if rr['pc'] else 'false'})"
        term = (f"show_pres (pipeline_names {L(map(S, ref))} {feas} (fun _ _ => true) {ent} {mode} {L(ps1)} {L(ps2)} "
                f"{'true' if anym else 'false'} {'true' if ssb else 'false'} {kterm} {lterm} {cl} {his} "
                f"(residue_init {L('(' + S(o) + ', ' + S(c) + ')' for o, c in alt0.items())} {L(map(S, ns))}))")
        exp = f"OK final={' '.join(final)} | written={' '.join(exp_w)} | unassigned={' '.join(exp_u)} | logged={' '.join(lg)}"
        out.append((term, exp, {"what": "pipeline_names", "residue": str(res), "input": ns, "patches": patches, "final": final, "written": exp_w}))
    return out



# --------------------------------------------------------------------------
# driven walks: every reachable ORDERED name state of the model, on real objects

SCRIPT = {"hb": None, "chb": None, "angle_name": None, "energy_O": None}


class _Stub:
    """accobj of try_both whose acceptor side fails (forces the undo branch)."""

    def try_acceptor(self, acc, donor):
        return False


def model_paths(ginfo):
    """{(kind term, tuple(base))-> [ per start: [(labels, names, fixed)] ]} from the Coq machine."""
    insts = [i for i in ginfo["instances"] if i[0].endswith("/I") or i[1] == "KWat"]
    terms = []
    for n, k, b, e in insts:
        kk = f"({k})" if " " in k else k
        terms.append(f'join "#" (instance_paths (mkI {S(n)} {kk} {L(map(S, b))} {L(map(S, e))}))')
    outs = core.run_cases("C03paths", HEADER, terms, chunk=8)
    res = {}
    for (n, k, b, e), o in zip(insts, outs):
        starts = []
        for part in o.split("#"):
            lst = []
            for ent in part.split("|") if part else []:
                lab, _, nm = ent.partition("=")
                fixed = nm.endswith("!")
                lst.append(([x for x in lab.split(",") if x], nm.rstrip("!").split(), fixed))
            starts.append(lst)
        res[(k.split()[0], n.split("/")[0])] = starts
    return res


def _partner(routines, residue):
    from pdb2pqr import aa

    rs = routines.biomolecule.residues
    i = rs.index(residue)
    cands = [rs[j] for j in (i + 1, i - 1) if 0 <= j < len(rs)] + list(rs)
    for c in cands:
        if c is not residue and isinstance(c, aa.Amino) and c.has_atom("N") and c.has_atom("O") and c.name == "GLY":
            n, o = c.get_atom("N"), c.get_atom("O")
            n.hdonor = 1
            o.hacceptor = 1
            return c, n, o
    raise RuntimeError("no partner residue")


def exec_label(obj, kind, lab, routines, parity):
    """Perform one model label on the real object with the oracle answers scripted."""
    import types

    res = obj.residue
    pres, pN, pO = _partner(routines, res)
    head, _, arg = lab.partition(":")
    try:
        if kind == "Flip":
            if head == "X":
                at = res.get_atom(arg)
                if at is not None:
                    obj.fix_flip(at)
            else:
                obj.finalize()
        elif kind in ("Alcoholic", "Water"):
            ox = obj.atomlist[0]
            if head == "F":
                obj.finalize()
            elif arg == "Skip":
                pass
            elif head == "D":
                if arg == "Fail" and parity:
                    SCRIPT["hb"] = True  # donor side succeeds, partner's acceptor side fails: undo in try_both
                    obj.try_both(ox, pO, _Stub())
                else:
                    SCRIPT["hb"] = arg == "Ok"
                    obj.try_donor(ox, pO)
            else:
                SCRIPT["hb"] = arg == "Ok"
                obj.try_acceptor(ox, pN)
        else:
            if head == "A":
                hyds = list(obj.hlist)
                tgt = hyds[0 if arg == "first" else 1] if len(hyds) >= 2 else None
                fake = types.SimpleNamespace(hdonor=1, coords=(tgt.coords if tgt is not None else pN.coords), residue=pres, name="N", bonds=[])
                SCRIPT["chb"] = True
                obj.try_acceptor(obj.atomlist[0], fake)
            elif head == "X":
                d = res.get_atom(arg)
                if d is not None and d.bonds and not res.fixed:
                    SCRIPT["hb"] = True
                    SCRIPT["angle_name"] = arg
                    obj.fix(d.bonds[0], pO)
            else:
                b = res.get_atom(arg) if arg else None
                SCRIPT["energy_O"] = b.bonds[0].name if (b is not None and b.bonds) else None
                obj.finalize()
    finally:
        SCRIPT.update(hb=None, chb=None, angle_name=None, energy_O=None)


def run_driven(ctx, atoms, ff, assign):
    """A pdb2pqr run whose optimize_hydrogens is replaced by scripted walks:
    assign(kind, resname, names_after_init, reskey) -> label list (or None)."""
    import c03_table as G
    from harness import builder as B
    from pdb2pqr import hydrogens
    from pdb2pqr.hydrogens import optimize as hopt
    from pdb2pqr.hydrogens import structures as hs

    saved = []

    def patch(o, name, new):
        saved.append((o, name, o.__dict__[name]))
        setattr(o, name, new)

    o_hb, o_chb = hopt.Optimize.is_hbond, hs.Carboxylic.is_carboxylic_hbond
    o_ang = hopt.Optimize.__dict__["get_hbond_angle"].__func__
    o_en = hopt.Optimize.__dict__["get_pair_energy"].__func__
    walk = {}

    def is_hbond(self, donor, acc):
        return o_hb(self, donor, acc) if SCRIPT["hb"] is None else SCRIPT["hb"]

    def is_chb(self, donor, acc):
        return o_chb(self, donor, acc) if SCRIPT["chb"] is None else SCRIPT["chb"]

    def angle(a1, a2, a3):
        if SCRIPT["hb"] is None and SCRIPT["chb"] is None:
            return o_ang(a1, a2, a3)
        if SCRIPT["angle_name"] is not None:
            return 5.0 if getattr(a3, "name", None) == SCRIPT["angle_name"] else 100.0
        return 5.0

    def energy(d, a):
        if SCRIPT["energy_O"] is None:
            return o_en(d, a)
        return -1.0 if SCRIPT["energy_O"] in (getattr(d, "name", None), getattr(a, "name", None)) else 0.0

    def optimize(self):
        kinds = {hs.Flip: "Flip", hs.Alcoholic: "Alcoholic", hs.Water: "Water", hs.Carboxylic: "Carboxylic"}
        for n, obj in enumerate(self.optlist):
            kind = kinds.get(type(obj))
            if kind is None:
                continue
            res = obj.residue
            key = f"{res.name} {res.chain_id} {res.res_seq}"
            labels = assign(kind, res.name, [a.name for a in res.atoms], key)
            if labels is None:
                continue
            walk[key] = labels
            for j, lab in enumerate(labels):
                exec_label(obj, kind, lab, self, (n + j) % 2 == 1)
        for obj in self.optlist:
            obj.complete()

    patch(hopt.Optimize, "is_hbond", is_hbond)
    patch(hs.Carboxylic, "is_carboxylic_hbond", is_chb)
    patch(hopt.Optimize, "get_hbond_angle", staticmethod(angle))
    patch(hopt.Optimize, "get_pair_energy", staticmethod(energy))
    patch(hydrogens.HydrogenRoutines, "optimize_hydrogens", optimize)
    text = B.to_pdb(atoms)
    args = [f"--ff={ff}", "--keep-chain"]
    mon = G.Monitor()
    try:
        with mon.active():
            r = B.run_pdb2pqr(text, args, workdir=ctx.scratch_dir())
    finally:
        for o, name, old in reversed(saved):
            setattr(o, name, old)
        SCRIPT.update(hb=None, chb=None, angle_name=None, energy_O=None)
    r.update(args=args, free=False, mon=mon, pdb_text=text, walk=walk)
    return r


def driven_structure():
    """GLY-X-GLY for every optimisable X (carboxylic acids also with one C-O bond
    0.12 A longer, for the longflag starts) + waters with and without hydrogens."""
    from harness import builder as B

    xs = ["SER", "THR", "TYR", "CYS", "ASN", "GLN", "HIS", "HID", "HIE", "ASH", "GLH", "ASH", "GLH", "ASH", "GLH"]
    atoms = []
    letters = "ABCDEFGHIJKLMNOPQRSTUVWXYZ"
    for k, x in enumerate(xs):
        pep = B.build_peptide(["GLY", x, "GLY"], chain=letters[k], origin=(0.0, 35.0 * k, 0.0))
        which = {11: "1", 12: "1", 13: "2", 14: "2"}.get(k)
        if which:
            new = []
            for a in pep:
                if a.name in ("OD" + which, "OE" + which):
                    c = [y for y in pep if y.resseq == a.resseq and y.name == ("CG" if a.name.startswith("OD") else "CD")][0]
                    v = a.xyz - c.xyz
                    a = a.at(c.xyz + v * (1.0 + 0.12 / float((v ** 2).sum() ** 0.5)))
                new.append(a)
            pep = new
        atoms += pep
    wat = B.waters(2, around=atoms, chain="W")
    wat += B.waters(1, around=atoms + wat, chain="V", hydrogens=True)
    return atoms + wat


def driven_walks(ctx, ginfo, process):
    """Drive real objects along a model path to every reachable ordered name state,
    then complete/cleanup; traces go through the acceptor, results through the join."""
    paths = model_paths(ginfo)
    atoms = driven_structure()
    nruns = max(len(lst) for starts in paths.values() for lst in starts)
    if not ctx.thorough:
        nruns = min(nruns, 40)
    reached, total, actual = {}, {}, {}
    for (k, rn), starts in paths.items():
        total[k] = total.get(k, 0) + sum(len(lst) for lst in starts)
    kind_of = {"Flip": "KFlip", "Alcoholic": "KAlc", "Water": "KWat", "Carboxylic": "KCarb"}
    for rix in range(nruns):
        def assign(kind, resname, names, key, _r=rix):
            cands = paths.get((kind_of[kind], resname if kind != "Water" else "HOH"))
            if cands is None and kind == "Water":
                cands = paths.get(("KWat", "WAT"))
            if not cands:
                return None
            if kind == "Water":
                cands = [lst for (kk, nn), sts in paths.items() if kk == "KWat" for lst in sts]
            for lst in cands:
                if lst and lst[0][1] == names:
                    if _r < len(lst):
                        reached.setdefault(kind, set()).add((resname, tuple(lst[_r][1]), lst[_r][2]))
                        return lst[_r][0]
                    return None
            return None

        targets = {}

        def assign2(kind, resname, names, key, _a=assign):
            lab = _a(kind, resname, names, key)
            if lab is not None:
                targets[key] = lab
            return lab

        r = run_driven(ctx, atoms, FFS[rix % 6], assign2)
        ctx.count("driven-walk-runs")
        if r["exc"] is not None:
            ctx.count("driven-walk-run-raised:" + type(r["exc"]).__name__)
        # which ordered state did the real object actually have when complete was called?
        want = {}
        for (kk, rn), sts in paths.items():
            for lst in sts:
                for labs, nm, fx in lst:
                    want.setdefault((kk, tuple(labs)), []).append(tuple(nm))
        for rec in r["mon"].order:
            k2 = f"{rec.resname} {rec.residue.chain_id} {rec.residue.res_seq}"
            if k2 not in targets:
                continue
            pre = [c for c in rec.calls if c.method != "complete"]
            before = tuple(pre[-1].names_after) if pre and pre[-1].names_after else None
            if before in want.get((kind_of[rec.kind], tuple(targets[k2])), []):
                actual.setdefault(rec.kind, set()).add((rec.resname, before))
        process(r, "driven", atoms, {}, [], FFS[rix % 6], ("driven", rix))
    for k in sorted(total):
        kk = [x for x, v in kind_of.items() if v == k][0]
        ctx.cov["distribution"][f"driven-paths:{kk}"] = f"{len(reached.get(kk, ()))} of {total[k]} model states (internal-position instances) targeted, {len(actual.get(kk, ()))} reached exactly (same ordered atom list) on real objects before complete"
    return False

# --------------------------------------------------------------------------
# search: outer join


def atom_class(name):
    if PLACEHOLDER.search(name) or name == "FLIP":
        return "placeholder"
    if name.startswith("H"):
        return "hydrogen"
    if name in ("N", "CA", "C", "O", "OXT"):
        return "backbone"
    if name in ("P", "OP1", "OP2", "O1P", "O2P"):
        return "phosphate"
    return "heavy"


def expected_for(res, first_na, last_na, phos):
    """(required, optional, template name, position) for a final residue object."""
    from harness import builder as B
    from pdb2pqr import aa, na

    if isinstance(res, aa.WAT):
        return {"O", "H1", "H2"}, set(), "WAT", "I"
    patches = list(getattr(res, "patches", []))
    if isinstance(res, aa.Amino):
        tpl = res.name
        for p in patches:
            if p in STATE_PATCHES:
                tpl = p
        nterm, cterm = bool(res.is_n_term), bool(res.is_c_term)
        req, opt = B.expected_atom_names(tpl, nterm=nterm, cterm=cterm)
        req, opt = set(req), set(opt)
        if "NEUTRAL-NTERM" in patches:
            req.discard("H3")
        if "NEUTRAL-CTERM" in patches:
            req.add("HO")
        if tpl == "HIP":
            req |= {"HD1", "HE2"}
            opt -= {"HD1", "HE2"}
        return req, opt, tpl, ("N" if nterm else ("C" if cterm else "I"))
    if isinstance(res, na.Nucleic):
        req, opt = B.expected_atom_names(res.name, five_prime=bool(getattr(res, "is5term", False)), three_prime=bool(getattr(res, "is3term", False)), phosphate_names=phos)
        return set(req), set(opt), res.name, ("5" if getattr(res, "is5term", False) else ("3" if getattr(res, "is3term", False) else "I"))
    return None


def outer_join(ctx, tag, atoms, meta, r, opts, ff):
    """All C03 clauses on one finished run. Returns number of failures."""
    from harness import builder as B

    nfail = 0
    # strands split off at a hidden chain end get a new chain letter: identity without the chain ID there
    ck = (lambda c: "") if meta.get("hidden") else (lambda c: c)
    case = {"tag": tag, "args": r["args"], "ff": ff, "opts": opts, "pdb": r["pdb_text"]}
    if r.get("walk"):
        case["walk"] = r["walk"]  # scripted protocol walk: {residue: label path}; replay re-drives it

    def fail(sig, what):
        nonlocal nfail
        nfail += 1
        ctx.fail(sig, what, dict(case, signature=sig))

    if r["exc"] is not None or r["result"] is None:
        if r.get("free"):
            ctx.count("free-oracle-run-raised:" + type(r["exc"]).__name__)
            return 0
        ctx.count("run-raised:" + type(r["exc"]).__name__)
        ctx.notes.append(f"run raised: {tag.split(':')[0]} {' '.join(r['args'])}: {r['exc']!r} / {getattr(r['exc'], '__cause__', None)!r}"[:300])
        return 0
    missed, _pka, bio = r["result"]
    dropw = "--drop-water" in opts
    clean = "--clean" in opts
    assign_only = "--assign-only" in opts
    msgs = r["messages"]
    deleted = set()
    for m in msgs:
        mm = re.search(r"Extra atom (\S+) in (\S+) (\S*) (\S+)!", m)
        if mm:
            deleted.add((mm.group(3), mm.group(4), mm.group(1)))
    # final model
    final = {}
    for res in bio.residues:
        for a in res.atoms:
            final.setdefault((ck(res.chain_id), str(res.res_seq) + res.ins_code, a.name), []).append(a)
    # 1. input heavy atoms
    resi = B.residues_of(atoms)
    first_of_chain = {}
    for rr in resi:
        first_of_chain.setdefault(rr[0].chain, rr[0].resseq)
    seen_keys = set()
    for a in atoms:
        if B.is_hydrogen_name(a.name):
            continue
        if a.resname in ("HOH", "WAT") and dropw:
            continue
        rn_ = a.resname if a.resname not in ("A", "C", "G", "U") else "R" + a.resname
        cname = _alt_table(rn_).get(a.name, a.name)  # the topology's alias table: one atom, several spellings
        key = (ck(a.chain), str(a.resseq) + a.icode, cname)
        if key in seen_keys:
            continue  # another record (alt-loc copy, alias) of an atom already counted
        seen_keys.add(key)
        n = len(final.get(key, []))
        if n == 1:
            continue
        is_nuc = a.resname in ("A", "C", "G", "U", "T", "DA", "DC", "DG", "DT", "RA", "RC", "RG", "RU")
        five = {(ck(res.chain_id), str(res.res_seq) + res.ins_code) for res in bio.residues if getattr(res, "is5term", False)}
        if n == 0 and is_nuc and a.name in ("P", "OP1", "OP2", "O1P", "O2P") and (first_of_chain[a.chain] == a.resseq or (ck(a.chain), str(a.resseq) + a.icode) in five):
            ctx.count("5'-phosphate-removed")
            continue
        if n == 0 and (a.chain, str(a.resseq) + a.icode, a.name) in deleted:
            ctx.count("extra-atom-deleted-and-logged")
            continue
        fail({"site": "input->final", "atom_class": atom_class(a.name) if (a.chain, a.resseq, a.name) not in meta.get("extra", []) else "extra",
              "condition": "lost" if n == 0 else "duplicated", "mode": "clean" if clean else ("assign-only" if assign_only else "full")},
             f"input heavy atom {a.resname} {a.chain}{a.resseq} {a.name} appears {n}x in the final model without a deletion report")
    # 2. final atoms vs PQR lines vs unassigned
    pq = B.parse_pqr(r["pqr_text"] or "")
    written = {}
    for p in pq:
        written.setdefault((ck(p["chain"]), p["resseq"], p["name"]), []).append(p)
    missed_ids = {id(a) for a in (missed or [])}
    miss_count = {}
    for a in missed or []:
        miss_count[id(a)] = miss_count.get(id(a), 0) + 1
    for key, objs in final.items():
        nw = len(written.get(key, []))
        nm = sum(miss_count.get(id(o), 0) for o in objs)
        if len(objs) == 1 and nw + nm == 1:
            continue
        if len(objs) > 1:
            fail({"site": "final-model", "atom_class": atom_class(key[2]), "condition": "duplicate-name-in-residue"},
                 f"final residue {key[0]}{key[1]} holds {len(objs)} atoms named {key[2]}")
        elif nw + nm == 0:
            fail({"site": "final->output", "atom_class": atom_class(key[2]), "condition": "neither-written-nor-unassigned", "mode": "clean" if clean else "full"},
                 f"final atom {key} is neither written nor reported unassigned")
        else:
            fail({"site": "final->output", "atom_class": atom_class(key[2]), "condition": f"written{nw}x-unassigned{nm}x", "name": key[2] if key[2] in ("OXT",) else atom_class(key[2])},
                 f"final atom {key} written {nw}x and listed unassigned {nm}x")
    for key, ps in written.items():
        if key not in final:
            fail({"site": "output", "atom_class": atom_class(key[2]), "condition": "line-without-final-atom"}, f"PQR line for {key} has no atom in the final model")
    # 2a. the chain hierarchy and the flat residue list describe the same atoms, each exactly once
    flat_ids = [id(a) for res in bio.residues for a in res.atoms]
    chain_ids = [id(a) for a in bio.atoms]
    res_in_chains = {}
    for ch in bio.chains:
        for res in ch.residues:
            res_in_chains[id(res)] = res_in_chains.get(id(res), 0) + 1
    multi = [res for res in bio.residues if res_in_chains.get(id(res), 0) != 1]
    if multi:
        fail({"site": "chain-hierarchy", "condition": "residue-in-%d-chains" % max(res_in_chains.get(id(x), 0) for x in multi), "mode": "clean" if clean else "full"},
             f"{len(multi)} residue objects are not in exactly one chain (e.g. {multi[0]} in {res_in_chains.get(id(multi[0]), 0)}); biomolecule.atoms has {len(chain_ids)} atoms, the residue list {len(flat_ids)}")
    elif sorted(flat_ids) != sorted(chain_ids):
        fail({"site": "chain-hierarchy", "condition": "atoms-differ-from-residue-list"}, f"biomolecule.atoms has {len(chain_ids)} atoms, the residue list {len(flat_ids)}")
    if r.get("pdb_output_text"):
        cnt = {}
        for a in atoms_from_pdb(r["pdb_output_text"]):
            k_ = (ck(a.chain), str(a.resseq) + a.icode, a.name)
            cnt[k_] = cnt.get(k_, 0) + 1
        for key, objs in final.items():
            if cnt.get(key, 0) != len(objs):
                fail({"site": "pdb-output", "atom_class": atom_class(key[2]), "condition": f"written{cnt.get(key, 0)}x"},
                     f"final atom {key} is in the --pdb-output file {cnt.get(key, 0)}x")
                break
    # 2b. judged from the RETURNED model alone: (i) an atom that a patch applied to the residue removes
    # (and no later patch adds back) must be gone; (ii) no atom twice under two spellings
    defs_ = B.definitions()
    for res in bio.residues:
        patches = list(getattr(res, "patches", []) or [])
        names = [a.name for a in res.atoms]
        removed = set()
        for pn in patches:
            pt = defs_.patches.get(pn)
            if pt is None:
                continue
            removed -= set(pt.map.keys())
            removed |= set(pt.remove)
        for n in sorted(removed & set(names)):
            fail({"site": "final-model", "kind": "patch-removed-atom-present", "atom": n, "patch": [p for p in patches if n in defs_.patches[p].remove][-1]},
                 f"{res} still holds {n}, which its patch list {patches} removes")
        alt = dict(_alt_table(res.name))
        alt.update({"OP1": "O1P", "OP2": "O2P"})
        canon = [alt.get(n, n) for n in names]
        for n in sorted({c for c in canon if canon.count(c) > 1}):
            fail({"site": "final-model", "kind": "same-atom-under-two-spellings", "atom": n},
                 f"{res} holds {[x for x in names if alt.get(x, x) == n]}: one atom under several names")
    # 3. fully parameterised residues carry exactly the topology's atom set
    if clean or assign_only:
        return nfail
    na_first, na_last = {}, {}
    for res in bio.residues:
        ex = expected_for(res, na_first, na_last, meta.get("phos", "OP"))
        if ex is None:
            continue
        req, opt, tpl, pos = ex
        names = [a.name for a in res.atoms]
        rkey = (ck(res.chain_id), str(res.res_seq) + res.ins_code)
        given = {a.name for a in atoms if (ck(a.chain), str(a.resseq) + a.icode) == rkey}
        for n in sorted(set(names) - req - opt):
            if n in given or (n in ("OP1", "OP2", "O1P", "O2P") and ({"OP1", "O1P"} & given)):
                continue  # an input atom the topology does not know: must be (and is, clause 2) written or unassigned
            fail({"site": "final-model", "template": tpl, "pos": pos, "kind": "invented", "atom_class": atom_class(n), "atom": n if atom_class(n) != "heavy" else "heavy"},
                 f"{res} ({tpl}, {pos}) holds {n}: neither an input atom nor in its topology")
        if any(id(a) in missed_ids for a in res.atoms if a.name in req or a.name in opt):
            ctx.count("residue-not-fully-parameterised")
            continue
        wnames = []
        for a in res.atoms:
            wnames += [a.name] * len(written.get((ck(res.chain_id), str(res.res_seq) + res.ins_code, a.name), []))
        if tpl[:1] in ("D", "R") and len(tpl) == 2:
            # a nucleotide keeps whichever spelling each phosphate oxygen came with; rebuilt ones get the template's
            ph = {"OP1": "O1P", "OP2": "O2P"}
            wnames = [ph.get(n, n) for n in wnames]
            req = {ph.get(n, n) for n in req}
            opt = {ph.get(n, n) for n in opt}
        seen = set()
        for n in wnames:
            if n in seen:
                fail({"site": "written-set", "template": tpl, "pos": pos, "kind": "duplicate", "atom_class": atom_class(n)}, f"{res} written with duplicate {n}")
            seen.add(n)
        for n in sorted(seen - req - opt):
            fail({"site": "written-set", "template": tpl, "pos": pos, "kind": "extra", "atom_class": atom_class(n), "atom": n if atom_class(n) != "heavy" else "heavy"},
                 f"{res} ({tpl}, {pos}) written with {n}, not in its topology")
        for n in sorted(req - seen):
            fail({"site": "written-set", "template": tpl, "pos": pos, "kind": "missing", "atom_class": atom_class(n), "atom": n},
                 f"{res} ({tpl}, {pos}) written without {n}")
        if tpl in ("ASH", "GLH"):
            pair = {"ASH": {"HD1", "HD2"}, "GLH": {"HE1", "HE2"}}[tpl]
            if len(seen & pair) != 1:
                fail({"site": "written-set", "template": tpl, "pos": pos, "kind": "carboxyl-hydrogen-count", "count": len(seen & pair)}, f"{res} written with {sorted(seen & pair)}")
        if tpl == "HIS" and not (seen & {"HD1", "HE2"}):
            fail({"site": "written-set", "template": tpl, "pos": pos, "kind": "missing", "atom_class": "hydrogen", "atom": "HD1|HE2"}, f"{res} written without HD1 and HE2")
    return nfail


# --------------------------------------------------------------------------


# --------------------------------------------------------------------------
# writer stage: final model -> PQR lines, where record name and serial fuse / fields fill their columns


def writer_stage(ctx, report=True):
    """io.print_biomolecule_atoms + main.print_pqr driven the way non_trivial / main_driver do, on a
    finished small model whose matched-atom list is made long enough (by repetition; the serial is
    the list position) to pass serial 9999 and 99999, with ATOM and HETATM records on both sides of
    the boundary. Every list entry must be written exactly once, in order."""
    import argparse

    from harness import builder as B
    from pdb2pqr import io as pio
    from pdb2pqr import main as pmain

    pep = B.build_peptide(["SER", "GLY", "ASN"], chain="A")
    wat = B.waters(3, around=pep, chain="W")
    r = B.run_pdb2pqr(B.to_pdb(pep + wat), ["--ff=AMBER", "--keep-chain"], workdir=ctx.scratch_dir())
    if r["exc"] is not None or r["result"] is None:
        return 0
    bio = r["result"][2]
    ats = [a for a in bio.atoms]
    atom_t = [a for a in ats if a.type == "ATOM"]
    het_t = [a for a in ats if a.type == "HETATM"]
    if not atom_t or not het_t:
        return 0
    nfail = 0
    for total in (10030, 100030):
        for tailkind in ("HETATM", "ATOM", "mixed"):
            if total > 20000 and tailkind != "mixed" and not ctx.thorough:
                continue
            boundary = 9990 if total < 20000 else 99990
            head = (atom_t * (boundary // len(atom_t) + 1))[:boundary]
            n_tail = total - boundary
            if tailkind == "HETATM":
                tail = (het_t * (n_tail // len(het_t) + 1))[:n_tail]
            elif tailkind == "ATOM":
                tail = (atom_t * (n_tail // len(atom_t) + 1))[:n_tail]
            else:
                tail = [(het_t if k % 2 == 0 else atom_t)[k % min(len(het_t), len(atom_t))] for k in range(n_tail)]
            lst = head + tail
            want = [(a.type, a.name) for a in lst]
            for ws in (False, True):
                for keep in (True, False):
                    for is_cif in (False, True) if ws else (False,):
                        lines = pio.print_biomolecule_atoms(lst, keep)
                        outp = ctx.scratch_dir() / "writer.pqr"
                        ns = argparse.Namespace(output_pqr=str(outp), whitespace=ws)
                        pmain.print_pqr(args=ns, pqr_lines=lines, header_lines="", missing_lines=[], is_cif=is_cif)
                        got = []
                        for ln in outp.read_text().splitlines():
                            rec = ln[:6].strip()  # the record field is the first six columns, in both layouts
                            if rec in ("ATOM", "HETATM"):
                                got.append((rec, (ln[13:17] if ws else ln[12:16]).strip()))
                        ctx.evaluated(("writer", total, tailkind, ws, keep, is_cif), True)
                        if got != want:
                            k = next((i for i, (g, w_) in enumerate(zip(got + [None] * len(want), want)) if g != w_), len(got))
                            nfail += 1
                            if report:
                                ctx.fail({"site": "main.print_pqr", "condition": "final-atom-not-written" if len(got) < len(want) else "written-records-differ",
                                          "layout": ("whitespace" if ws else "fixed") + f"/{want[k][0]}/serial>={10 ** (len(str(k + 1)) - 1)}"},
                                         f"{len(want)} matched atoms, {len(got)} ATOM/HETATM records written (whitespace={ws}, keep_chain={keep}); first difference at list position {k + 1}: {want[k]}",
                                         {"writer": {"total": total, "tail": tailkind, "whitespace": ws, "keep_chain": keep, "is_cif": is_cif}, "tag": "writer-stage",
                                          "args": ["--whitespace"] if ws else [], "pdb": r["pdb_text"] if "pdb_text" in r else B.to_pdb(pep + wat)})
    if ctx.thorough:
        try:
            t1 = (core.REPO / "tests" / "data" / "1AFS.pdb").read_text()
            rr = B.run_pdb2pqr(t1, ["--ff=AMBER", "--whitespace"], workdir=ctx.scratch_dir())
            if rr["exc"] is None and rr["result"] is not None:
                nat = len(rr["result"][2].atoms) - len(rr["result"][0] or [])
                nrec = sum(1 for ln in (rr["pqr_text"] or "").splitlines() if ln[:6].strip() in ("ATOM", "HETATM"))
                ctx.evaluated(("writer", "1AFS --whitespace"), True)
                if nrec != nat:
                    nfail += 1
                    ctx.fail({"site": "main.print_pqr", "condition": "final-atom-not-written", "layout": "whitespace/end-to-end"},
                             f"1AFS --whitespace: {nat} matched atoms, {nrec} records written", {"tag": "1AFS", "args": ["--ff=AMBER", "--whitespace"], "pdb": "tests/data/1AFS.pdb"})
        except OSError:
            pass
    return nfail



def entry_point_runs(ctx):
    """The same input through main_driver (builder), pdb2pqr.main.run_pdb2pqr(list) and the
    command line: identical ATOM/HETATM lines."""
    import subprocess

    from harness import builder as B
    from pdb2pqr import main as pmain

    atoms = B.build_peptide(["SER", "ASN", "HIS", "GLY"], chain="A")
    text = B.to_pdb(atoms)
    wd = ctx.scratch_dir()
    r0 = B.run_pdb2pqr(text, ["--ff=AMBER", "--keep-chain"], workdir=wd)
    ref = [l for l in (r0["pqr_text"] or "").splitlines() if l.startswith(("ATOM", "HETATM"))]
    (wd / "ep.pdb").write_text(text)
    outs = {}
    try:
        pmain.run_pdb2pqr(["--ff=AMBER", "--keep-chain", str(wd / "ep.pdb"), str(wd / "ep1.pqr")])
        outs["run_pdb2pqr"] = (wd / "ep1.pqr").read_text()
    except BaseException as e:  # noqa: BLE001
        outs["run_pdb2pqr"] = f"EXC {e!r}"
    env = dict(__import__("os").environ, PYTHONPATH=str(core.REPO))
    p = subprocess.run([sys.executable, "-c", "from pdb2pqr.main import main; main()", "--ff=AMBER", "--keep-chain", "--log-level=ERROR", str(wd / "ep.pdb"), str(wd / "ep2.pqr")],
                       capture_output=True, text=True, env=env, timeout=120)
    outs["cli"] = (wd / "ep2.pqr").read_text() if (wd / "ep2.pqr").exists() else f"EXC rc={p.returncode} {p.stderr[-200:]}"
    for k, v in outs.items():
        ctx.evaluated(("entry", k), True)
        got = [l for l in v.splitlines() if l.startswith(("ATOM", "HETATM"))]
        if got != ref:
            ctx.fail({"site": "entry-point", "entry": k, "condition": "atom-lines-differ-from-main_driver"},
                     f"{k}: {len(got)} atom lines vs {len(ref)} through main_driver", {"args": ["--ff=AMBER", "--keep-chain"], "pdb": text, "tag": "entry-point"})


def run(ctx):
    import c03_table as G

    logging.getLogger("pdb2pqr").setLevel(logging.ERROR)
    ctx.cov["rule"] = (
        "builder structures (all 20 residues at N/internal/C, optimisable-rich peptides with hydrogen-bonding waters, "
        "pre-named ASH/GLH/HID/HIE/HIP/CYM/LYN/TYM, disulfide, DNA/RNA with/without 5' phosphate and both phosphate "
        "namings, extra atoms, missing heavy atoms) x option sets (default, nodebump, noopt, both, assign-only, clean, "
        "drop-water, neutral termini, stubbed-propka pH 7 with random pKa) x six force fields; a case = one finished "
        "run joined per atom identity; non-trivial = run finished and >= 1 residue was checked against its topology; "
        "distinct by (structure tag, options, force field, veto)"
    )
    # 0. shared tables my generated files import (FF_<ff>.v from gen/all.py, E2ENames.v): regenerate if absent
    import subprocess

    if any(not (core.GEN / f"FF_{f}.v").exists() for f in ["AMBER", "CHARMM", "PARSE", "PEOEPB", "SWANSON", "TYL06"]) or not (core.GEN / "names.json").exists():
        subprocess.run([sys.executable, str(core.VERIF / "gen" / "all.py"), "--only", "ff_tables"], capture_output=True, text=True,
                       env={**__import__("os").environ, "VERIF_REPO": str(core.REPO)}, timeout=600)
    if not (core.GEN / "E2ENames.v").exists():
        subprocess.run([sys.executable, str(core.VERIF / "gen" / "e2e_names.py")], capture_output=True, text=True, timeout=120)
    # 0. regenerate the table
    gen_ok = True
    try:
        ginfo = G.generate()
    except Exception as e:  # noqa: BLE001
        gen_ok = False
        ginfo = {"instances": []}
        ctx.broke("generator-broken", "gen/c03_table.py", f"{type(e).__name__}: {e}")
    ok = core.proof_stage(ctx, "C03", THEOREMS, []) and gen_ok
    table = {(k, tuple(sorted(b))) for (_n, k, b, _e) in ginfo["instances"]}
    ctx.cov["distribution"]["table-instances"] = len(table)

    corr_broken = False
    # 0. residue constructors
    ccases = constructor_cases(ctx, 60 if ctx.thorough else 12)
    seenc = set()
    ccases = [c for c in ccases if not (c[0] in seenc or seenc.add(c[0]))]
    try:
        couts = core.run_cases("C03ctor", HEADER, [c[0] for c in ccases], chunk=80)
        for (term, real, case), o in zip(ccases, couts):
            ctx.cov["correspondence_cases"] += 1
            ctx.count("constructor-corr")
            if o.strip() != real.strip():
                ctx.cov["correspondence_disagreements"] += 1
                corr_broken = True
                names = real.split()
                if len(names) != len(set(names)):
                    dup = sorted({x for x in names if names.count(x) > 1})
                    ctx.fail({"site": "residue constructor", "atom_class": atom_class(dup[0]), "condition": "duplicate-after-alias-rename"},
                             f"{case['residue']} built from records {case['records']} holds {dup} twice", dict(case, args=["--clean"], signature="ctor"))
                if len([b for b in ctx.broken if "residue_init" in b["what"]]) < 3:
                    ctx.broke("correspondence-broken", "Model.NameProtocol.residue_init vs Amino/Nucleic/WAT.__init__", f"model={o!r} real={real!r}", case)
    except core.CoqEvalError as e:
        corr_broken = True
        ctx.broke("correspondence-broken", "constructor model evaluation failed", str(e)[:1500])
    # 1. Residue operations
    rcases = residue_op_cases(ctx, 600 if ctx.thorough else 120)
    try:
        res = core.run_cases("C03res", HEADER, [c["term"] for c in rcases], chunk=100)
        for c, m in zip(rcases, res):
            ctx.cov["correspondence_cases"] += 1
            if m.strip() != c["impl"].strip():
                ctx.cov["correspondence_disagreements"] += 1
                corr_broken = True
                if len(ctx.broken) < 4:
                    ctx.broke("correspondence-broken", "Model.NameProtocol.res_* vs Residue.create_atom/remove_atom/rename_atom", f"impl={c['impl']!r} model={m!r}", {"ops": c["ops"], "start": c["start"]})
    except core.CoqEvalError as e:
        corr_broken = True
        ctx.broke("correspondence-broken", "layer-1 model evaluation failed", str(e))

    # 2+3. real runs: traces and outer join
    structs = build_structures(ctx)
    plan = []
    for i, (tag, atoms, meta) in enumerate(structs):
        for j, opts in enumerate(OPTION_SETS):
            full = tag.startswith(("all20", "variants", "carboxyl", "extra", "fliprich")) or tag in ("missing-heavy",)
            if tag.startswith("hidden-ends"):
                if opts in ([], ["--clean"], ["--assign-only"], ["--noopt"]):
                    plan.append((tag, atoms, meta, opts, ["AMBER", "PARSE", "CHARMM"][(i + j) % 3], None))
                    if opts in ([], ["--clean"]):
                        plan.append((tag, atoms, meta, opts + ["PDBOUT"], ["AMBER", "PARSE", "CHARMM"][(i + j + 1) % 3], None))
                continue
            if tag.startswith("hyd-"):
                if opts not in ([], ["--neutraln", "--neutralc"], ["PH"], ["--noopt"], ["--assign-only"]):
                    continue
                plan.append((tag, atoms, meta, opts, "PARSE" if opts == ["--neutraln", "--neutralc"] else FFS[(i + j) % 6], None))
                continue
            if tag.startswith("na-partial"):
                if opts in ([], ["--nodebump"], ["--clean"], ["--noopt"]):
                    plan.append((tag, atoms, meta, opts, ["AMBER", "CHARMM"][j % 2], None))
                continue
            if tag.startswith("layout-"):
                if opts in ([], ["--clean"], ["--drop-water"], ["--noopt"]):
                    plan.append((tag, atoms, meta, opts, FFS[(i + j) % 6], None))
                continue
            if tag.startswith("alias-altloc") and opts not in ([], ["--clean"], ["--assign-only"], ["--noopt"]):
                continue
            if tag.startswith("alias-altloc") and (not ctx.thorough):
                ff = ["PARSE", "AMBER", "CHARMM", "TYL06"][j % 4]
                plan.append((tag, atoms, meta, opts, ff, None))
                continue
            if tag.startswith(("missing-rand", "missing-backbone", "missing-deferral")) and opts not in ([], ["--nodebump"], ["--noopt"]):
                continue
            if tag.startswith(("twodonor", "donacc")) and opts not in ([], ["--nodebump"]):
                continue
            if not ctx.thorough and not full and (i + j) % 3 != 0 and opts not in ([],):
                continue
            if "PH" in opts and any(a.resname in ("A", "C", "G", "U", "T", "DA", "DC", "DG", "DT") for a in atoms):
                continue
            ff = FFS[(i + 2 * j) % 6]
            plan.append((tag, atoms, meta, opts, ff, None))
    # vetoed-oracle walks on the optimisable-rich structures
    nveto = 60 if ctx.thorough else 18
    rich = [s for s in structs if s[0].startswith(("optrich", "carboxyl", "fliprich", "twodonor", "donacc"))]
    for k in range(nveto):
        tag, atoms, meta = rich[k % len(rich)]
        plan.append((tag, atoms, meta, [] if k % 3 != 1 else ["--nodebump"], FFS[k % 6], k))
    small = [s for s in structs if s[0].startswith(("fliprich", "carboxyl"))]
    for k in range(40 if ctx.thorough else 18):
        tag, atoms, meta = small[k % len(small)]
        plan.append((tag, atoms, meta, [], FFS[k % 6], 101 + 2 * k))  # odd ids: free-oracle walks
    def process(r, tag, atoms, meta, opts, ff, key):
        nonlocal corr_broken
        nf = outer_join(ctx, tag, atoms, meta, r, opts, ff)
        finished = r["exc"] is None and r["result"] is not None
        ctx.evaluated(key, finished and "--clean" not in opts and "--assign-only" not in opts)
        if finished and len(ctx.cov["samples"]) < 3:
            ctx.sample({"structure": tag, "args": r["args"], "atoms_in": len(atoms), "pqr_lines": len((r["pqr_text"] or "").splitlines()), "unassigned": len(r["result"][0] or []), "failures": nf})
        if r.get("rmon") is not None:
            if r["rmon"].addh_raised:
                ctx.count("add_hydrogens-raised (run aborted, not compared)")
            for term, exp, case in repair_terms(r["rmon"]):
                if term not in rseen and len(rterms) < (4000 if ctx.thorough else 700):
                    rseen.add(term)
                    case.update(structure=tag, args=r["args"], pdb=r["pdb_text"])
                    rterms.append((term, exp, case))
        e2e_pending.append((atoms, r, opts, ff, tag))
        if finished or r["mon"].done:
            for rec in r["mon"].order:
                ctx.count("protocol-object:" + rec.kind)
                term, why = trace_term(rec)
                case = {"structure": tag, "args": r["args"], "residue": rec.key, "kind": rec.kind, "calls": [c.as_dict() for c in rec.calls][:30], "pdb": r["pdb_text"]}
                if r.get("walk"):
                    case["walk"] = r["walk"]
                if term is None:
                    corr_broken = True
                    ctx.cov["correspondence_disagreements"] += 1
                    if len(ctx.broken) < 6:
                        ctx.broke("correspondence-broken", f"trace of {rec.kind} object not expressible in the model", why, case)
                    continue
                terms.append(term)
                owners.append((rec, case))
                try:
                    inst = G.instance_of(rec)
                    if (inst[1], tuple(sorted(inst[2]))) not in table:
                        ctx.count("instance-outside-table:" + rec.kind)
                        if rec.kind != "Water" and not meta:
                            corr_broken = True
                            if len(ctx.broken) < 6:
                                ctx.broke("correspondence-broken", "optimisation object outside the proved instance table", f"{inst[0]} {inst[1]} {inst[2]}", case)
                except G.GenError:
                    pass
    terms, owners = [], []
    rterms, rseen = [], set()
    e2e_pending = []
    first_run = {}
    t_search = ctx.elapsed()  # the proof stage may have waited for the shared build lock
    budget = 150 if not ctx.thorough else 1500
    import random

    for tag, atoms, meta, opts, ff, veto in plan:
        if ctx.elapsed() - t_search > budget:
            ctx.count("skipped-for-time")
            continue
        vr = random.Random(f"veto:{ctx.seed}:{veto}") if veto is not None else None
        if vr is not None:
            vr.free = veto % 2 == 1  # odd walks: every is_hbond answer is a coin flip (angles always pass)
        phr = random.Random(f"ph:{ctx.seed}:{tag}")
        # options that must not matter for which atoms exist / are written (drawn by seed)
        noise = []
        if veto is None and ctx.rng.random() < 0.35:
            noise = [ctx.rng.choice(["--whitespace", "--include-header", "--log-level=DEBUG", f"--pdb-output={ctx.scratch_dir()}/noise.pdb"])]
            ctx.count("noise-option:" + noise[0].split("=")[0])
        r = run_structure(ctx, atoms, opts, ff, veto=vr, phrng=phr, text=meta.get("text"), extra=noise)
        if not first_run:
            first_run.update(pqr=r["pqr_text"], extra=noise)
        if meta.get("hyd") and "PH" in opts:
            r["skip_e2e"] = True  # remove_hydrogens of the propka path is not a stage of the pipeline model
        key = (tag.split(":")[0], tuple(opts), ff, veto)
        ctx.count("opts:" + (" ".join(opts) or "default"))
        ctx.count("ff:" + ff)
        process(r, tag, atoms, meta, opts, ff, key)

    # process history: the first planned run again at the end of this process must give the same PQR text
    if plan and first_run.get("pqr") is not None:
        tag0, atoms0, meta0, opts0, ff0, _v = plan[0]
        r2 = run_structure(ctx, atoms0, opts0, ff0, phrng=random.Random(f"ph:{ctx.seed}:{tag0}"), text=meta0.get("text"), extra=first_run["extra"], monitor=False)
        ctx.evaluated(("history", tag0), True)
        if (r2["pqr_text"] or "") != first_run["pqr"]:
            ctx.fail({"site": "process-history", "condition": "same-input-different-output"},
                     f"{tag0} {opts0}: the PQR of a second identical run in the same process differs from the first", {"tag": tag0, "args": r2["args"], "pdb": r2["pdb_text"]})
    # entry points: main_driver(Namespace) is used above; run_pdb2pqr(list) and the command line must agree with it
    try:
        entry_point_runs(ctx)
    except Exception as e:  # noqa: BLE001
        ctx.broke("harness-error", f"entry point runs: {type(e).__name__}: {e}", "")
    # writer stage across the serial boundaries
    try:
        writer_stage(ctx)
    except Exception as e:  # noqa: BLE001
        ctx.broke("harness-error", f"writer stage: {type(e).__name__}: {e}", "")
    # driven walks: real objects taken to every reachable ordered name state of the model
    try:
        if driven_walks(ctx, ginfo, process):
            corr_broken = True
    except core.CoqEvalError as e:
        corr_broken = True
        ctx.broke("correspondence-broken", "path enumeration failed", str(e)[:1500])
    try:
        outs = core.run_cases("C03tr", HEADER, terms, chunk=60)
        for (rec, case), o in zip(owners, outs):
            ctx.cov["correspondence_cases"] += 1
            if not o.startswith("ACCEPT"):
                ctx.cov["correspondence_disagreements"] += 1
                corr_broken = True
                if len([b for b in ctx.broken if b["kind"] == "correspondence-broken"]) < 6:
                    ctx.broke("correspondence-broken", f"Model.NameProtocol {rec.kind} machine does not accept the real trace", o, case)
                # a rejected trace whose final names are wrong is also a property failure: the outer join reports it
    except core.CoqEvalError as e:
        corr_broken = True
        ctx.broke("correspondence-broken", "trace acceptor evaluation failed", str(e)[:1500])
    # end to end per residue: pipeline model vs final names / PQR names / unassigned / logged
    eterms, eseen, etotal = [], set(), 0
    for atoms_, r_, opts_, ff_, tag_ in e2e_pending:
        if r_.get("walk") or r_.get("skip_e2e"):
            continue  # driven walks are compared by the acceptor; their label lists are scripted
        try:
            lst = e2e_terms(atoms_, r_, opts_, ff_)
        except Exception as e:  # noqa: BLE001
            ctx.broke("harness-error", f"e2e term construction: {type(e).__name__}: {e}", "")
            continue
        for term, exp, case in lst:
            etotal += 1
            if term + exp not in eseen and len(eterms) < (6000 if ctx.thorough else 1200):
                eseen.add(term + exp)
                case.update(structure=tag_, args=r_["args"], pdb=r_["pdb_text"])
                eterms.append((term, exp, case))
    ctx.cov["distribution"]["e2e-residues-total"] = etotal
    ctx.cov["distribution"]["e2e-residues-distinct-evaluated"] = len(eterms)
    try:
        eouts = core.run_cases("C03e2e", HEADER, [x[0] for x in eterms], chunk=50)
        for (term, exp, case), o in zip(eterms, eouts):
            ctx.cov["correspondence_cases"] += 1
            if o.strip() != exp.strip():
                ctx.cov["correspondence_disagreements"] += 1
                corr_broken = True
                if len([b for b in ctx.broken if "pipeline_names" in b["what"]]) < 4:
                    ctx.broke("correspondence-broken", "Model.NameProtocol.pipeline_names vs the real run (one residue: final / written / unassigned / logged)", f"model={o!r}\nreal ={exp!r}", case)
    except core.CoqEvalError as e:
        corr_broken = True
        ctx.broke("correspondence-broken", "pipeline model evaluation failed", str(e)[:1500])
    # repair_heavy / add_hydrogens per residue vs the model
    try:
        routs = core.run_cases("C03rep", HEADER, [x[0] for x in rterms], chunk=60)
        for (term, exp, case), o in zip(rterms, routs):
            ctx.cov["correspondence_cases"] += 1
            ctx.count("repair-corr:" + case["what"])
            if o.strip() != exp.strip():
                ctx.cov["correspondence_disagreements"] += 1
                corr_broken = True
                if case["what"] == "set_termini" and case["logged"]:
                    ctx.fail({"site": "set_termini", "condition": "split-is-not-a-regrouping"},
                             f"{case['residue']}: hidden-end markers {case['before']} -> strands {case['after']}; residues in several chains: {case['logged'][:4]}",
                             dict(case, signature="split"))
                after = case.get("after") or []
                if case["what"] == "set_termini":
                    after = []
                al_ = {"OP1": "O1P", "OP2": "O2P"}
                can_ = [al_.get(x, x) for x in after]
                dup_ = sorted({x for x in can_ if can_.count(x) > 1})
                if dup_:
                    ctx.fail({"site": case["what"], "kind": "same-atom-under-two-spellings", "atom": dup_[0]},
                             f"{case['residue']} after {case['what']}: {[x for x in after if al_.get(x, x) in dup_]} (one atom rebuilt next to its alias)",
                             dict(case, signature="repair-alias"))
                if len([b for b in ctx.broken if "repair" in b["what"] or "add_hydrogens" in b["what"]]) < 4:
                    ctx.broke("correspondence-broken", f"Model.NameProtocol.{'split_at' if case['what'] == 'set_termini' else case['what']} vs Biomolecule.{case['what']} (one residue / chain)", f"model={o!r} real={exp!r}", case)
    except core.CoqEvalError as e:
        corr_broken = True
        ctx.broke("correspondence-broken", "repair model evaluation failed", str(e)[:1500])
    ctx.sample({"obligation": "C03_flip_names_table: forall i in instances, forall step lists, complete leaves exactly the expected names"})
    ctx.trusted += [
        "gen/c03_table.py: ast scan for apply_patch literals; instances observed through the monitor on builder peptides",
        "modelled, not verified: hydrogens/structures.py Flip/Alcoholic/Water/Carboxylic, HydrogenRoutines.cleanup, Residue add/remove/rename (hand model Model/NameProtocol.v, tied by trace inclusion on monitored runs and by differential runs of Residue operations)",
        "harness/builder.py expected_atom_names (topology-derived expected sets for the search)",
    ]
    ctx.assumptions += [
        "Carboxylic.finalize: some hlist hydrogen has energy < 999.99 when hlist is non-empty",
        "atom names are ASCII; optimisation objects are constructed on residues whose names equal a table instance (checked per run)",
    ]
    ctx.notes.append("ligand step duplication is C16-F4 (not re-stated here); 5' residues given OP1/OP2 keep them unassigned (reported)")


def replay(ctx, data):
    from harness import builder as B

    case = data.get("case") or {}
    if case.get("writer"):
        n = writer_stage(ctx, report=False)
        print("replay: writer stage", "FAILS" if n else "passes", f"({n} layouts with dropped / different records)")
        return 1 if n else 0
    if "pdb" not in case or "args" not in case:
        print("replay: case has no input (proof/correspondence record)")
        return 0
    if case.get("walk"):
        # scripted protocol walk on the same structure: re-drive it and inspect the final model
        sys.path.insert(0, str(core.VERIF / "gen"))
        walk = case["walk"]
        atoms = driven_structure()
        ff = [a for a in case["args"] if a.startswith("--ff=")][0][5:]
        r = run_driven(ctx, atoms, ff, lambda kind, resname, names, key: walk.get(key))
        bad = 0
        if r["result"] is not None:
            for res in r["result"][2].residues:
                ns = [a.name for a in res.atoms]
                if len(ns) != len(set(ns)) or any(PLACEHOLDER.search(n) or n == "FLIP" for n in ns):
                    print("replay: FAILS final model residue", res, ns)
                    bad = 1
        print("replay: driven walk", "FAILS" if bad else "passes", "exc=", repr(r["exc"]))
        return bad
    r = B.run_pdb2pqr(case["pdb"], [a for a in case["args"]], workdir=ctx.scratch_dir())
    print("replay: exc=", repr(r["exc"]), "pqr lines=", len((r["pqr_text"] or "").splitlines()))
    sig = case.get("signature", {})
    if r["exc"] is not None or not r["pqr_text"]:
        return 0
    pq = B.parse_pqr(r["pqr_text"])
    names = {}
    for p in pq:
        names.setdefault((p["chain"], p["resseq"]), []).append(p["name"])
    bad = 0
    for k, ns in names.items():
        if len(ns) != len(set(ns)) or any(PLACEHOLDER.search(n) for n in ns):
            print("replay: FAILS residue", k, ns)
            bad = 1
    if sig.get("kind") == "missing":
        print("replay: signature", sig, "- re-run ./check C03 to re-evaluate the join")
        bad = 1
    return bad
