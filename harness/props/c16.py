"""C16 - ligand charges conserve formal charge and stay on the ligand."""

import inspect
import io as _io
import logging
import math
import os
import textwrap
from fractions import Fraction

from harness import core

META = {
    "id": "C16",
    "level": "proof",
    "technique": (
        "Coq proofs over an arithmetic-generic Gallina model of peoe.equilibrate (exact field Q), the formal-charge "
        "decision table, the radius lookup chain, the ligand transfer loop of main.non_trivial, and a line/word-level model "
        "of Mol2Molecule.read (section detection, ATOM/BOND record fields, bond-type words, atom ids -> positions with "
        "Python indexing, duplicate names, what raises); the model is tied to the code by differential execution (MOL2 "
        "TEXTS through the real reader vs mol_of_string, text -> charges end to end, binary64 instance bit-for-bit, Q "
        "instance <= 1e-9, tables regenerated from /repo, the transfer loop's own source text executed on generated "
        "residue lists)"
    ),
    "level_text": (
        "Proved for ALL atom counts, bond lists, electronegativity functions, damping/scale factors and cycle counts >= 1: "
        "equilibrate conserves the sum of the entry (formal) charges, and relabelling the atoms permutes the result "
        "exactly; every radius returned is a positive zap9/Bondi entry; assign_parameters end to end, and (new) its "
        "equivariance under atom permutation as one statement. Proved for ALL molecules of the reader's domain (any "
        "number of atoms/bonds, connectivity, ids; fields blank-free words without '@', float() an arbitrary oracle): the "
        "reader returns exactly the molecule whose canonical Tripos rendering it is given, under any header/trailer "
        "(round trip: nothing dropped, duplicated, reordered, re-wired, no column mix-up); permuting ATOM records with "
        "renumbered bond atom ids yields the permuted molecule; renaming changes nothing but names. "
        "C16_text_order_independent_partial composes text -> charges: labelled PARTIAL because it is over exact "
        "arithmetic and over canonically rendered texts (other spellings are covered by the tie, not by proof). "
        "Refuted with witnesses: bond atom id 0 / negative ids index from the end (input outside the quantifier: "
        "observation) and 8-field ATOM records raise IndexError (finding C16-F5, known). The clause 'ligand "
        "parameters only on ligand atoms, each written once' is proved for ALL residue lists for the ligand loop of "
        "main.non_trivial as coded after the repair of finding C16-F4: only residues selected by the loop's condition "
        "(MOL2 residue name, or - placeholder name - exactly the MOL2 heavy atoms) are touched, no atom is written twice, "
        "every MOL2-named atom of a selected residue is written exactly once with the MOL2 parameters. The refutation "
        "that is kept (C16_transfer_old_loop_refuted) is about the PRE-FIX loop definition only."
    ),
    "level_note": (
        "Trusted: Coq kernel + vm_compute; the hand-written model (tied by correspondence, not by a Python semantics); "
        "binary64 rounding is not verified (the exact-field theorems hold for the Q instance; the float instance agrees "
        "with CPython bit for bit on all cases run and the real sums deviate < 1e-9); the reader model covers ASCII text "
        "(str.split/strip blanks \\t-\\r, \\x1c-\\x20), int() = sign/digits/single underscores, float() = an oracle in the theorems "
        "and the ASCII float grammar of Model/PqrFormat.v in the executed instance; set_torsions/set_rings (called by "
        "parse_bonds, results unused by assign_parameters) are not modelled and assumed not to raise."
    ),
    "design_ref": "DESIGN.md 4 C16, 5 F4",
}

THEOREMS = [
    "C16_QA_laws",
    "C16_peoe_conserves",
    "C16_peoe_zero_cycles",
    "C16_peoe_equivariant",
    "C16_radius_positive",
    "C16_supported_complete",
    "C16_assign_parameters_sound",
    "C16_transfer_only_ligand",
    "C16_transfer_other_residues_untouched",
    "C16_transfer_other_residues_untouched_fallback",
    "C16_transfer_old_loop_refuted",
    "C16_formal_charge_equivariant",
    "C16_nonvacuous",
    "C16_assign_parameters_relabel",
    "C16_mol2_read_roundtrip",
    "C16_mol2_order_equivariance",
    "C16_text_order_independent_partial",
    "C16_mol2_names_irrelevant",
    "C16_mol2_bond_id_zero_refuted",
    "C16_mol2_bond_ids_partial",
    "C16_mol2_eight_words_refuted",
    "C16_mol2_nonvacuous",
    "C16_radius_rule",
    "C16_radius_default_tables",
    "C16_radius_rule_nonvacuous",
]
ALLOWED_AXIOMS: list = []

HEADER = (
    "From Coq Require Import String List ZArith.\nFrom PV Require Import Lib.Strings Model.Peoe.\n"
    "Import ListNotations.\nOpen Scope string_scope.\n"
)

SUPPORTED = ["Br", "C.1", "C.2", "C.3", "C.ar", "Cl", "F", "H", "I", "N.1", "N.2", "N.3", "N.4", "N.am", "N.ar",
             "N.pl3", "O.2", "O.3", "O.co2", "P.3", "S.2", "S.3", "S.o2"]
BT_WORD = {"single": "1", "double": "2", "triple": "3", "aromatic": "ar"}
LIG_SITE = "main.non_trivial ligand loop"


def _quiet():
    logging.getLogger().setLevel(logging.CRITICAL)
    for n in ("pdb2pqr", "pdb2pqr.ligand.mol2", "pdb2pqr.ligand.peoe", "pdb2pqr.main"):
        logging.getLogger(n).setLevel(logging.CRITICAL)


# --------------------------------------------------------------------------
# molecule generator (type / bond level) and MOL2 text writer


class Mol:
    def __init__(self, kind):
        self.kind = kind
        self.types = []
        self.bonds = []  # (i, j, word)
        self.groups = []

    def atom(self, t):
        self.types.append(t)
        return len(self.types) - 1

    def bond(self, i, j, w="1"):
        self.bonds.append((i, j, w))

    def n(self):
        return len(self.types)


VALENCE = {"C.3": 4, "C.2": 3, "C.ar": 3, "C.1": 2, "N.3": 3, "N.4": 4, "N.am": 3, "N.pl3": 3, "N.ar": 2, "N.2": 2,
           "O.3": 2, "S.3": 2, "P.3": 4, "S.o2": 4}


def gen_organic(rng, maxn=22):
    """Mostly-valid organic molecule: tree of groups + ring closures, explicit H."""
    m = Mol("organic")
    free = []  # (atom index, open sigma valences)

    def fill(i, k):
        if k > 0:
            free.append([i, k])

    def attach_point():
        if not free:
            return None
        k = rng.randrange(len(free))
        free[k][1] -= 1
        i = free[k][0]
        if free[k][1] == 0:
            free.pop(k)
        return i

    def link(i, parent, w="1"):
        if parent is not None:
            m.bond(parent, i, w) if rng.random() < 0.5 else m.bond(i, parent, w)

    groups = ["alkyl", "alkyl", "carboxylate", "ammonium", "ammonium3", "guanidinium", "phosphate", "sulfonyl", "amide",
              "nitrile", "alkyne", "aryl", "halogen", "alcohol", "ether", "thiol", "thione", "imine", "amine", "ring",
              "diphosphate", "alkene"]
    root = m.atom("C.3")
    fill(root, 4)
    ngroups = rng.randint(1, 5)
    for _ in range(ngroups):
        if m.n() >= maxn - 4:
            break
        g = rng.choice(groups)
        p = attach_point()
        if p is None:
            break
        m.groups.append(g)
        if g == "alkyl":
            for _k in range(rng.randint(1, 3)):
                c = m.atom("C.3")
                link(c, p)
                fill(c, 2)
                p = c
            free.append([p, 1])
        elif g == "alkene":
            a = m.atom("C.2"); link(a, p)
            b = m.atom("C.2"); m.bond(a, b, "2")
            fill(a, 1); fill(b, 2)
        elif g == "carboxylate":
            c = m.atom("C.2"); link(c, p)
            o1 = m.atom("O.co2"); o2 = m.atom("O.co2")
            w1, w2 = rng.choice([("ar", "ar"), ("2", "1"), ("2", "2"), ("1", "1"), ("1", "2")])
            link(o1, c, w1); link(o2, c, w2)
        elif g == "ammonium":
            nn = m.atom("N.4"); link(nn, p); fill(nn, 3)
        elif g == "ammonium3":  # N.3 with four bonds: corrected to +1
            nn = m.atom("N.3"); link(nn, p); fill(nn, 3)
        elif g == "amine":
            nn = m.atom("N.3"); link(nn, p); fill(nn, 2)
        elif g == "guanidinium":
            n1 = m.atom("N.pl3"); link(n1, p); fill(n1, 1)
            c = m.atom("C.2"); link(c, n1)
            n2 = m.atom("N.pl3"); n3 = m.atom("N.pl3")
            link(n2, c, rng.choice(["2", "ar"])); link(n3, c, rng.choice(["1", "ar"]))
            fill(n2, 2); fill(n3, 2)
        elif g in ("phosphate", "diphosphate"):
            o = m.atom("O.3"); link(o, p)
            ph = m.atom("P.3"); link(ph, o)
            od = m.atom("O.2"); link(od, ph, rng.choice(["2", "2", "1"]))
            for _k in range(2):
                ot = m.atom("O.3"); link(ot, ph)
                if g == "diphosphate" and _k == 0 and m.n() < maxn - 5:
                    p2 = m.atom("P.3"); link(p2, ot)
                    link(m.atom("O.2"), p2, "2")
                    for _j in range(2):
                        link(m.atom("O.3"), p2)
                elif rng.random() < 0.25:
                    fill(ot, 1)  # protonated / esterified
        elif g == "sulfonyl":
            s = m.atom("S.o2"); link(s, p)
            link(m.atom("O.2"), s, "2"); link(m.atom("O.2"), s, "2")
            fill(s, 1)
        elif g == "amide":
            c = m.atom("C.2"); link(c, p)
            link(m.atom("O.2"), c, "2")
            nn = m.atom("N.am"); link(nn, c, rng.choice(["1", "1", "2"])); fill(nn, 2)
        elif g == "nitrile":
            c = m.atom("C.1"); link(c, p); link(m.atom("N.1"), c, "3")
        elif g == "alkyne":
            a = m.atom("C.1"); link(a, p); b = m.atom("C.1"); m.bond(a, b, "3"); fill(b, 1)
        elif g == "aryl":
            k = rng.choice([5, 6, 6])
            ring = [m.atom("C.ar") for _ in range(k)]
            if rng.random() < 0.4:
                m.types[ring[rng.randrange(1, k)]] = "N.ar"
            for a in range(k):
                m.bond(ring[a], ring[(a + 1) % k], "ar")
            link(ring[0], p)
            for a in ring[1:]:
                if m.types[a] == "C.ar":
                    fill(a, 1)
        elif g == "halogen":
            link(m.atom(rng.choice(["F", "Cl", "Br", "I"])), p)
        elif g == "alcohol":
            o = m.atom("O.3"); link(o, p); h = m.atom("H"); link(h, o)
        elif g == "ether":
            o = m.atom("O.3"); link(o, p); c = m.atom("C.3"); link(c, o); fill(c, 3)
        elif g == "thiol":
            s = m.atom("S.3"); link(s, p); fill(s, 1)
        elif g == "thione":
            c = m.atom("C.2"); link(c, p); link(m.atom("S.2"), c, "2"); fill(c, 1)
        elif g == "imine":
            c = m.atom("C.2"); link(c, p); nn = m.atom("N.2"); link(nn, c, "2"); fill(c, 1); fill(nn, 1)
        elif g == "ring":
            k = rng.choice([3, 4, 5, 6])
            ring = [m.atom("C.3") for _ in range(k)]
            for a in range(k):
                m.bond(ring[a], ring[(a + 1) % k], "1")
            link(ring[0], p)
            fill(ring[0], 1)
            for a in ring[1:]:
                fill(a, 2)
    # explicit hydrogens on what is left (sometimes leave valences open)
    for i, k in free:
        for _ in range(k):
            if m.n() >= maxn + 3 or rng.random() < 0.04:
                break
            h = m.atom("H")
            m.bond(i, h, "1") if rng.random() < 0.7 else m.bond(h, i, "1")
    return m


def gen_wild(rng):
    """Any supported types on any connectivity (multi-edges, self bonds, isolated atoms)."""
    m = Mol("wild")
    n = rng.randint(1, 9)
    for _ in range(n):
        m.atom(rng.choice(SUPPORTED))
    for i in range(1, n):
        if rng.random() < 0.9:
            m.bond(rng.randrange(i), i, rng.choice(["1", "1", "1", "2", "3", "ar"]))
    for _ in range(rng.choice([0, 0, 1, 2])):
        a, b = rng.randrange(n), rng.randrange(n)
        if a == b and rng.random() < 0.7:
            continue
        m.bond(a, b, rng.choice(["1", "2", "ar"]))
    return m


def gen_small(rng):
    """<= 7 atoms, for the exact Q instance."""
    m = Mol("small")
    k = rng.choice(["carboxylate", "ammonium", "chain", "nitrile", "wild", "phosphate", "aromatic"])
    if k == "carboxylate":
        c = m.atom("C.2"); m.bond(c, m.atom("O.co2"), "ar"); m.bond(c, m.atom("O.co2"), "ar"); m.bond(c, m.atom("H"), "1")
    elif k == "ammonium":
        nn = m.atom(rng.choice(["N.4", "N.3"]))
        for _ in range(4):
            m.bond(nn, m.atom("H"), "1")
    elif k == "chain":
        ts = [rng.choice(["C.3", "O.3", "N.3", "S.3", "C.2", "N.am", "Cl", "F"]) for _ in range(rng.randint(2, 5))]
        ts[0] = "C.3"
        for i, t in enumerate(ts):
            m.atom(t)
            if i:
                m.bond(i - 1, i, "1")
        m.bond(0, m.atom("H"), "1")
    elif k == "nitrile":
        c = m.atom("C.1"); m.bond(c, m.atom("N.1"), "3"); h = m.atom("C.3"); m.bond(h, c, "1"); m.bond(h, m.atom("H"), "1")
    elif k == "phosphate":
        p = m.atom("P.3"); m.bond(p, m.atom("O.2"), "2")
        for _ in range(3):
            m.bond(p, m.atom("O.3"), "1")
    elif k == "aromatic":
        r = [m.atom(rng.choice(["C.ar", "C.ar", "N.ar"])) for _ in range(rng.choice([3, 5]))]
        for a in range(len(r)):
            m.bond(r[a], r[(a + 1) % len(r)], "ar")
    else:
        n = rng.randint(1, 5)
        for _ in range(n):
            m.atom(rng.choice(SUPPORTED))
        for i in range(1, n):
            m.bond(rng.randrange(i), i, rng.choice(["1", "2", "ar"]))
    m.groups = [k]
    return m


def gen_malformed(rng):
    m = gen_wild(rng)
    m.kind = "malformed"
    how = rng.choice(["type", "type", "btype", "dots"])
    if how == "type":
        m.types[rng.randrange(m.n())] = rng.choice(["S.o", "Du", "C.cat", "O.spc", "Fe", "LP", "O.oh", "Si", "Na", "Se", "Any"])
    elif how == "dots":
        m.types[rng.randrange(m.n())] = "C.ar.x"
    else:
        if not m.bonds:
            m.atom("H"); m.bond(0, m.n() - 1, "1")
        k = rng.randrange(len(m.bonds))
        a, b, _ = m.bonds[k]
        m.bonds[k] = (a, b, rng.choice(["am", "du", "un", "nc", "4", "AR"]))
    m.groups = [how]
    return m


def default_names(types):
    cnt = {}
    out = []
    for t in types:
        e = t.split(".")[0].upper()
        cnt[e] = cnt.get(e, 0) + 1
        out.append(f"{e}{cnt[e]}")
    return out


def random_names(rng, n, maxlen=4):
    """Distinct atom names as opaque words: upper AND lower case (Cl1, Br2), digits first, primes and stars (C1', O5*),
    length 1..maxlen, and - often - names that differ from an earlier one ONLY by the case of a letter (Ha / HA)."""
    seen = set()
    out = []
    alpha = "ABCDEFGHJKLMNPQRSTUVWXYZ0123456789'*abcdefghiklmnorstuxyz"
    while len(out) < n:
        base = [x for x in out if any(ch.isalpha() for ch in x)]
        if base and rng.random() < 0.3:
            b = rng.choice(base)
            k = rng.choice([i for i, ch in enumerate(b) if ch.isalpha()])
            s = b[:k] + b[k].swapcase() + b[k + 1:]
        else:
            s = "".join(rng.choice(alpha) for _ in range(rng.randint(1, maxlen)))
        if s not in seen:
            seen.add(s)
            out.append(s)
    return out


def mixed_case_names(rng, names):
    """the same names as a MOL2 writer that keeps element capitalisation would spell them (Cl1, Br2, Ha/HA ...): a
    bijective respelling, possibly with pairs that differ by case only"""
    out = []
    for k, nm in enumerate(names):
        r = rng.random()
        v = nm[:1] + nm[1:].lower() if r < 0.5 else nm.lower() if r < 0.65 else nm
        if v in out:
            v = nm
        out.append(v)
    hyd = [k for k, nm in enumerate(names) if nm[:1] in "Hh"]
    if len(hyd) >= 2 and rng.random() < 0.6:  # case-only pair, e.g. Ha / HA
        out[hyd[0]], out[hyd[1]] = "Ha", "HA"
        if len(set(out)) != len(out):
            return list(names)
    return out if len(set(out)) == len(out) else list(names)


def case_variant(rng, t):
    r = rng.random()
    if r < 0.15:
        return t.upper()
    if r < 0.25:
        return t.lower()
    return t


def mol2_text(types, bonds, names, coords=None, resname="LIG", resseq=1):
    """MOL2 text; bond endpoints are 1-based positions as the reader resolves them."""
    L = ["# generated by /verif C16", "@<TRIPOS>MOLECULE", "gen", f"{len(types):5d} {len(bonds):5d}     1     0     0",
         "SMALL", "NO_CHARGES", "", "", "@<TRIPOS>ATOM"]
    for i, (t, nm) in enumerate(zip(types, names)):
        x, y, z = coords[i] if coords else (1.5 * i, 0.3 * (i % 3), 0.7 * (i % 5))
        L.append(f"{i + 1:7d} {nm:<8s} {x:10.4f} {y:10.4f} {z:10.4f} {t:<7s} {resseq:3d} {resname:<4s}     0.0000 ")
    L.append("@<TRIPOS>BOND")
    for k, (a, b, w) in enumerate(bonds):
        L.append(f"{k + 1:6d} {a + 1:4d} {b + 1:4d} {w:<4s} ")
    L.append("@<TRIPOS>SUBSTRUCTURE")
    L.append(f"     1 {resname}         1 TEMP              0 ****  ****    0 ROOT")
    return "\n".join(L) + "\n"


# --------------------------------------------------------------------------
# implementation drivers


def open_like_main(text):
    """what `open(path, encoding="utf-8")` iterates over (universal newlines)"""
    return _io.TextIOWrapper(_io.BytesIO(text.encode("utf-8")), encoding="utf-8")


def impl_read(text):
    from pdb2pqr.ligand.mol2 import Mol2Molecule

    m = Mol2Molecule()
    m.read(open_like_main(text))
    return m


def impl_all(text, ncyc=None):
    """Run the real reader + parameter assignment. Returns a dict of observations."""
    from pdb2pqr.ligand import RADII, peoe

    try:
        m = impl_read(text)
    except Exception as e:  # noqa
        return {"read_exc": type(e).__name__}
    atoms = list(m.atoms.values())
    obs = {"read_exc": None, "n": len(atoms), "types": [a.type for a in atoms]}
    fc, bo, rad = [], [], []
    for a in atoms:
        try:
            fc.append(a.formal_charge)
        except Exception as e:  # noqa
            fc.append(None)
        bo.append(a.bond_order)
        try:
            a.assign_radius(RADII["zap9"], RADII["bondi"])
            rad.append(a.radius)
        except KeyError:
            rad.append(None)
    obs["fc"], obs["bo"], obs["rad"] = fc, bo, rad
    try:
        if ncyc is None:
            m.assign_parameters()
        else:
            m.assign_radii(RADII["zap9"], RADII["bondi"])
            for a in atoms:
                a.charge = a.formal_charge
            peoe.equilibrate(m.atoms.values(), num_cycles=ncyc)
        obs["q"] = [a.charge for a in atoms]
        obs["r"] = [a.radius for a in atoms]
        obs["exc"] = None
    except Exception as e:  # noqa
        obs["exc"] = type(e).__name__
    return obs


def stored_mol2_files():
    out = []
    for d in (core.REPO / "tests" / "data", core.REPO / "examples" / "ligands"):
        if d.is_dir():
            out += sorted(d.glob("*.mol2"))
    return out


def struct_of(m):
    """(types, bonds) at the level of the model from a parsed Mol2Molecule."""
    names = list(m.atoms.keys())
    idx = {nm: i for i, nm in enumerate(names)}
    types = [a.type for a in m.atoms.values()]
    bonds = [(idx[b.atoms[0].name], idx[b.atoms[1].name], BT_WORD[b.type]) for b in m.bonds]
    return types, bonds


# --------------------------------------------------------------------------
# model terms and result parsing


def coq_mol(types, bonds):
    ts = core.coq_list([core.coq_string(t) for t in types])
    bs = core.coq_list([f"({a}, {b}, {core.coq_string(w)})" for (a, b, w) in bonds])
    return f"{ts} {bs}"


def parse_F(s):
    if s == "0 0 0":
        return 0.0
    if s in ("inf", "-inf", "nan"):
        return float(s)
    a, b = s.split()
    return math.ldexp(int(a), int(b))


def parse_params(s, num):
    if s == "EXC":
        return None
    out = []
    for item in s.split(";") if s else []:
        r, q = item.split(":")
        out.append((int(r), num(q)))
    return out


def parse_formal(s):
    if s == "EXC":
        return None
    a, b, c = s.split("|")
    f = lambda x: [None if v == "EXC" else int(v) for v in x.split(";")] if x else []  # noqa
    return f(a), f(b), f(c)


def r100(r):
    if r is None:
        return None
    k = round(r * 100)
    return k if abs(r * 100 - k) < 1e-9 else ("inexact", r)


def fc2(v):
    if v is None:
        return None
    k = round(2 * v)
    return k if abs(2 * v - k) < 1e-12 else ("inexact", v)


# --------------------------------------------------------------------------
# tables


def table_correspondence(ctx, tab, pristine=None):
    """show_tables (model) vs the dictionaries of /repo (the radius tables as they were at import)."""
    from pdb2pqr.ligand import NONBONDED_BY_TYPE, RADII, VALENCE_BY_ELEMENT, peoe

    if pristine is not None:
        RADII = pristine

    parts = dict(p.split("=", 1) for p in tab.split("|"))
    bad = []

    def kv(s):
        return [tuple(x.rsplit(":", 1)) for x in s.split(";")]

    for name, pyd, scale in (("ZAP9", RADII["zap9"], 100), ("BONDI", RADII["bondi"], 100), ("VALENCE", VALENCE_BY_ELEMENT, 1),
                             ("NONBONDED2", NONBONDED_BY_TYPE, 2)):
        mod = {k: int(v) for k, v in kv(parts[name])}
        exp = {}
        for k, v in pyd.items():
            z = round(v * scale)
            exp[k] = z if abs(v * scale - z) < 1e-9 else v * scale
        if mod != exp:
            bad.append(f"{name}: model-only {sorted(set(mod.items()) - set(exp.items()))[:4]} repo-only {sorted(set(exp.items()) - set(mod.items()), key=str)[:4]}")
    pq = {k: [Fraction(x) for x in v.split(",")] for k, v in kv(parts["POLYQ"])}
    pf = {k: [parse_F(x) for x in v.split(",")] for k, v in kv(parts["POLYF"])}
    if set(pq) != set(peoe.POLY_TERMS):
        bad.append(f"POLY_TERMS keys differ: {sorted(set(pq) ^ set(peoe.POLY_TERMS))}")
    else:
        for k, terms in peoe.POLY_TERMS.items():
            if len(terms) != 4:
                bad.append(f"POLY_TERMS[{k}] has {len(terms)} terms (model: 4-term branch only)")
                continue
            for j in range(4):
                if abs(float(pq[k][j]) - terms[j]) > 1e-12 or pf[k][j] != terms[j]:
                    bad.append(f"POLY_TERMS[{k}][{j}] repo={terms[j]!r} modelQ={float(pq[k][j])!r} modelF={pf[k][j]!r}")
    consts = [Fraction(x) for x in parts["CONST"].split(";")]
    exp = [peoe.MAX_CHARGE, peoe.DEFAULT_H_ELECTRONEG, peoe.DAMPING_FACTOR, peoe.SCALING_FACTOR, peoe.NUM_CYCLES]
    for nm, a, b in zip(("MAX_CHARGE", "DEFAULT_H_ELECTRONEG", "DAMPING_FACTOR", "SCALING_FACTOR", "NUM_CYCLES"), consts, exp):
        if abs(float(a) - b) > 1e-12:
            bad.append(f"{nm}: repo={b} model={float(a)}")
    if peoe.DEFAULT_H_CHARGE != 1.0:
        bad.append(f"DEFAULT_H_CHARGE repo={peoe.DEFAULT_H_CHARGE} model=1")
    sig = inspect.signature(peoe.equilibrate)
    for p, v in (("damp", peoe.DAMPING_FACTOR), ("scale", peoe.SCALING_FACTOR), ("num_cycles", peoe.NUM_CYCLES)):
        if sig.parameters[p].default != v:
            bad.append(f"equilibrate default {p} is not the module constant")
    ctx.cov["correspondence_cases"] += 1
    ctx.count("corr:tables")
    if bad:
        ctx.cov["correspondence_disagreements"] += 1
        ctx.broke("correspondence-broken", "Model.Peoe tables (ZAP9/BONDI/VALENCE/NONBONDED2/POLY/constants) vs pdb2pqr.ligand tables", "\n".join(bad[:12]), None)
    return not bad


# --------------------------------------------------------------------------
# the transfer loop: the code's own source text executed on fake objects


class _Obj:
    def __init__(self, **k):
        self.__dict__.update(k)


def extract_ligand_loop():
    from pdb2pqr import main as pmain

    src = inspect.getsource(pmain.non_trivial).splitlines()
    start = [i for i, l in enumerate(src) if l.strip() == "lig_atoms = []"]
    end = [i for i, l in enumerate(src) if l.strip().startswith("matched_atoms += ")]
    if len(start) != 1 or len(end) != 1 or end[0] <= start[0]:
        raise LookupError("ligand loop markers (lig_atoms = [] ... matched_atoms += ...) not found in main.non_trivial")
    head = "\n".join(src[: start[0]])
    if "ligand.assign_parameters()" not in head or "apply_force_field" not in head:
        raise LookupError("ligand loop is no longer preceded by apply_force_field / ligand.assign_parameters()")
    return compile(textwrap.dedent("\n".join(src[start[0] : end[0] + 1])), "<main.non_trivial ligand loop>", "exec")


def _describes(lig, atoms):
    """the residue consists of exactly the MOL2 heavy atoms (+ some of its hydrogens)"""
    nms = {a[2] for a in atoms}
    return {nm for nm, _t, h in lig if not h} <= nms <= {nm for nm, _t, _h in lig}


def gen_transfer_case(rng):
    """Residue list + MOL2 ligand for the loop.  Each residue is (name, kind, atoms); kind 'lig' marks the
    residue(s) the MOL2 file is meant for (ground truth of the generator, independent of how the code selects).
    mode: named = the ligand residue carries the MOL2 residue name; placeholder = the MOL2 residue name occurs
    nowhere and the ligand residue has exactly the MOL2 heavy atoms; incomplete = placeholder, a heavy atom
    missing in the structure (nothing identifies the ligand); 'ambiguous' cases (another residue bears the
    ligand's name / is atom-for-atom the ligand) are used for the model tie only."""
    pool = ["C1", "C2", "O1", "H1", "H2", "O", "N", "CA", "N1", "NA", "X", "H3"]
    picked = rng.sample(pool, rng.randint(1, 6))
    if all(nm.startswith("H") for nm in picked):
        picked.append("C9")
    lig = [[nm, "L" + nm, nm.startswith("H")] for nm in picked]
    heavy = [nm for nm, _t, h in lig if not h]
    hyd = [nm for nm, _t, h in lig if h]
    mode = rng.choice(["named", "named", "named", "placeholder", "placeholder", "incomplete"])
    lnames = ["LIG"] if mode == "named" else [rng.choice(["UNK", "<1>"])]
    if mode == "named" and rng.random() < 0.1:
        lnames.append("LG2")
    pdb_lig_name = "LIG" if mode == "named" else "KNI"
    rs = []
    aid = 0
    kinds = [rng.choice(["prot", "lig", "wat", "het", "mixed", "copy"]) for _ in range(rng.randint(1, 5))]
    if "lig" not in kinds and rng.random() < 0.8:
        kinds.insert(rng.randrange(len(kinds) + 1), "lig")
    for kind in kinds:
        if kind == "prot":
            rname = rng.choice(["ALA", "SER", "UNK"])
            nms, het = rng.sample(["N", "CA", "C", "O", "H", "CB"], rng.randint(1, 4)), [False] * 4
        elif kind == "lig":
            rname = pdb_lig_name if rng.random() < 0.9 or mode != "named" else "LG2"
            if mode == "named":
                nms = rng.sample(picked, rng.randint(1, len(picked))) + (["ZZ"] if rng.random() < 0.3 else [])
            else:
                nms = heavy + rng.sample(hyd, rng.randint(0, len(hyd)))
                if mode == "incomplete":
                    nms.remove(rng.choice(heavy))
                    if not nms:
                        nms = ["ZZ"]
                rng.shuffle(nms)
            het = [True] * len(nms)
            if rng.random() < 0.05:
                het[rng.randrange(len(het))] = False
        elif kind == "wat":
            rname = "HOH"
            nms, het = ["O", "H1", "H2"][: rng.randint(1, 3)], [True] * 3
        elif kind == "het":
            rname = rng.choice(["XYZ", "GOL", "ZN"])
            nms, het = rng.sample(pool, rng.randint(1, 4)), [True] * 4
        elif kind == "copy":  # another hetero group with (a subset of) the ligand's atom names
            rname = rng.choice(["XYZ", "XYZ", "XYZ", "LIG", "KNI"])
            nms = rng.sample(picked, rng.randint(1, len(picked)))
            het = [True] * len(nms)
        else:
            rname = "MIX"
            nms = rng.sample(pool, rng.randint(2, 5))
            het = [rng.random() < 0.6 for _ in nms]
        atoms = []
        for nm, h in zip(nms, het):
            ffhit = {"prot": 0.95, "lig": 0.25, "wat": 0.9, "het": 0.3, "mixed": 0.5, "copy": 0.3}[kind] > rng.random()
            atoms.append([aid, h, nm, f"F{aid}" if ffhit else None])
            aid += 1
        rs.append([rname, kind, atoms])
    return {"mode": mode, "lnames": lnames, "lig": lig, "rs": rs}


def used_lnames(case):
    """residue names carried by the MOL2 atoms (atom k carries lnames[k], the rest lnames[0])"""
    return case["lnames"][: max(1, min(len(case["lnames"]), len(case["lig"])))]


def transfer_truth(case):
    """Ground truth from the generator's labels, not from the code.  Returns (unambiguous, expected):
    unambiguous = no residue other than the ligand bears a MOL2 residue name, the PDB name of the ligand, or
    is atom for atom what the MOL2 file describes (then nothing but the ligand may be touched);
    expected = indices of ligand residues that must be parameterised (named like the MOL2 residue, or - if no
    residue is - exactly described by the MOL2 file, or a namesake of such a ligand residue)."""
    lig, lnames, rs = case["lig"], used_lnames(case), case["rs"]
    lig_pdb_names = {r[0] for r in rs if r[1] == "lig"}
    unamb = not any(r[1] != "lig" and (r[0] in lnames or r[0] in lig_pdb_names or _describes(lig, r[2])) for r in rs)
    if any(r[0] in lnames for r in rs):
        expected = {k for k, r in enumerate(rs) if r[1] == "lig" and r[0] in lnames}
    else:
        found = {r[0] for r in rs if r[1] == "lig" and _describes(lig, r[2])}
        expected = {k for k, r in enumerate(rs) if r[1] == "lig" and r[0] in found}
    return unamb, expected


def transfer_impl(code, case):
    """Run the repo's loop text. Parameters are numbers (the loop adds charges up);
    they are mapped back to the tags the model prints."""
    residues = []
    matched, missing = [], []
    tag = {}
    for rname, _kind, atoms in case["rs"]:
        objs = []
        for aid, het, nm, ff in atoms:
            v = None
            if ff is not None:
                v = 1000.0 + aid
                tag[v] = ff
            a = _Obj(aid=aid, type="HETATM" if het else "ATOM", name=nm, radius=v, ffcharge=v)
            (matched if ff is not None else missing).append(a)
            objs.append(a)
        residues.append(_Obj(atoms=objs, name=rname, res_seq=1))
    ligatoms = {}
    for k, (nm, t, is_h) in enumerate(case["lig"]):
        v = -1.0 - k
        tag[v] = t
        ligatoms[nm] = _Obj(radius=v, charge=v, name=nm, type="H" if is_h else "C.3",
                            res_name=case["lnames"][k] if k < len(case["lnames"]) else case["lnames"][0])
    ns = {
        "biomolecule": _Obj(residues=residues),
        "ligand": _Obj(atoms=ligatoms),
        "matched_atoms": matched,
        "missing_atoms": missing,
        "_LOGGER": logging.getLogger("verif.c16.null"),
    }
    exec(code, ns)  # noqa: S102 - the repo's own loop text
    m = ns["matched_atoms"]
    return ";".join(f"{a.aid}={tag.get(a.ffcharge, 'EXC') if a.ffcharge == a.radius else 'MIXED'}" for a in m) + "|" + ";".join(str(a.aid) for a in ns["missing_atoms"])


def transfer_term(case):
    # residue names actually carried by MOL2 atoms (the code builds a set from the atoms)
    lnames = core.coq_list([core.coq_string(x) for x in used_lnames(case)])
    heavy = core.coq_list([core.coq_string(nm) for nm, _t, h in case["lig"] if not h])
    lig = core.coq_list([f"({core.coq_string(nm)}, {core.coq_string(t)})" for nm, t, _h in case["lig"]])
    rs = core.coq_list([
        "(" + core.coq_string(rname) + ", " + core.coq_list([
            f"({aid}, {'true' if het else 'false'}, {core.coq_string(nm)}, {'Some ' + core.coq_string(ff) if ff is not None else 'None'})"
            for aid, het, nm, ff in atoms]) + ")"
        for rname, _kind, atoms in case["rs"]])
    return f"run_transfer {lnames} {heavy} {lig} {rs}"


def oracle_transfer(ctx, case, out):
    """Model-independent reading of what the repo's loop text did with a generated residue list: the generator
    knows which residue is the ligand (kind 'lig'); no use of the Coq model and none of the code's selection."""
    if out.startswith("EXC"):
        ctx.fail({"site": LIG_SITE, "condition": "loop-raises", "level": "loop-text"}, out, {"transfer": case})
        return
    unamb, expected = transfer_truth(case)
    written = [w.split("=") for w in out.split("|")[0].split(";") if w]
    ids = [int(i) for i, _t in written]
    got = {}
    for i, t in written:
        got.setdefault(int(i), []).append(t)
    ligtag = {nm: t for nm, t, _h in case["lig"]}
    sig0 = {"site": LIG_SITE, "victim_record": "HETATM", "match": "atom-name", "level": "loop-text"}
    bad = []
    if len(ids) != len(set(ids)):
        dup = sorted(i for i in set(ids) if ids.count(i) > 1)
        bad.append(("atom-written-twice", f"atom ids {dup} appended to matched_atoms twice"))
    for k, (rname, kind, atoms) in enumerate(case["rs"]):
        seen_atom_rec = False
        for aid, het, nm, ff in atoms:
            if not het:
                seen_atom_rec = True
            if kind != "lig" and unamb:
                exp = [ff] if ff is not None else []
                if sorted(set(got.get(aid, []))) != exp:
                    bad.append(("non-ligand-residue-receives-ligand-parameters",
                                f"{rname} atom {nm} (id {aid}, force field {ff}) written as {got.get(aid)}"))
            if k in expected and not seen_atom_rec and nm in ligtag:
                if got.get(aid) != [ligtag[nm]]:
                    bad.append(("ligand-atom-not-written-once-with-mol2-parameters",
                                f"{rname} atom {nm} (id {aid}) written as {got.get(aid)}, MOL2 {ligtag[nm]}"))
    nontrivial = unamb and any(k == "lig" for _n, k, _a in case["rs"]) and len(case["rs"]) >= 2
    ctx.evaluated(("transfer", core.sha(case)), nontrivial)
    ctx.count("search:loop-" + case["mode"] + ("" if unamb else "-ambiguous"))
    done = set()
    for cond, txt in bad:
        if cond in done:
            continue
        done.add(cond)
        ctx.fail(dict(sig0, condition=cond), txt, {"transfer": case})


# --------------------------------------------------------------------------
# property oracles on the real code (independent of the model)


def oracle_molecule(ctx, case_id, types, bonds, names, rng, obs):
    """Conservation, radii, renaming and permutation metamorphic checks."""
    from pdb2pqr.ligand import RADII

    case = {"types": types, "bonds": bonds, "names": names}
    n = len(types)
    q, fc, r = obs["q"], obs["fc"], obs["r"]
    dev = abs(sum(q) - sum(fc))
    if not (dev <= 1e-9):
        ctx.fail({"site": "peoe.equilibrate", "condition": "sum-of-charges-differs-from-sum-of-formal-charges"},
                 f"sum(q)={sum(q)!r} sum(formal)={sum(fc)!r}", case)
    docs = set(RADII["zap9"].values()) | set(RADII["bondi"].values())
    for t, x in zip(obs["types"], r):
        if not (isinstance(x, (int, float)) and x > 0 and x in docs):
            ctx.fail({"site": "Mol2Atom.assign_radius", "condition": "radius-not-positive-or-not-from-zap9/bondi"}, f"type {t} radius {x!r}", case)
            break
    # renaming: same order, fresh names
    text2 = mol2_text(types, bonds, random_names(rng, n))
    o2 = impl_all(text2)
    if o2.get("exc") or o2.get("read_exc") or any(abs(a - b) > 1e-9 for a, b in zip(q, o2["q"])) or o2["r"] != r:
        ctx.fail({"site": "Mol2Molecule.assign_parameters", "condition": "result-depends-on-atom-names"}, "renaming the atoms changed a charge/radius", case)
    # permutation of the atoms (bond lines keep their order, endpoints rewritten)
    perm = list(range(n))
    rng.shuffle(perm)  # new position k holds old atom perm[k]
    inv = [0] * n
    for k, i in enumerate(perm):
        inv[i] = k
    t3 = [types[i] for i in perm]
    b3 = [(inv[a], inv[b], w) for a, b, w in bonds]
    o3 = impl_all(mol2_text(t3, b3, [names[i] for i in perm]))
    if o3.get("exc") or o3.get("read_exc") or any(abs(q[i] - o3["q"][inv[i]]) > 1e-9 or r[i] != o3["r"][inv[i]] for i in range(n)):
        ctx.fail({"site": "Mol2Molecule.assign_parameters", "condition": "result-depends-on-atom-order"},
                 "permuting the atoms did not permute the charges", dict(case, perm=perm))
    # full shuffle: atoms, bond lines, bond endpoint order -> same multiset per type;
    # per atom unless the order-dependent phosphate rule decides between equivalent oxygens
    b4 = [((inv[b], inv[a], w) if rng.random() < 0.5 else (inv[a], inv[b], w)) for a, b, w in bonds]
    rng.shuffle(b4)
    o4 = impl_all(mol2_text(t3, b4, random_names(rng, n)))
    if o4.get("exc") or o4.get("read_exc"):
        ctx.fail({"site": "Mol2Molecule.assign_parameters", "condition": "bond-order-shuffle-raises"}, f"{o4.get('exc') or o4.get('read_exc')}", dict(case, perm=perm, bonds4=b4))
    else:
        ms0 = sorted((t, round(x, 8)) for t, x in zip(types, q))
        ms4 = sorted((t, round(x, 8)) for t, x in zip(t3, o4["q"]))
        phos = any(t == "O.3" and b == 1 for t, b in zip(types, obs["bo"]))
        same_atom = all(abs(q[i] - o4["q"][inv[i]]) <= 1e-9 for i in range(n))
        # inconsistently typed phosphate (a bond-order-1 O.2/O.co2 next to a bond-order-1 O.3 on the same P):
        # the candidates of the phosphate rule are not equivalent atoms; BOND-line order (not atom order) then
        # decides the formal charge - outside the property's quantifier, counted and skipped
        mixed = False
        for pi, pt in enumerate(types):
            if pt[0] == "P":
                nb = {j for a, b, _w in bonds for i, j in ((a, b), (b, a)) if i == pi and types[j][0] == "O" and obs["bo"][j] == 1}
                if any(types[j] == "O.3" for j in nb) and any(types[j] != "O.3" for j in nb):
                    mixed = True
        if mixed:
            ctx.count("search:bond-shuffle-skipped-mixed-phosphate")
        elif any(a[0] != b[0] or abs(a[1] - b[1]) > 2e-8 for a, b in zip(ms0, ms4)) or (not phos and not same_atom):
            ctx.fail({"site": "Mol2Molecule.assign_parameters", "condition": "result-depends-on-bond-line-order-beyond-symmetry"},
                     "reordering BOND lines / endpoints changed the charges by more than an exchange between equivalent atoms",
                     dict(case, perm=perm, bonds4=b4))
    charged = any(abs(v) > 0 for v in fc)
    ring = len(bonds) >= n
    ctx.evaluated(("mol", case_id, tuple(types), tuple(bonds)), n >= 2 and len(bonds) >= 1)
    ctx.count("search:charged" if charged else "search:neutral")
    if ring:
        ctx.count("search:cyclic")


# ---- complexes through main_driver ----------------------------------------


def het_line(serial, name, resn, chain, resseq, x, y, z, rec="HETATM"):
    nm = f" {name:<3s}" if len(name) < 4 else name[:4]
    return f"{rec:<6s}{serial:5d} {nm:4s} {resn:>3s} {chain}{resseq:4d}    {x:8.3f}{y:8.3f}{z:8.3f}  1.00  0.00\n"


def protein_lines(nres=5):
    out = []
    for l in open(core.REPO / "tests" / "data" / "1QBS.pdb"):
        if l.startswith("ATOM") and l[21] == "A" and int(l[22:26]) <= nres:
            out.append(l)
    return out


def run_pdb2pqr(d, pdb_text, mol2_path, tag):
    """main_driver on a complex; returns (status, pqr atom rows, abort diagnosis rows)."""
    from pdb2pqr import main as pmain

    P = pmain.build_main_parser()
    pdb = d / f"{tag}.pdb"
    out = d / f"{tag}.pqr"
    pdb.write_text(pdb_text)
    if out.exists():
        out.unlink()
    argv = ["--ff=AMBER", "--keep-chain", "--log-level=CRITICAL"]
    if mol2_path:
        argv.append(f"--ligand={mol2_path}")
    argv += [str(pdb), str(out)]
    _quiet()
    logging.disable(logging.CRITICAL)
    try:
        try:
            pmain.main_driver(P.parse_args(argv))
            status = "ok"
        except Exception as e:  # noqa
            status = f"{type(e).__name__}:{e.__cause__ or e}"
        rows = []
        if status == "ok" and out.exists():
            for l in out.read_text().splitlines():
                if l.startswith(("ATOM", "HETATM")):
                    w = l.split()
                    # rec serial name resn chain resseq x y z q r
                    rows.append({"rec": w[0], "name": w[2], "resn": w[3], "chain": w[4], "resseq": w[5], "q": float(w[-2]), "r": float(w[-1])})
        diag = None
        if status != "ok" and mol2_path:
            # abort: look at the atom objects the run leaves behind (same public steps as main_driver)
            try:
                args = pmain.transform_arguments(P.parse_args(argv))
                definition = pmain.io.get_definitions()
                pdblist, is_cif = pmain.io.get_molecule(args.input_path)
                bio, definition, lig = pmain.setup_molecule(pdblist, definition, args.ligand)
                bio.set_termini(neutraln=args.neutraln, neutralc=args.neutralc)
                bio.update_bonds()
                try:
                    pmain.non_trivial(args=args, biomolecule=bio, ligand=lig, definition=definition, is_cif=is_cif)
                except Exception:  # noqa
                    pass
                diag = []
                for res in bio.residues:
                    for a in res.atoms:
                        diag.append({"rec": a.type, "name": a.name, "resn": res.name, "chain": res.chain_id, "resseq": str(res.res_seq),
                                     "q": a.ffcharge, "r": a.radius})
            except Exception as e:  # noqa
                diag = [{"diag_error": f"{type(e).__name__}: {e}"}]
        return status, rows, diag
    finally:
        logging.disable(logging.NOTSET)
        _quiet()


def key_of(row):
    resn = "WAT" if row["resn"] in ("HOH", "WAT") else row["resn"]
    return (resn, row["chain"], row["resseq"], row["name"])


def oracle_complex(ctx, d, cx):
    """Per-atom provenance and multiplicity of the PQR lines of a complex.

    Baseline = the same complex run without --ligand (non-ligand atoms keep the
    force field's parameters there); ligand parameters = the real
    assign_parameters() on the MOL2 file alone."""
    ligres = tuple(cx.get("ligres") or ("LIG", "L", "400"))
    mol2 = d / f"{cx['tag']}.mol2"
    mol2.write_text(cx["mol2"])
    lig = impl_read(cx["mol2"])
    lig.assign_parameters()
    ligp = {nm: (a.charge, a.radius) for nm, a in lig.atoms.items()}
    st0, base_rows, _ = run_pdb2pqr(d, cx["pdb"], None, cx["tag"] + "_base")
    st1, rows, diag = run_pdb2pqr(d, cx["pdb"], str(mol2), cx["tag"])
    case = {"tag": cx["tag"], "pdb": cx["pdb"], "mol2": cx["mol2"], "status": st1, "ligres": list(ligres),
            "lig_written": cx.get("lig_written", True)}
    ctx.evaluated(("complex", cx["tag"], core.sha(cx["pdb"])), True)
    ctx.count("complex:" + cx["tag"].split("-")[0])
    if st0 != "ok":
        ctx.fail({"site": "main.main_driver", "condition": "baseline-without-ligand-fails"}, f"baseline run failed: {st0}", case)
        return
    base = {}
    for r_ in base_rows:
        base.setdefault(key_of(r_), []).append(r_)
    findings = []  # (signature, text)

    def is_lig(k):
        return k[:3] == ligres

    def victims(observed, aborted):
        for r_ in observed:
            k = key_of(r_)
            if is_lig(k) or r_.get("q") is None:
                continue
            b = base.get(k)
            exp = (round(b[0]["q"], 4), round(b[0]["r"], 4)) if b else None
            got = (round(r_["q"], 4), round(r_["r"], 4))
            if exp is not None and got == exp:
                continue
            if exp is None and aborted:
                # unparameterised hetero atom: still carrying nothing?
                if r_["q"] is None:
                    continue
            lp = ligp.get(r_["name"])
            from_lig = lp is not None and abs(lp[0] - r_["q"]) < 6e-5 and abs(lp[1] - r_["r"]) < 6e-5
            if from_lig:
                sig = {"site": LIG_SITE, "condition": "non-ligand-residue-receives-ligand-parameters", "victim_record": r_["rec"],
                       "match": "atom-name"}
                findings.append((sig, f"{k} carries the ligand's parameters of atom {r_['name']} {got} (force field: {exp})"))
            else:
                findings.append(({"site": "main.non_trivial", "condition": "non-ligand-atom-parameters-changed-by-ligand-option",
                                  "victim_record": r_["rec"]}, f"{k} has {got}, without --ligand {exp}"))

    if st1 == "ok":
        seen = {}
        for r_ in rows:
            seen.setdefault(key_of(r_), []).append(r_)
        for k, lst in seen.items():
            if len(lst) > 1:
                lp = ligp.get(k[3])
                if not is_lig(k) and lp is not None:
                    findings.append(({"site": LIG_SITE, "condition": "atom-written-twice", "victim_record": lst[0]["rec"], "match": "atom-name"},
                                     f"{k} written {len(lst)} times"))
                else:
                    findings.append(({"site": "main.non_trivial", "condition": "atom-written-twice-other", "ligand_atom": is_lig(k)}, f"{k} written {len(lst)} times"))
        victims([lst[0] for k, lst in seen.items()], False)
        for k in base:
            if k not in seen and not is_lig(k):
                findings.append(({"site": "main.non_trivial", "condition": "non-ligand-atom-lost-by-ligand-option"}, f"{k} missing with --ligand"))
        # ligand atoms: exactly once, with the MOL2 parameters (not asked when nothing identifies the ligand:
        # placeholder MOL2 residue name and a heavy atom missing in the structure)
        for nm in cx["lig_pdb_names"] if cx.get("lig_written", True) else []:
            k = ligres + (nm,)
            lst = seen.get(k, [])
            if nm in ligp:
                if len(lst) != 1:
                    if len(lst) == 0:
                        findings.append(({"site": LIG_SITE, "condition": "ligand-atom-not-written"}, f"ligand atom {nm} written {len(lst)} times"))
                elif abs(lst[0]["q"] - ligp[nm][0]) > 6e-5 or abs(lst[0]["r"] - ligp[nm][1]) > 6e-5:
                    findings.append(({"site": LIG_SITE, "condition": "ligand-atom-wrong-parameters"}, f"{nm}: {lst[0]['q']},{lst[0]['r']} vs MOL2 {ligp[nm]}"))
    else:
        if diag and "diag_error" in diag[0]:
            findings.append(({"site": "main.main_driver", "condition": "complex-run-fails-undiagnosed"}, f"{st1} / {diag[0]['diag_error']}"))
        else:
            before = len(findings)
            victims([r_ for r_ in (diag or []) if r_["q"] is not None], True)
            if len(findings) == before:
                findings.append(({"site": "main.main_driver", "condition": "complex-run-fails", "error": st1.split(":")[0]}, f"run with --ligand failed: {st1}"))
            else:
                findings = [(dict(s, outcome="run-aborts-noninteger-charge" if "deviates" in st1 else "run-aborts"), t) for s, t in findings]
    if st1 == "ok":
        findings = [(dict(s, outcome="pqr-written"), t) for s, t in findings]
    done = set()
    for sig, txt in findings:
        h = core.sha(sig)
        if h in done:
            continue
        done.add(h)
        ctx.fail(sig, txt, case)
    cx["observed"] = {"status": st1, "findings": [t for _, t in findings][:4]}
    if cx.get("expect_clean") and findings:
        ctx.notes.append(f"complex {cx['tag']} expected clean: {findings[0][1]}")


ET_TYPES = ["C.3", "C.3", "O.3", "H", "H", "H", "H", "H", "H"]
ET_BONDS = [(0, 1, "1"), (1, 2, "1"), (0, 3, "1"), (0, 4, "1"), (0, 5, "1"), (1, 6, "1"), (1, 7, "1"), (2, 8, "1")]
AC_TYPES = ["O.co2", "C.2", "O.co2", "C.3", "H", "H", "H"]
AC_BONDS = [(0, 1, "2"), (1, 2, "2"), (1, 3, "1"), (3, 4, "1"), (3, 5, "1"), (3, 6, "1")]
CX_SAFE = ["CX1", "CX2", "OX1", "HX1", "HX2", "HX3", "HX4", "HX5", "HX6"]
CX_CLASH = ["C1", "C2", "O1", "H1", "H2", "H3", "H4", "H5", "H6"]


def make_complex(spec):
    """Complex from a declarative spec (also the format of corpus/C16/*.json "complex" entries):
    names/types/bonds = the MOL2 ligand; mol2_resname = residue name in the MOL2 file; pdb_resname = name of the
    ligand residue in the PDB (chain L, 400); pdb_names = its atoms in the PDB (default: all MOL2 atoms);
    waters = [count, [atom names]]; hetero = [[resn, [atom names]], ...] further hetero groups (chain X, 500+);
    ions = [[resn, atom name], ...]; lig_written = False when nothing identifies the ligand."""
    prot = protein_lines(4)
    names = spec["names"]
    pdbn = spec.get("pdb_names") or names
    resn = spec.get("pdb_resname", "LIG")

    def block(nms, rn, chain, resseq, origin, serial):
        return [het_line(serial + i, nm, rn, chain, resseq, origin[0] + 1.4 * i, origin[1] + 0.9 * (i % 2), origin[2] + 0.5 * (i % 3))
                for i, nm in enumerate(nms)]

    coords = [(40.0 + 1.4 * i, 40.0 + 0.9 * (i % 2), 40.0 + 0.5 * (i % 3)) for i in range(len(names))]
    m2 = mol2_text(spec["types"], [tuple(b_) for b_ in spec["bonds"]], names, coords, resname=spec.get("mol2_resname", "LIG"), resseq=400)
    extra = []
    wk, wn = spec.get("waters") or [0, ["O"]]
    for i in range(wk):
        for j, nm in enumerate(wn):
            extra.append(het_line(7000 + 3 * i + j, nm, "HOH", "W", 600 + i, 60.0 + 5.0 * i + 0.8 * j, 10.0 + 0.6 * j, 10.0))
    for k, (rn, nms) in enumerate(spec.get("hetero") or []):
        extra += block(nms, rn, "X", 500 + k, (80.0, 40.0 + 12.0 * k, 40.0), 6000 + 100 * k)
    for k, (rn, nm) in enumerate(spec.get("ions") or []):
        extra.append(het_line(7100 + k, nm, rn, "Z", 700 + k, 70.0, 30.0 + 6.0 * k, 30.0))
    pdb = "".join(prot) + "TER\n" + "".join(block(pdbn, resn, "L", 400, (40.0, 40.0, 40.0), 5000)) + "".join(extra) + "END\n"
    return {"tag": spec["tag"], "pdb": pdb, "mol2": m2, "expect_clean": spec.get("expect_clean", False), "lig_pdb_names": list(pdbn),
            "ligres": [resn, "L", "400"], "lig_written": spec.get("lig_written", True)}


def build_complexes(rng, thorough):
    """Generated complexes (the minimised regression complexes, incl. the former F4 witnesses, are in corpus/C16)."""
    out = []

    def cx(tag, names, types, bonds, expect_clean=True, **kw):
        out.append(make_complex(dict(tag=tag, names=names, types=types, bonds=bonds, expect_clean=expect_clean, **kw)))

    prot_like = ["CA", "CB", "OG", "HA", "HB2", "HB3", "H", "HN", "HG"]
    # control: no name shared with any other hetero group; waters + an unparameterised ion
    cx("clean-waters", CX_SAFE, ET_TYPES, ET_BONDS, waters=[2, ["O"]], ions=[["ZN", "ZN"]])
    # control: ligand names equal protein atom names (ATOM records are never looked at)
    cx("clean-proteinnames", prot_like, ET_TYPES, ET_BONDS, waters=[1, ["O"]])
    # control: charged ligand, waters with explicit hydrogens named differently from the ligand's
    cx("clean-acetate", ["OA1", "CA1", "OA2", "CA2", "HA1", "HA2", "HA3"], AC_TYPES, AC_BONDS, waters=[2, ["O", "H1", "H2"]])
    # placeholder residue name in the MOL2 file (as in the stored 1HPX-ligand.mol2 / examples/ligands): the ligand is
    # KNI in the PDB; waters share H1/H2 with it, a smaller hetero group shares C1 C2, an ion is named like an atom
    cx("placeholder-clash", CX_CLASH, ET_TYPES, ET_BONDS, mol2_resname="UNK", pdb_resname="KNI", waters=[2, ["O", "H1", "H2"]],
       hetero=[["GOL", ["C1", "C2"]]], ions=[["O1", "O1"]])
    # placeholder name and a heavy atom of the ligand missing in the structure: nothing identifies the ligand;
    # nobody else may take its parameters (the ligand itself is not asked for)
    cx("placeholder-incomplete", CX_CLASH, ET_TYPES, ET_BONDS, mol2_resname="<1>", pdb_resname="KNI", pdb_names=CX_CLASH[1:],
       waters=[1, ["O", "H1", "H2"]], hetero=[["XYZ", CX_CLASH[1:5]]], lig_written=False)
    # randomised: generated ligand, naming scheme, MOL2 residue name, waters, optional hetero group sharing names
    for k in range(16 if thorough else 5):
        g = gen_organic(rng, maxn=10)
        scheme = rng.choice(["safe", "default", "default"])
        names = [f"{t.split('.')[0].upper()[:1]}Q{i}" for i, t in enumerate(g.types)] if scheme == "safe" else default_names(g.types)
        m2res, pdbres = rng.choice([("LIG", "LIG"), ("LIG", "LIG"), ("UNK", "LIG"), ("<1>", "DMP"), ("DMP", "DMP")])
        hetero = []
        if rng.random() < 0.6:
            sub = rng.sample(names, rng.randint(1, len(names)))
            heavy = [n for n, t in zip(names, g.types) if t != "H"]
            if m2res != pdbres and set(heavy) <= set(sub):
                sub.remove(heavy[0])  # an atom-for-atom copy cannot be told from the ligand without a name
            if sub:
                hetero.append(["XYZ", sub])
        cx(f"random-{scheme}-{'named' if m2res == pdbres else 'placeholder'}-{k}", names, g.types, g.bonds, expect_clean=True, mol2_resname=m2res, pdb_resname=pdbres,
           waters=[rng.randint(0, 2), rng.choice([["O"], ["O", "H1", "H2"]])], hetero=hetero)
    if thorough:
        cx("clash-1qbs-names", default_names(ET_TYPES), ET_TYPES, ET_BONDS, waters=[3, ["O"]])
        cx("clean-nowater", CX_SAFE, ET_TYPES, ET_BONDS)
        cx("clash-partialcopy", CX_CLASH, ET_TYPES, ET_BONDS, hetero=[["XYZ", CX_CLASH[:3]]])
        cx("placeholder-heavyonly-copy", CX_CLASH, ET_TYPES, ET_BONDS, mol2_resname="UNK", pdb_resname="KNI",
           hetero=[["XYZ", CX_CLASH[:2] + ["Q9"]]], waters=[1, ["O", "H1", "H2"]])
    return out


# --------------------------------------------------------------------------
# class audit 2/3: --ligand under the OTHER options / entry points and in the legal LAYOUTS of a complex.
# Expected values come from the input: the MOL2-derived (charge, radius) of every ligand atom by name, the declared
# total formal charge of the ligand, and the same run WITHOUT --ligand for every other atom.

LAT_FFS = ["AMBER", "CHARMM", "PARSE", "SWANSON", "TYL06", "PEOEPB"]
# (names, types, bonds, total formal charge by the documented rule)
LAT_LIGANDS = {
    "ethanol": (CX_CLASH, ET_TYPES, ET_BONDS, 0),
    "acetate": (["O1", "C1", "O2", "C2", "H1", "H2", "H3"], AC_TYPES, AC_BONDS, -1),
    "acetate-ar": (["OA", "CA", "OB", "CB", "HA", "HB", "HC"], AC_TYPES, [(0, 1, "ar"), (1, 2, "ar"), (1, 3, "1"), (3, 4, "1"), (3, 5, "1"), (3, 6, "1")], -1),
    "methylammonium": (["N1", "C1", "HN1", "HN2", "HN3", "H1", "H2", "H3"], ["N.4", "C.3", "H", "H", "H", "H", "H", "H"],
                       [(0, 1, "1"), (0, 2, "1"), (0, 3, "1"), (0, 4, "1"), (1, 5, "1"), (1, 6, "1"), (1, 7, "1")], 1),
    "ammonium-n3": (["N1", "C1", "HN1", "HN2", "HN3", "H1", "H2", "H3"], ["N.3", "C.3", "H", "H", "H", "H", "H", "H"],
                    [(0, 1, "1"), (0, 2, "1"), (0, 3, "1"), (0, 4, "1"), (1, 5, "1"), (1, 6, "1"), (1, 7, "1")], 1),
    # O=P(O-)(O-)OC: by the documented phosphate rule only the first single-bonded O.3 of the P atom's bond list is -1
    "methylphosphate": (["P1", "O1", "O2", "O3", "O4", "C1", "H1", "H2", "H3"], ["P.3", "O.2", "O.3", "O.3", "O.3", "C.3", "H", "H", "H"],
                        [(0, 1, "2"), (0, 2, "1"), (0, 3, "1"), (0, 4, "1"), (4, 5, "1"), (5, 6, "1"), (5, 7, "1"), (5, 8, "1")], -1),
    "nitromethane": (["C1", "N1", "O1", "O2", "H1", "H2", "H3"], ["C.3", "N.pl3", "O.2", "O.2", "H", "H", "H"],
                     [(0, 1, "1"), (1, 2, "2"), (1, 3, "2"), (0, 4, "1"), (0, 5, "1"), (0, 6, "1")], None),
    "pyridine": (["N1", "C2", "C3", "C4", "C5", "C6", "H2", "H3", "H4", "H5", "H6"], ["N.ar"] + ["C.ar"] * 5 + ["H"] * 5,
                 [(0, 1, "ar"), (1, 2, "ar"), (2, 3, "ar"), (3, 4, "ar"), (4, 5, "ar"), (5, 0, "ar")] + [(k, k + 5, "1") for k in range(1, 6)], 0),
}


def prot_chain(chain, nres, shift=0.0, source="A"):
    out = []
    for l in open(core.REPO / "tests" / "data" / "1QBS.pdb"):
        if l.startswith("ATOM") and l[21] == source and int(l[22:26]) <= nres:
            x = float(l[30:38]) + shift
            out.append(l[:21] + chain + l[22:30] + f"{x:8.3f}" + l[38:])
    return out


def gen_lattice_case(rng, k):
    """One complex = ligand + MOL2 spelling + layout of the PDB + option set + entry point, all drawn from the seed."""
    lname = rng.choice(list(LAT_LIGANDS))
    names, types, bonds, total = LAT_LIGANDS[lname]
    if rng.random() < 0.2:
        g = gen_organic(rng, maxn=9)
        lname, names, types, bonds, total = "organic", default_names(g.types), g.types, g.bonds, None
    mixed = rng.random() < 0.35
    if mixed:  # the MOL2 file AND the PDB records spell the names with lower-case letters (Cl1, Ha / HA): same names, must match
        names = mixed_case_names(rng, names)
    n = len(names)
    pdb_res = rng.choice(["LIG", "LIG", "DMP", "L01"])
    m2_res = pdb_res if rng.random() < 0.7 else rng.choice(["UNK", "<1>"])
    # --- MOL2 text: the harness's plain writer or another legal spelling of the same records
    gt = gt_of(types, bonds, names, rng, resname=m2_res)
    style = rng.choice(["plain", "respelled", "crlf-comments", "two-molecules"])
    if style == "plain":
        mol2 = mol2_text(types, bonds, names, resname=m2_res, resseq=400)
    elif style == "respelled":
        mol2 = render_text(rng, gt, trailer=TRAILERS[0])
    elif style == "crlf-comments":
        mol2 = render_text(rng, gt, style={"eol": "\r\n", "seps": [" ", "\t"]}, header=["# ligand for pdb2pqr", "#", "@<TRIPOS>MOLECULE", "lig", f"{n} {len(bonds)} 1", "SMALL", "USER_CHARGES"], trailer=TRAILERS[0])
    else:  # a second @<TRIPOS>MOLECULE block after the SUBSTRUCTURE section of the first
        other = mol2_text(["C.3", "Cl", "H", "H", "H"], [(0, 1, "1"), (0, 2, "1"), (0, 3, "1"), (0, 4, "1")], ["CX", "CLX", "HX1", "HX2", "HX3"], resname="OTH")
        mol2 = mol2_text(types, bonds, names, resname=m2_res, resseq=400) + other
    # --- PDB layout
    two_chains = rng.random() < 0.4
    lig_chain = rng.choice(["L", "L", "A", " ", "B" if two_chains else "L"])
    position = rng.choice(["after", "after", "before", "between" if two_chains else "after"])
    copies = 2 if rng.random() < 0.25 else 1
    order = list(range(n))
    if rng.random() < 0.5:
        rng.shuffle(order)
    case_names = (not mixed) and rng.random() < 0.06 and any(nm.lower() != nm for nm in names)
    interleave = rng.random() < 0.2
    ter_after_prot = rng.random() < 0.7
    other_lig = rng.random() < 0.35
    nwat = rng.randint(0, 2)
    wat_names = rng.choice([["O"], ["O", "H1", "H2"]])
    wat_chain = rng.choice(["W", "A", lig_chain if lig_chain != " " else "W"])
    serial = [0]

    def het(nm, rn, ch, rs, x, y, z):
        serial[0] += 1
        return het_line(4000 + serial[0], nm, rn, ch, rs, x, y, z)

    def water(i):
        return [het(nm, "HOH", wat_chain, 600 + i, 60.0 + 5.0 * i + 0.8 * j, 10.0 + 0.6 * j, 10.0) for j, nm in enumerate(wat_names)]

    waters = [water(i) for i in range(nwat)]
    lig_resseqs = [400, 401][:copies]
    lig_chains = [lig_chain, lig_chain if rng.random() < 0.5 else "M"][:copies]
    lig_blocks = []
    for c in range(copies):
        o = 40.0 + 35.0 * c
        recs = [het(names[i].lower() if case_names else names[i], pdb_res, lig_chains[c], lig_resseqs[c], o + 1.4 * i, o + 0.9 * (i % 2), o + 0.5 * (i % 3)) for i in order]
        if interleave and waters and c == 0 and len(recs) > 2:
            cut = rng.randrange(1, len(recs))
            recs = recs[:cut] + waters.pop(0) + recs[cut:]
        lig_blocks += recs
    oth = []
    if other_lig:  # a second, different ligand for which no MOL2 file is given; may share atom names with the first
        onames = rng.choice([["CX", "CLX"], names[: max(1, n // 2)], ["C1", "O1", "ZZ"]])
        heavy = {nm for nm, t in zip(names, types) if t != "H"}
        if m2_res != pdb_res and heavy <= set(onames) <= set(names):
            onames = ["CX", "CLX"]  # under a placeholder name a heavy-atom copy of the ligand IS the ligand (hydrogens optional): ambiguous input
        oth = [het(nm, "OTH", rng.choice(["L", "X", lig_chain if lig_chain != " " else "X"]), 450, 90.0 + 1.4 * i, 40.0, 40.0 + 0.5 * i) for i, nm in enumerate(onames)]
    pa = prot_chain("A", 4)
    pb = prot_chain("B", 3, shift=60.0) if two_chains else []
    ter = ["TER\n"] if ter_after_prot else []
    rest = oth + [l for w in waters for l in w]
    if rng.random() < 0.5:
        rest = rest[::-1] if not oth else [l for w in waters for l in w] + oth
    if position == "before":
        lines = lig_blocks + pa + ter + pb + (ter if pb else []) + rest
    elif position == "between":
        lines = pa + ter + lig_blocks + pb + ter + rest
    else:
        lines = pa + ter + pb + (ter if pb else []) + (rest + lig_blocks if rng.random() < 0.3 else lig_blocks + rest)
    pdb = "".join(lines) + "END\n"
    # --- options / entry point
    ff = rng.choice(LAT_FFS)
    opts = [f"--ff={ff}"]
    for o, pr in (("--noopt", 0.3), ("--nodebump", 0.3), ("--drop-water", 0.3), ("--keep-chain", 0.5), ("--whitespace", 0.3), ("--include-header", 0.15)):
        if rng.random() < pr:
            opts.append(o)
    if rng.random() < 0.3:
        opts.append(f"--ffout={rng.choice(LAT_FFS[:5])}")
    files = []
    if rng.random() < 0.25:
        files.append("--pdb-output")
    if rng.random() < 0.25:
        files.append("--apbs-input")
    propka = rng.random() < 0.25
    if propka:
        opts += ["--titration-state-method=propka", f"--with-ph={rng.choice(['7', '4.5', '9.0'])}"]
    if ff == "PARSE" and rng.random() < 0.3:
        opts.append(rng.choice(["--neutraln", "--neutralc"]))
    entry = rng.choice(["main_driver", "main_driver", "run_pdb2pqr", "main"]) if not propka else "main_driver"
    layout = {"ligand": lname, "mol2_style": style, "mol2_resname": m2_res, "position": position, "lig_chain": lig_chain, "copies": copies,
              "reordered": order != list(range(n)), "lowercase_names": case_names, "mixed_case_names_both_sides": mixed and any(nm != nm.upper() for nm in names), "interleaved_with_water": interleave and nwat > 0,
              "ter_after_protein": ter_after_prot, "other_ligand": other_lig, "two_chains": two_chains, "waters": nwat, "water_chain": wat_chain}
    return {"tag": f"lattice-{k}", "pdb": pdb, "mol2": mol2, "opts": opts, "files": files, "propka_stub": propka, "entry": entry,
            "lig_resseqs": lig_resseqs, "lig_names": list(names), "lig_types": list(types), "lig_bonds": [list(b) for b in bonds], "expected_total": total,
            "lig_written": not case_names, "layout": layout}


def fixed_lattice_cases():
    """layouts every run must see whatever the seed: ligand bound twice (other chain / same chain), ligand records
    interrupted by a water (MOL2 residue name = the PDB's, and a placeholder: finding C16-F6), ligand before the protein
    under the protein's chain ID, HETATM order reversed"""
    names, types, bonds, total = LAT_LIGANDS["acetate"]
    pa = prot_chain("A", 4)
    out = []

    def lig(chain, rs, o, order=None):
        return [het_line(5000 + 20 * (rs - 400) + k, names[i], "LIG", chain, rs, o + 1.4 * i, o + 0.9 * (i % 2), o + 0.5 * (i % 3))
                for k, i in enumerate(order or range(len(names)))]

    wat = [het_line(7000, "O", "HOH", "W", 600, 60.0, 10.0, 10.0)]

    def add(tag, lines, m2res, resseqs, opts):
        out.append({"tag": "fixed-" + tag, "pdb": "".join(lines) + "END\n", "mol2": mol2_text(types, bonds, names, resname=m2res, resseq=400),
                    "opts": opts, "files": [], "propka_stub": False, "entry": "main_driver", "lig_resseqs": resseqs, "lig_names": list(names),
                    "lig_types": list(types), "lig_bonds": [list(b) for b in bonds], "expected_total": total, "lig_written": True, "layout": {"fixed": tag}})

    add("two-copies-two-chains", pa + ["TER\n"] + lig("L", 400, 40.0) + lig("M", 401, 75.0), "LIG", [400, 401], ["--ff=AMBER", "--keep-chain"])
    add("two-copies-one-chain", pa + ["TER\n"] + lig("L", 400, 40.0) + lig("L", 401, 75.0), "LIG", [400, 401], ["--ff=PARSE"])
    add("two-copies-placeholder", pa + ["TER\n"] + lig("L", 400, 40.0) + wat + lig("M", 401, 75.0), "UNK", [400, 401], ["--ff=CHARMM", "--keep-chain", "--whitespace"])
    l0 = lig("L", 400, 40.0)
    add("noncontiguous-named", pa + ["TER\n"] + l0[:3] + wat + l0[3:], "LIG", [400], ["--ff=AMBER", "--keep-chain"])
    add("noncontiguous-placeholder", pa + ["TER\n"] + l0[:3] + wat + l0[3:], "UNK", [400], ["--ff=AMBER", "--keep-chain"])
    # chloro-bromo-methane with the names a MOL2 writer gives (Cl1, Br2, Ha / HA): the PDB records carry the SAME names
    names, types, bonds, total = ["C1", "Cl1", "Br2", "Ha", "HA"], ["C.3", "Cl", "Br", "H", "H"], [(0, 1, "1"), (0, 2, "1"), (0, 3, "1"), (0, 4, "1")], 0
    add("mixed-case-names-both-sides", pa + ["TER\n"] + lig("L", 400, 40.0) + wat, "LIG", [400], ["--ff=AMBER", "--keep-chain"])
    names = ["C1", "Cl1", "Br2", "H1", "h2"]  # no two names equal up to case
    add("lower-case-letters-both-sides", pa + ["TER\n"] + lig("L", 400, 40.0) + wat, "LIG", [400], ["--ff=PARSE", "--whitespace"])
    names, types, bonds, total = LAT_LIGANDS["acetate"]
    add("before-protein-same-chain-reversed", lig("A", 400, 40.0, order=list(range(len(names)))[::-1]) + pa + ["TER\n"] + wat, "LIG", [400], ["--ff=SWANSON", "--noopt", "--nodebump"])
    return out


def pqr_rows(path):
    """atom rows of a PQR whatever the options (chain column present or not, --whitespace): fields from both ends"""
    rows = []
    for l in path.read_text().splitlines():
        if l.startswith(("ATOM", "HETATM")):
            w = l.split()
            if len(w) < 9:
                rows.append({"unparsed": l})
                continue
            if len(w) not in (10, 11):  # fields run together (e.g. 4-letter residue names of --ffout): not this property's matter
                rows.append({"rec": w[0], "name": None, "resn": None, "chain": "", "resseq": w[-6], "q": w[-2], "r": w[-1], "raw": " ".join(w[:1] + w[2:])})
                continue
            rows.append({"rec": w[0], "name": w[2], "resn": w[3], "chain": w[4] if len(w) == 11 else "", "resseq": w[-6], "q": w[-2], "r": w[-1],
                         "raw": " ".join(w[:1] + w[2:])})
    return rows


def lattice_run(d, case, with_ligand):
    from pdb2pqr import main as pmain

    tag = case["tag"] + ("" if with_ligand else "_base")
    pdb, out, mol2 = d / f"{tag}.pdb", d / f"{tag}.pqr", d / f"{case['tag']}.mol2"
    pdb.write_text(case["pdb"])
    mol2.write_bytes(case["mol2"].encode("utf-8"))
    if out.exists():
        out.unlink()
    argv = list(case["opts"]) + ["--log-level=CRITICAL"]
    for f in case["files"]:
        argv.append(f"{f}={d / (tag + ('.out.pdb' if f == '--pdb-output' else '.in'))}")
    if with_ligand:
        argv.append(f"--ligand={mol2}")
    argv += [str(pdb), str(out)]
    _quiet()
    logging.disable(logging.CRITICAL)
    saved_propka, saved_argv = pmain.run_propka, list(os.sys.argv)
    if case["propka_stub"]:
        pmain.run_propka = lambda a, b: ([], "stub pKa table (harness)")
    try:
        try:
            if case["entry"] == "run_pdb2pqr":
                pmain.run_pdb2pqr(argv)
            elif case["entry"] == "main":
                os.sys.argv = ["pdb2pqr"] + argv
                pmain.main()
            else:
                pmain.main_driver(pmain.build_main_parser().parse_args(argv))
            status = "ok"
        except SystemExit as e:
            status = "ok" if not e.code else f"SystemExit:{e.code}"
        except Exception as e:  # noqa
            status = f"{type(e).__name__}:{str(e.__cause__ or e)[:200]}"
    finally:
        pmain.run_propka = saved_propka
        os.sys.argv = saved_argv
        logging.disable(logging.NOTSET)
        _quiet()
    return status, (pqr_rows(out) if status == "ok" and out.exists() else [])


def not_written_cause(case, m2_resnames, heavy, rs):
    """Diagnosis from the INPUT only: is this the layout of finding C16-F6 (MOL2 residue name occurs nowhere in the PDB
    and the ligand's records are not contiguous, with heavy atoms on both sides of the gap)?"""
    recs = [l for l in case["pdb"].splitlines() if l.startswith(("ATOM", "HETATM"))]
    mine = [k for k, l in enumerate(recs) if l[22:26].strip() == str(rs)]
    pdb_names = {l[17:20].strip() for l in recs}
    placeholder = not (set(m2_resnames) & pdb_names)
    if not mine or not placeholder or mine[-1] - mine[0] + 1 == len(mine):
        return "none"
    frags, cur = [], []
    for k in range(mine[0], mine[-1] + 1):
        if k in mine:
            cur.append(recs[k][12:16].strip())
        elif cur:
            frags.append(cur)
            cur = []
    frags.append(cur)
    return "placeholder-name-with-noncontiguous-records" if not any(heavy <= set(f) for f in frags) else "none"


def oracle_lattice(ctx, d, case):
    # expected ligand parameters BY POSITION from a plain rendering with neutral names (A0, A1 ...): what a name looks
    # like (case, primes, length) must not enter the expectation
    names = case["lig_names"]
    findings = []
    lig = None
    try:
        lig = impl_read(case["mol2"])
    except Exception as e:  # noqa
        findings.append(({"site": READ_SITE, "condition": "parsed-molecule-differs-from-text", "field": "raises:" + type(e).__name__},
                         f"the ligand file (names {names[:6]}) is refused: {type(e).__name__}: {str(e)[:80]}"))
    if case.get("lig_bonds") is not None:
        ref = impl_read(mol2_text(case["lig_types"], [tuple(b) for b in case["lig_bonds"]], [f"A{i}" for i in range(len(names))]))
        ref.assign_parameters()
        ratoms = list(ref.atoms.values())
    else:  # older replay records
        ref = lig
        ref.assign_parameters()
        ratoms = [ref.atoms[nm] for nm in names]
    ligp = {nm: (a.charge, a.radius) for nm, a in zip(names, ratoms)}
    fsum = sum(a.formal_charge for a in ratoms)
    heavy = {nm for nm, a in zip(names, ratoms) if a.type != "H"}
    m2_resnames = {a.res_name for a in lig.atoms.values()} if lig is not None else {case["layout"].get("mol2_resname", "LIG")}
    st0, base = lattice_run(d, case, False)
    st1, rows = lattice_run(d, case, True)
    rec = {k_: case[k_] for k_ in ("tag", "pdb", "mol2", "opts", "files", "propka_stub", "entry", "lig_resseqs", "lig_names", "lig_types",
                                   "expected_total", "lig_written", "layout")}
    rec["lig_bonds"] = case.get("lig_bonds")
    rec = {"lattice": rec, "status": st1}
    ctx.evaluated(("lattice", core.sha([case["pdb"], case["mol2"], case["opts"], case["entry"]])), True)
    ctx.count("lattice:entry-" + case["entry"])
    for o in case["opts"] + case["files"]:
        ctx.count("lattice:opt" + o.split("=")[0] + ("=" + o.split("=")[1] if o.startswith(("--ff=", "--ffout=")) else ""))
    for k_, v in case["layout"].items():
        if k_ not in ("mol2_resname", "waters"):
            ctx.count(f"lattice:layout-{k_}={v}")
    if lig is not None and (list(lig.atoms)[: len(names)] != list(names) or [a.type for a in list(lig.atoms.values())[: len(names)]] != [canon_type(t) for t in case["lig_types"]]):
        findings.append(({"site": READ_SITE, "condition": "parsed-molecule-differs-from-text", "field": "atom-name" if list(lig.atoms)[: len(names)] != list(names) else "atom-type"},
                         f"atoms read {list(lig.atoms)[:6]} vs written {list(names)[:6]}"))
    if case["expected_total"] is not None and abs(fsum - case["expected_total"]) > 1e-9:
        findings.append(({"site": "Mol2Atom.formal_charge", "condition": "total-formal-charge-differs-from-documented-rule"},
                         f"{case['layout']['ligand']}: sum of formal charges {fsum}, by the rule {case['expected_total']}"))
    if st0 != "ok":
        ctx.fail({"site": "main.main_driver", "condition": "baseline-without-ligand-fails"}, f"run without --ligand failed: {st0} (options {case['opts']})", rec)
        return
    ligrs = {str(r_) for r_ in case["lig_resseqs"]}
    if st1 != "ok":
        findings.append(({"site": "main.main_driver", "condition": "complex-run-fails", "error": st1.split(":")[0]}, f"run with --ligand failed: {st1}"))
    else:
        if any("unparsed" in r_ for r_ in rows + base):
            findings.append(({"site": "main.print_pqr", "condition": "pqr-row-unreadable"}, str([r_ for r_ in rows + base if "unparsed" in r_][:1])))
        rows = [r_ for r_ in rows if "unparsed" not in r_]
        base = [r_ for r_ in base if "unparsed" not in r_]
        # every row outside the ligand: identical text (serial number aside) to the run without --ligand
        other = sorted(r_["raw"] for r_ in rows if r_["resseq"] not in ligrs)
        other0 = sorted(r_["raw"] for r_ in base if r_["resseq"] not in ligrs)
        if other != other0:
            ident = lambda x: " ".join(x.split()[:-2])  # noqa: E731  (everything but charge and radius)
            k0, k1 = [ident(x) for x in other0], [ident(x) for x in other]
            cond = "non-ligand-atom-lost-by-ligand-option" if set(k0) - set(k1) else "atom-written-twice-other" if sorted(set(k1)) == sorted(set(k0)) and len(k1) != len(k0) \
                else "non-ligand-atom-added-by-ligand-option" if set(k1) - set(k0) else "non-ligand-atom-parameters-changed-by-ligand-option"
            diff = [x for x in other if x not in other0][:2] + ["without --ligand: " + x for x in other0 if x not in other][:2]
            findings.append(({"site": "main.non_trivial", "condition": cond}, f"rows outside the ligand differ from the run without --ligand: {diff}"))
        for rs in sorted(ligrs):
            mine = [r_ for r_ in rows if r_["resseq"] == rs]
            if not case["lig_written"]:
                continue
            tot = 0.0
            for nm in case["lig_names"]:
                hit = [r_ for r_ in mine if r_["name"] == nm]
                if len(hit) == 0:
                    findings.append(({"site": LIG_SITE, "condition": "ligand-atom-not-written", "cause": not_written_cause(case, m2_resnames, heavy, rs)},
                                     f"ligand copy {rs}: atom {nm} written 0 times"))
                elif len(hit) > 1:
                    findings.append(({"site": "main.non_trivial", "condition": "atom-written-twice-other", "ligand_atom": True}, f"ligand copy {rs}: atom {nm} written {len(hit)} times"))
                elif abs(float(hit[0]["q"]) - ligp[nm][0]) > 6e-5 or abs(float(hit[0]["r"]) - ligp[nm][1]) > 6e-5:
                    findings.append(({"site": LIG_SITE, "condition": "ligand-atom-wrong-parameters"}, f"ligand copy {rs}: {nm} has {hit[0]['q']},{hit[0]['r']}; MOL2-derived {ligp[nm]}"))
                else:
                    tot += float(hit[0]["q"])
            extra = [r_["name"] for r_ in mine if r_["name"] not in case["lig_names"]]
            if extra:
                findings.append(({"site": LIG_SITE, "condition": "ligand-residue-has-unknown-atoms"}, f"ligand copy {rs}: rows {extra[:4]} are not atoms of the MOL2 file"))
            if not any(f_[0]["site"] == LIG_SITE for f_ in findings) and abs(tot - fsum) > 5e-5 * len(case["lig_names"]) + 1e-9:
                findings.append(({"site": LIG_SITE, "condition": "ligand-charges-do-not-sum-to-formal-charge"}, f"ligand copy {rs}: sum {tot} vs formal {fsum}"))
    done = set()
    for sig, txt in findings:
        h = core.sha(sig)
        if h not in done:
            done.add(h)
            ctx.fail(sig, f"{txt} | options {case['opts']} entry {case['entry']} layout {case['layout']}", rec)
    case["observed"] = {"status": st1, "findings": [t for _, t in findings][:3]}


# --------------------------------------------------------------------------
# radius tables: every ordered (primary, secondary) pair, call histories, immutability of the tables

RADII_SITE = "Mol2Molecule.assign_radii"
USER_TABLE = {"C.3": 1.9, "O": 1.6, "P": 2.0, "H": 1.0, "Br": 2.05, "O.co2": 1.66}
RADII_LIGANDS = {
    # typed entry O.co2 (zap9 / user only), O and P and Br only outside zap9, N and S and halogens outside the user table
    "carboxylate": (["O.co2", "C.2", "O.co2", "C.3", "H", "H", "H"], [(0, 1, "ar"), (1, 2, "ar"), (1, 3, "1"), (3, 4, "1"), (3, 5, "1"), (3, 6, "1")]),
    "phosphate-bromide": (["P.3", "O.2", "O.3", "O.3", "O.3", "C.3", "Br", "H", "H"],
                          [(0, 1, "2"), (0, 2, "1"), (0, 3, "1"), (0, 4, "1"), (4, 5, "1"), (5, 6, "1"), (5, 7, "1"), (5, 8, "1")]),
    "hetero": (["C.ar", "N.ar", "C.ar", "S.3", "Cl", "F", "I", "N.4", "H", "H", "H", "H", "O.3", "H"],
               [(0, 1, "ar"), (1, 2, "ar"), (2, 0, "ar"), (0, 3, "1"), (3, 4, "1"), (2, 5, "1"), (2, 6, "1"), (3, 7, "1"), (7, 8, "1"),
                (7, 9, "1"), (7, 10, "1"), (1, 11, "1"), (0, 12, "1"), (12, 13, "1")]),
}
TABLE_NAMES = ["zap9", "bondi", "user"]


def take_pristine():
    """deep copies of the module-level radius tables; taken before anything in this run calls the ligand code"""
    import copy

    from pdb2pqr.ligand import RADII

    return copy.deepcopy(RADII)


def restore_tables(pristine):
    """put the module-level tables back IN PLACE (default arguments are bound to these very objects)"""
    from pdb2pqr.ligand import RADII

    for k in list(RADII):
        if k not in pristine:
            del RADII[k]
    for k, v in pristine.items():
        if k in RADII and isinstance(RADII[k], dict):
            if RADII[k] != v:
                RADII[k].clear()
                RADII[k].update(v)
        else:
            RADII[k] = dict(v)


def rule_radius(t, prim, sec):
    """the documented rule from plain dicts: primary by Sybyl type, by element, then the backup likewise"""
    e = t.split(".")[0].upper()
    for tab in (prim, sec):
        for key in (t, e):
            if key in tab:
                return tab[key]
    return None


def radii_call(lig, pair, user, how):
    """One call on a fresh molecule object with the LIVE module tables (as a caller would pass them)."""
    from pdb2pqr.ligand import RADII

    types, bonds = RADII_LIGANDS[lig]
    m = impl_read(mol2_text(types, bonds, default_names(types)))
    tabs = {"zap9": RADII.get("zap9"), "bondi": RADII.get("bondi"), "user": user}
    p, s_ = tabs[pair[0]], tabs[pair[1]]
    try:
        if how == "default":
            m.assign_parameters()
        elif how == "parameters":
            m.assign_parameters(p, s_)
        else:
            m.assign_radii(p, s_)
    except KeyError:
        return "KeyError"
    except Exception as e:  # noqa
        return "EXC:" + type(e).__name__
    return [a.radius for a in m.atoms.values()]


def run_radii_history(pristine, lig, history):
    """history = [[primary, secondary, how], ...] in ONE process state starting from the pristine tables.
    Returns per call: result, result of the same call from a fresh state, the rule's answer, tables that changed."""
    from pdb2pqr.ligand import RADII

    types = RADII_LIGANDS[lig][0]
    out = []
    fresh = []
    for pr, se, how in history:
        restore_tables(pristine)
        fresh.append(radii_call(lig, (pr, se), dict(USER_TABLE), how))
    restore_tables(pristine)
    user = dict(USER_TABLE)
    for k, (pr, se, how) in enumerate(history):
        got = radii_call(lig, (pr, se), user, how)
        ptab = {"zap9": pristine["zap9"], "bondi": pristine["bondi"], "user": USER_TABLE}
        exp = [rule_radius(t, ptab[pr], ptab[se]) for t in types]
        exp = "KeyError" if any(v is None for v in exp) else exp
        changed = sorted(k_ for k_ in set(pristine) | set(RADII) if RADII.get(k_) != pristine.get(k_)) + (["user"] if user != USER_TABLE else [])
        out.append({"call": [pr, se, how], "got": got, "fresh": fresh[k], "rule": exp, "changed": changed})
    restore_tables(pristine)
    return out


def oracle_radii_history(ctx, pristine, lig, history):
    res = run_radii_history(pristine, lig, history)
    case = {"radii_history": history, "ligand": lig}
    ctx.evaluated(("radii", lig, core.sha(history)), len(history) >= 1)
    ctx.count(f"search:radii-history-len{len(history)}")
    done = set()
    nfail = 0

    def fail(cond, txt, k):
        nonlocal nfail
        if cond in done:
            return
        done.add(cond)
        nfail += 1
        ctx.fail({"site": RADII_SITE, "condition": cond}, txt, dict(case, failing_call=k))

    for k, r in enumerate(res):
        pr, se, how = r["call"]
        if r["fresh"] != r["rule"]:
            bad = "raises/returns" if isinstance(r["fresh"], str) or isinstance(r["rule"], str) else \
                [(t, a, b) for t, a, b in zip(RADII_LIGANDS[lig][0], r["fresh"], r["rule"]) if a != b][:3]
            fail("radius-not-from-selected-tables", f"{lig}: {how}(primary={pr}, secondary={se}) from a fresh state: (type, got, rule) {bad}", k)
        if r["changed"]:
            fail("mutates-module-table", f"{lig}: after {how}(primary={pr}, secondary={se}) the table(s) {r['changed']} differ from their state at import", k)
        if r["got"] != r["fresh"]:
            bad = "raises/returns" if isinstance(r["got"], str) or isinstance(r["fresh"], str) else \
                [(t, a, b) for t, a, b in zip(RADII_LIGANDS[lig][0], r["got"], r["fresh"]) if a != b][:3]
            fail("depends-on-earlier-calls", f"{lig}: call {k + 1} of {[c[:2] for c in history]}: (type, in this history, from a fresh state) {bad}", k)
    return res, nfail


def radii_histories(rng, thorough):
    pairs = [(a, b) for a in TABLE_NAMES for b in TABLE_NAMES]
    H = []
    for lig in RADII_LIGANDS:
        for a in pairs:
            H.append((lig, [[a[0], a[1], "radii"]]))
            H.append((lig, [["zap9", "bondi", "default"], [a[0], a[1], "parameters" if a[0] != "user" or a[1] != "user" else "radii"]]))
            for b in rng.sample([q for q in pairs if q != a], 8 if thorough else 2):
                H.append((lig, [[a[0], a[1], "radii"], [b[0], b[1], "radii"], [a[0], a[1], "radii"]]))
    return H


def coq_table(d):
    return core.coq_list([f"({core.coq_string(k)}, {core.coq_Z(round(v * 100))})" for k, v in d.items()])


def radii_level(ctx, rng, pristine, disagree):
    """(1) search: every ordered pair of tables, histories, immutability; (2) tie of Model.Peoe.radius_from."""
    ok = True
    for k, v in list(pristine.get("zap9", {}).items()) + list(pristine.get("bondi", {}).items()) + list(USER_TABLE.items()):
        if abs(v * 100 - round(v * 100)) > 1e-9:
            ctx.broke("correspondence-broken", "radius tables are not multiples of 0.01 A (model unit)", f"{k}: {v}")
            return False
    allres = []
    for lig, hist in radii_histories(rng, ctx.thorough):
        res, _ = oracle_radii_history(ctx, pristine, lig, hist)
        allres.append((lig, hist, res))
    # model tie: radius_from on the pristine tables for every pair and ligand vs the code's fresh-state result
    ptab = {"zap9": pristine["zap9"], "bondi": pristine["bondi"], "user": USER_TABLE}
    singles = [(lig, hist[0], res[0]) for lig, hist, res in allres if len(hist) == 1]
    terms = [f"run_radii {coq_table(ptab[c[0]])} {coq_table(ptab[c[1]])} {core.coq_list([core.coq_string(t) for t in RADII_LIGANDS[lig][0]])}"
             for lig, c, _r in singles]
    try:
        out = core.run_cases("C16rad", HEADER, terms, chunk=max(8, len(terms) // 4 + 1))
    except core.CoqEvalError as e:
        ctx.broke("correspondence-broken", "model evaluation failed (Model/Peoe.v radius_from)", str(e))
        return False
    for (lig, c, r), s_ in zip(singles, out):
        ctx.cov["correspondence_cases"] += 1
        ctx.count("corr:radius-table-pair")
        vals = [None if v == "EXC" else int(v) for v in s_.split(";")]
        mod = "KeyError" if any(v is None for v in vals) else vals
        imp = r["fresh"] if isinstance(r["fresh"], str) else [r100(v) for v in r["fresh"]]
        if mod != imp:
            ok = False
            disagree("Model.Peoe.radius_from (primary, secondary) vs Mol2Molecule.assign_radii",
                     f"{lig} primary={c[0]} secondary={c[1]}: code {imp} model(1/100) {mod}", {"radii_history": [c], "ligand": lig})
    return ok


# --------------------------------------------------------------------------
# TEXT level: the MOL2 text itself -> Mol2Molecule.read  vs  Model.Mol2Read.mol_of_string
# (section detection, record fields, bond-type words, atom ids -> positions, what raises),
# and text -> charges end to end (real assign_parameters on the text vs model pipeline).

HEADER_T = (
    "From Coq Require Import String List ZArith.\nFrom PV Require Import Lib.Strings Model.Peoe Model.Mol2Read.\n"
    "Import ListNotations.\nOpen Scope string_scope.\n"
)
READ_SITE = "Mol2Molecule.read"
EIGHT_WORD_TEXT = ("@<TRIPOS>MOLECULE\nx\n 2 1 1 0 0\nSMALL\nNO_CHARGES\n\n@<TRIPOS>ATOM\n"
                   "1 C1 0.0 0.0 0.0 C.3 1 LIG\n2 O1 1.4 0.0 0.0 O.3 1 LIG\n@<TRIPOS>BOND\n1 1 2 1\n@<TRIPOS>SUBSTRUCTURE\n")
BOND_TYPE_NAME = {"1": "single", "2": "double", "3": "triple", "ar": "aromatic"}


def canon_type(raw):
    """ground-truth spelling of a Sybyl type word (the generator's own, not the reader's)"""
    p = raw.split(".")
    return p[0][:1].upper() + p[0][1:].lower() + ("." + p[1].lower() if len(p) == 2 else "")


def same_float(a, b):
    return a == b or (a != a and b != b)


def impl_text_obs(text):
    """The real reader on a text: ("RAISE", class) or ("OK", atoms, bonds) in the model's layout."""
    from pdb2pqr.ligand.mol2 import Mol2Molecule

    m = Mol2Molecule()
    try:
        m.read(open_like_main(text))
    except Exception as e:  # noqa
        return ("RAISE", type(e).__name__)
    names = list(m.atoms.keys())
    pos = {id(a): k for k, a in enumerate(m.atoms.values())}
    atoms = [(a.serial, a.name, a.x, a.y, a.z, a.type, a.res_seq, a.res_name, a.mol2charge) for a in m.atoms.values()]
    bonds = []
    for b in m.bonds:
        bonds.append((b.bond_id, pos.get(id(b.atoms[0]), -1), pos.get(id(b.atoms[1]), -1), b.type))
    # the per-atom views must agree with the bond list (adjacency built line by line, both ways)
    adj = [[] for _ in names]
    for _bid, p1, p2, _t in bonds:
        if p1 >= 0 and p2 >= 0:
            adj[p1].append(p2)
            adj[p2].append(p1)
    for k, a in enumerate(m.atoms.values()):
        if [pos.get(id(x), -1) for x in a.bonded_atoms] != adj[k] or len(a.bonds) != len(adj[k]):
            return ("OK-INCONSISTENT", atoms, bonds)
    return ("OK", atoms, bonds)


def parse_model_read(s):
    """show_result of the model -> the same layout (numbers as text turned into floats by float())"""
    if s.startswith("RAISE "):
        return ("RAISE", s[6:])
    w = s.split(" ")
    if w[0] != "OK":
        return ("BAD", s[:80])
    n, nb = int(w[1]), int(w[2])
    body = w[3:]
    if len(body) != 9 * n + 4 * nb:
        return ("BAD", s[:80])
    atoms, bonds = [], []
    for k in range(n):
        f = body[9 * k : 9 * k + 9]
        atoms.append((int(f[0]), f[1], float(f[2]), float(f[3]), float(f[4]), f[5], int(f[6]), f[7], None if f[8] == "~" else float(f[8])))
    for k in range(nb):
        f = body[9 * n + 4 * k : 9 * n + 4 * k + 4]
        bonds.append((int(f[0]), int(f[1]), int(f[2]), BOND_TYPE_NAME[f[3]]))
    return ("OK", atoms, bonds)


def same_obs(a, b):
    if a[0] != b[0]:
        return False
    if a[0] != "OK":
        return a[1] == b[1]
    if len(a[1]) != len(b[1]) or a[2] != b[2]:
        return False
    for x, y in zip(a[1], b[1]):
        for u, v in zip(x, y):
            if isinstance(u, float) and isinstance(v, float):
                if not same_float(u, v):
                    return False
            elif u != v:
                return False
    return True


def first_difference(exp, got):
    """which field of the parsed molecule differs from the text's ground truth (for the signature)"""
    fields = ("serial", "name", "x", "y", "z", "type", "subst_id", "subst_name", "charge")
    if got[0] != "OK":
        return "raises:" + str(got[1]) if got[0] == "RAISE" else "adjacency-inconsistent"
    if len(exp[1]) != len(got[1]):
        return "atom-count"
    for x, y in zip(exp[1], got[1]):
        for f, u, v in zip(fields, x, y):
            if not (same_float(u, v) if isinstance(u, float) and isinstance(v, float) else u == v):
                return "atom-" + f
    if len(exp[2]) != len(got[2]):
        return "bond-count"
    for x, y in zip(exp[2], got[2]):
        for f, u, v in zip(("id", "atom1", "atom2", "type"), x, y):
            if u != v:
                return "bond-" + f
    return None


def gt_of(types, bonds, names, rng, raw_types=None, resname="LIG"):
    """generator-level molecule with every record field as the TEXT will show it"""
    atoms = []
    for i, (t, nm) in enumerate(zip(types, names)):
        fmt = rng.choice(["{:.4f}", "{:.3f}", "{:.1f}", "{:g}"])
        xyz = [fmt.format(v) for v in (1.5 * i - 3.0, 0.3 * (i % 3) - 0.4, 0.7 * (i % 5))]
        ch = rng.choice(["0.0000", "0.0", "-0.1234", "0", "1e-3", "+.25", "-1", ".5", "1_0.5"])
        atoms.append({"serial": i + 1, "name": nm, "x": xyz[0], "y": xyz[1], "z": xyz[2], "type_raw": raw_types[i] if raw_types else t,
                      "type": canon_type(t), "resseq": 1, "resname": resname, "charge": ch, "extra": []})
    return {"atoms": atoms, "bonds": [{"bid": k + 1, "a1": a, "a2": b, "word": w, "extra": []} for k, (a, b, w) in enumerate(bonds)]}


def gt_expected(gt):
    atoms = [(a["serial"], a["name"], float(a["x"]), float(a["y"]), float(a["z"]), a["type"], a["resseq"], a["resname"][:4],
              None if a["charge"] is None else float(a["charge"])) for a in gt["atoms"]]
    bonds = [(b["bid"], b["a1"], b["a2"], BOND_TYPE_NAME[b["word"]]) for b in gt["bonds"]]
    return ("OK", atoms, bonds)


def simple_parse(text):
    """independent reading of a STORED, conventionally laid out MOL2 file (ground truth for re-rendering)"""
    lines = text.splitlines()
    sec = [k for k, l in enumerate(lines) if l.startswith("@<TRIPOS>")]
    ia = next(k for k in sec if lines[k].strip() == "@<TRIPOS>ATOM")
    ib = next(k for k in sec if lines[k].strip() == "@<TRIPOS>BOND")
    ie = next((k for k in sec if k > ib), len(lines))
    atoms, bonds = [], []
    for l in lines[ia + 1 : ib]:
        w = l.split()
        if w:
            atoms.append({"serial": int(w[0]), "name": w[1], "x": w[2], "y": w[3], "z": w[4], "type_raw": w[5], "type": canon_type(w[5]),
                          "resseq": int(w[6]), "resname": w[7], "charge": w[8] if len(w) > 8 else None, "extra": w[9:]})
    for l in lines[ib + 1 : ie]:
        w = l.split()
        if w:
            bonds.append({"bid": int(w[0]), "a1": int(w[1]) - 1, "a2": int(w[2]) - 1, "word": w[3], "extra": w[4:]})
    return {"atoms": atoms, "bonds": bonds, "header": lines[:ia], "trailer": lines[ie + 1 :]}


SEP_SETS = [[" "], ["  ", " ", "   "], ["\t"], [" ", "\t", "  \t "], ["      "], [" \x0c ", " ", "\x0b", " \x1c", "\x1d ", "\x1e", "\x1f "]]
HEADERS = [
    ["@<TRIPOS>MOLECULE", "lig", " {n} {nb} 1 0 0", "SMALL", "NO_CHARGES", "", ""],
    ["# Name: generated", "# Creating user name: verif", "", "@<TRIPOS>MOLECULE", "lig", "{n} {nb} 1", "SMALL", "USER_CHARGES"],
    ["@<TRIPOS>MOLECULE", "*****", " {n} {nb} 0 0 0", "SMALL", "GASTEIGER", "", "@<TRIPOS>COMMENT", "atoms follow; bonds after", ""],
    [],
    ["", "   ", "@<TRIPOS>MOLECULE", "m", "{n} {nb}", "PROTEIN", "NO_CHARGES", "****", "a comment line"],
]
TRAILERS = [
    ["     1 LIG         1 TEMP              0 ****  ****    0 ROOT"],
    [],
    ["1 LIG 1", "", "@<TRIPOS>SET", "STATIC ATOMS", "1 2", "1 1 1 1", "9 9 9 am"],
]


def render_text(rng, gt, style=None, header=None, trailer=None):
    """One spelling of the molecule: column widths / separators / tabs / rare blanks, blank lines between records,
    header variants (comments, other sections before ATOM), trailer (SUBSTRUCTURE + anything, or nothing), LF / CRLF / CR."""
    st = style or {}
    seps = st.get("seps") or rng.choice(SEP_SETS)
    eol = st.get("eol") or rng.choice(["\n", "\n", "\r\n", "\r"])
    widths = st.get("widths", rng.random() < 0.5)
    blank_p = st.get("blank_p", rng.choice([0.0, 0.0, 0.15]))
    n, nb = len(gt["atoms"]), len(gt["bonds"])

    def line(words, ws):
        if widths:
            words = [w.rjust(k) if j % 2 == 0 else w.ljust(k) for j, (w, k) in enumerate(zip(words, ws + [0] * len(words)))]
        out = words[0]
        for w in words[1:]:
            out += rng.choice(seps) + w
        return rng.choice(["", "", " ", "\t", "   "]) + out + rng.choice(["", "", " ", "  \t"])

    L = list(header) if header is not None else [h.format(n=n, nb=nb) for h in rng.choice(HEADERS)]
    L.append("@<TRIPOS>ATOM" + rng.choice(["", "", " ", "  "]))
    for a in gt["atoms"]:
        words = [str(a["serial"]), a["name"], a["x"], a["y"], a["z"], a["type_raw"], str(a["resseq"]), a["resname"]]
        words += ([a["charge"]] if a["charge"] is not None else []) + list(a["extra"])
        L.append(line(words, [7, 8, 10, 10, 10, 7, 3, 4, 10]))
        if rng.random() < blank_p:
            L.append(rng.choice(["", "  ", "\t", " \x0c"]))
    L.append(rng.choice(["", " "]) + "@<TRIPOS>BOND")
    for b in gt["bonds"]:
        L.append(line([str(b["bid"]), str(b["a1"] + 1), str(b["a2"] + 1), b["word"]] + list(b["extra"]), [6, 4, 4, 4]))
        if rng.random() < blank_p:
            L.append("")
    tr = trailer if trailer is not None else rng.choice(TRAILERS + [None])
    if tr is not None:
        L.append("@<TRIPOS>SUBSTRUCTURE")
        L += tr
    return eol.join(L) + (eol if rng.random() < 0.85 else "")


BAD_INTS = ["x", "1.0", "+3", "1_0", "-2", "0x1", "1__0", "_1", "1_", "007", "-0", "1e2", "--1", "+"]
BAD_FLOATS = ["abc", "1e3", "inf", "-Infinity", "nan", ".5", "5.", "1_0.5", "1,5", "0x10", "1e", "--1", "+.5e-3", "1_", "1__0", "NaN",
              "iNf", "infinit", "1d3", "e5", ".", "1.e1", "-.e1", "1e+", "1e-_1", "+nan", "1.2.3", "1E5", "0_0", "_0"]
BAD_TYPES = ["c.a.r", "C.3.", ".", "C..", "c.AR", "CL", "cl", "c.3", "O.CO2", "Du", "LP", "N.PL3", "1", "n.4", "..", "C.3.x.y", "br", ".3"]
BAD_BWORDS = ["am", "du", "un", "nc", "AR", "Ar", "4", "1.5", "single", "aR", "0", "AM", "nC", "ar.", "1_", "+1", "01"]


def gen_malformed_text(rng):
    """(text, label): one defect (or one rarely used but legal spelling) in an otherwise plain small file."""
    g = gen_wild(rng)
    n = g.n()
    names = default_names(g.types)
    A = [[str(i + 1), names[i], f"{1.5 * i:.3f}", "0.000", f"{0.7 * i:.3f}", g.types[i], "1", "LIG", "0.0000"] for i in range(n)]
    B = [[str(k + 1), str(a + 1), str(b + 1), w] for k, (a, b, w) in enumerate(g.bonds)]
    if not B:
        B = [["1", "1", "1", "1"]]
    head = ["@<TRIPOS>MOLECULE", "lig", f"{n} {len(B)} 1 0 0", "SMALL", "NO_CHARGES", ""]
    marks = ["@<TRIPOS>ATOM", "@<TRIPOS>BOND", "@<TRIPOS>SUBSTRUCTURE"]
    tail = ["1 LIG 1 TEMP 0 **** **** 0 ROOT"]
    kinds = ["atom-words", "atom-serial", "atom-resseq", "atom-coord", "atom-charge", "atom-type", "atom-dup", "atom-dup-then-bad",
             "atom-resname", "atom-name-marker", "bond-word", "bond-atomid", "bond-id", "bond-words", "no-atom-section", "bond-before-atom",
             "no-bond-section", "section-between", "section-after-bond", "two-atom-sections", "marker-embedded", "marker-case",
             "marker-in-comment", "no-substructure", "bonds-after-substructure", "empty", "blank-only", "atom-extra-fields"]
    kind = rng.choice(kinds)
    ia = rng.randrange(n)
    ib = rng.randrange(len(B))
    if kind == "atom-words":
        A[ia] = A[ia][: rng.choice([1, 5, 6, 7, 8, 8, 8])]
    elif kind == "atom-serial":
        A[ia][0] = rng.choice(BAD_INTS)
    elif kind == "atom-resseq":
        A[ia][6] = rng.choice(BAD_INTS)
    elif kind == "atom-coord":
        A[ia][rng.choice([2, 3, 4])] = rng.choice(BAD_FLOATS)
    elif kind == "atom-charge":
        A[ia][8] = rng.choice(BAD_FLOATS)
    elif kind == "atom-type":
        A[ia][5] = rng.choice(BAD_TYPES)
    elif kind in ("atom-dup", "atom-dup-then-bad"):
        A.append([str(n + 1), names[ia], "9.0", "9.0", "9.0", "C.3", "1", "LIG", "0.0"])
        if rng.random() < 0.5:
            B.append([str(len(B) + 1), str(n + 1), "1", "1"])  # refers to the dropped record's position
        if kind == "atom-dup-then-bad":
            A.append([str(n + 2), "ZZ9", "9.0", "x", "9.0", "C.3", "1", "LIG", "0.0"][: rng.choice([9, 8, 7])])
    elif kind == "atom-resname":
        A[ia][7] = rng.choice(["LIGAND7", "ABCDE", "L", "<1>", "UNK1234"])
    elif kind == "atom-name-marker":
        A[ia][1] = rng.choice(["@<TRIPOS>BOND", "x@<TRIPOS>BONDy", "@<TRIPOS>ATOM", "@<TRIPOS>SUBSTRUCTURE", "@<TRIPOS>BON"])
    elif kind == "bond-word":
        B[ib][3] = rng.choice(BAD_BWORDS)
    elif kind == "bond-atomid":
        B[ib][rng.choice([1, 2])] = rng.choice(["0", "-1", str(-n), str(-n + 1), str(-n - 1), str(n + 1), str(n), "x", "1.0", "+1", "1_0", "0_1", "-0"])
    elif kind == "bond-id":
        B[ib][0] = rng.choice(["x", "1.5", "-3", "+2", "0", "1_1", "b1"])
    elif kind == "bond-words":
        B[ib] = B[ib][: rng.choice([1, 2, 3])]
    elif kind == "atom-extra-fields":
        A[ia] += rng.choice([["DSPMOD"], ["BACKBONE|DICT", "x"], ["1", "2", "3"]])
        B[ib] += rng.choice([["BACKBONE"], ["DICT|INTERRES", "y"]])

    def J(ws):
        return rng.choice([" ", "  ", "\t"]).join(ws)

    al, bl = [J(a) for a in A], [J(b) for b in B]
    if kind == "no-atom-section":
        L = head + [marks[1]] + bl + [marks[2]] + tail
    elif kind == "bond-before-atom":
        L = head + [marks[1]] + bl + [marks[0]] + al + rng.choice([[marks[2]] + tail, []])
    elif kind == "no-bond-section":
        L = head + [marks[0]] + al + rng.choice([[], [marks[2]] + tail])
    elif kind == "section-between":
        L = head + [marks[0]] + al + ["@<TRIPOS>UNITY_ATOM_ATTR", "1 1", "charge -1"] + [marks[1]] + bl + [marks[2]] + tail
    elif kind == "section-after-bond":
        L = head + [marks[0]] + al + [marks[1]] + bl + rng.choice([["@<TRIPOS>SET", "STATIC"], ["@<TRIPOS>CRYSIN", "1 1 1 90 90 90 1 1"],
                                                                       ["@<TRIPOS>MOLECULE", "next"]]) + [marks[2]] + tail
    elif kind == "two-atom-sections":
        L = head + [marks[0]] + al[:1] + [marks[0]] + al[1:] + [marks[1]] + bl + [marks[2]] + tail
    elif kind == "marker-embedded":
        L = head + ["xx" + marks[0] + "yy"] + al + ["  # " + marks[1] + " follows"] + bl + ["zz" + marks[2]] + tail
    elif kind == "marker-case":
        k = rng.randrange(3)
        mm = list(marks)
        mm[k] = mm[k].lower() if rng.random() < 0.5 else mm[k].replace("TRIPOS", "Tripos")
        L = head + [mm[0]] + al + [mm[1]] + bl + [mm[2]] + tail
    elif kind == "marker-in-comment":
        L = ["# the " + marks[0] + " section lists atoms"] + head + [marks[0]] + al + [marks[1]] + bl + [marks[2]] + tail
    elif kind == "no-substructure":
        L = head + [marks[0]] + al + [marks[1]] + bl
    elif kind == "bonds-after-substructure":
        L = head + [marks[0]] + al + [marks[1]] + bl + [marks[2]] + tail + ["7 1 1 am", "x", "8 99 99 1"]
    elif kind == "empty":
        L = []
    elif kind == "blank-only":
        L = ["", "   ", "\t"]
    else:
        L = head + [marks[0]] + al + [marks[1]] + bl + [marks[2]] + tail
    eol = rng.choice(["\n", "\n", "\r\n", "\r"])
    return eol.join(L) + (eol if L and rng.random() < 0.8 else ""), kind


def coq_text(text):
    return core.coq_string_bytes(text) if any(ord(c) < 32 and c != "\n" for c in text) else core.coq_string(text)


def probe_charge_optional(ctx):
    """Is the guard before words[8] the one of the code as it is (`len(line) > 8`: an 8-word ATOM record raises
    IndexError) or the repaired one (`len(words) > 8`)?  Decides which of the two modelled readers is compared."""
    o = impl_text_obs(EIGHT_WORD_TEXT)
    if o[0] == "RAISE" and o[1] == "IndexError":
        return False
    if o[0] == "OK" and len(o[1]) == 2 and all(a[8] is None for a in o[1]):
        return True
    ctx.broke("correspondence-broken", "Model.Mol2Read.parse_atom_words (8-word ATOM record) vs Mol2Molecule.parse_atoms",
              f"8-word ATOM record: neither IndexError (as coded) nor read with mol2charge None (repaired): {o[:2]!r}"[:300], {"text": EIGHT_WORD_TEXT})
    return False


def relevant_difference(exp, got):
    """First difference between the text's molecule and the molecule read that can matter for the property: atom
    count / order, atom name, Sybyl type, residue name, and the bonds as (unordered atom pair, type) in file order.
    Atom ids, coordinates, residue number, the MOL2 charge column, bond ids and the order of a bond's two atoms
    never reach a charge, a radius or the name-based transfer: a difference there is a matter for the
    model-vs-code correspondence only, not a failure of the property."""
    if got[0] != "OK":
        return "raises:" + str(got[1]) if got[0] == "RAISE" else "adjacency-inconsistent"
    if len(exp[1]) != len(got[1]):
        return "atom-count"
    for x, y in zip(exp[1], got[1]):
        for f, k in (("atom-name", 1), ("atom-type", 5), ("atom-subst_name", 7)):
            if x[k] != y[k]:
                return f
    if len(exp[2]) != len(got[2]):
        return "bond-count"
    for x, y in zip(exp[2], got[2]):
        if {x[1], x[2]} != {y[1], y[2]} or (x[1] == x[2]) != (y[1] == y[2]):
            return "bond-atoms"
        if x[3] != y[3]:
            return "bond-type"
    return None


def oracle_text(ctx, case, obs):
    """Model-independent read-back: a text written from a known molecule must be read as that molecule."""
    exp = case["expected"]
    ctx.evaluated(("text", core.sha(case["text"])), len(exp[1]) >= 2 and len(exp[2]) >= 1)
    ctx.count("search:text-" + case["kind"].split(":")[0])
    if same_obs(exp, obs):
        return True
    field = relevant_difference(exp, obs)
    if field is None:
        ctx.count("search:text-differs-in-a-field-the-property-does-not-use:" + str(first_difference(exp, obs)))
        return True
    if case.get("no_charge") and obs[0] == "RAISE":
        sig = {"site": "Mol2Molecule.parse_atoms", "condition": "atom-record-without-charge-field-raises", "error": obs[1]}
        what = f"ATOM records with 8 fields (the charge is optional in the Tripos format, and the reader guards the access) raise {obs[1]}"
    else:
        sig = {"site": READ_SITE, "condition": "parsed-molecule-differs-from-text", "field": field}
        what = f"the molecule read from a valid MOL2 text differs from the molecule the text was written from ({field})"
    ctx.fail(sig, what, {"text": case["text"], "kind": case["kind"], "no_charge": bool(case.get("no_charge")),
                         "expected": [list(map(list, exp[1])), list(map(list, exp[2]))]})
    return False


def text_level(ctx, rng, mol_cases, disagree):
    """Correspondence (model vs code on texts) and search (read-back, 8-word records, text -> charges)."""
    co = probe_charge_optional(ctx)
    ctx.cov["reader_guard_before_charge_field"] = "len(words) > 8 (repaired)" if co else "len(line) > 8 (as coded: finding C16-F5)"
    cob = "true" if co else "false"
    thorough = ctx.thorough
    valid, bad = [], []
    # (a) the stored molecules, re-rendered
    for f in stored_mol2_files():
        raw = f.read_text()
        try:
            gt = simple_parse(raw)
        except Exception as e:  # noqa
            ctx.notes.append(f"stored MOL2 {f.name}: not in the conventional layout ({type(e).__name__}); used verbatim only")
            continue
        big = len(gt["atoms"]) > 45
        valid.append({"kind": "stored:" + f.name, "text": raw, "expected": gt_expected(gt), "e2e": True})
        for k in range(1 if (big and not thorough) else 3):
            valid.append({"kind": "stored-rerendered:" + f.name, "text": render_text(rng, gt, header=gt["header"] if k == 0 else None),
                          "expected": gt_expected(gt), "e2e": k == 0 and not big})
    # (b) generated molecules in generated spellings
    n_gen, n_bad, n_8 = (2500, 2500, 200) if thorough else (330, 300, 40)
    for k in range(n_gen):
        g = gen_organic(rng, maxn=14) if k % 3 else gen_wild(rng)
        names = default_names(g.types) if rng.random() < 0.3 else random_names(rng, g.n(), maxlen=8) if rng.random() < 0.6 else mixed_case_names(rng, default_names(g.types))
        rawt = [case_variant(rng, t) for t in g.types]
        gt = gt_of(g.types, g.bonds, names, rng, raw_types=rawt, resname=rng.choice(["LIG", "LIG", "UNK", "<1>", "LIGAND", "A"]))
        r = rng.random()
        if r < 0.15:  # atom ids are for reference only: gaps / arbitrary ids, bonds still by position
            for a in gt["atoms"]:
                a["serial"] = a["serial"] * 3 + 10
        if r > 0.8:
            for a in gt["atoms"]:
                a["extra"] = rng.choice([["DSPMOD"], ["BACKBONE|DICT|DIRECT"], ["****", "x"]])
            for b in gt["bonds"]:
                b["extra"] = rng.choice([[], ["BACKBONE"], ["DICT|INTERRES"]])
        if rng.random() < 0.2:
            for b in gt["bonds"]:
                b["bid"] = rng.choice([b["bid"] + 100, b["bid"], 0, -b["bid"]])
        valid.append({"kind": "generated", "text": render_text(rng, gt), "expected": gt_expected(gt), "e2e": k % 2 == 0})
    # (c) 8-field ATOM records (no charge field): legal Tripos, supported types
    for k in range(n_8):
        g = gen_organic(rng, maxn=10)
        gt = gt_of(g.types, g.bonds, default_names(g.types), rng)
        some = rng.random() < 0.3
        for j, a in enumerate(gt["atoms"]):
            if not some or j % 2 == 0:
                a["charge"] = None
        valid.append({"kind": "generated-no-charge-field", "text": render_text(rng, gt), "expected": gt_expected(gt), "e2e": k % 4 == 0, "no_charge": True})
    # (d) the malformed stream
    for _ in range(n_bad):
        t, kind = gen_malformed_text(rng)
        bad.append({"kind": "malformed:" + kind, "text": t, "e2e": rng.random() < 0.25})
    cdir = core.CORPUS / "C16"
    if cdir.is_dir():
        import json

        for f in sorted(cdir.glob("*.json")):
            cj = json.loads(f.read_text())
            if "mol2_text" in cj:  # minimised texts (quirks of the reader): model vs code, text -> charges
                bad.insert(0, {"kind": "corpus:" + f.stem, "text": cj["mol2_text"], "e2e": True})
    allc = valid + bad
    for c in allc:
        c["obs"] = impl_text_obs(c["text"])
    e2e = [c for c in allc if c["e2e"]]
    for c in e2e:
        c["obs_all"] = impl_all(c["text"])
    try:
        res_R = core.run_cases("C16R", HEADER_T, [f"run_read {cob} {coq_text(c['text'])}" for c in allc], chunk=max(8, len(allc) // 11 + 1))
        res_E = core.run_cases("C16E", HEADER_T, [f"run_text_F {cob} {coq_text(c['text'])}" for c in e2e], chunk=max(4, len(e2e) // 11 + 1))
    except core.CoqEvalError as e:
        ctx.broke("correspondence-broken", "model evaluation failed (Model/Mol2Read.v)", str(e))
        res_R = res_E = None
    ok = True
    if res_R is not None:
        for c, s in zip(allc, res_R):
            ctx.cov["correspondence_cases"] += 1
            ctx.count("corr:text-" + c["kind"].split(":")[0] + (":" + c["kind"].split(":")[1] if c["kind"].startswith("malformed") else ""))
            try:
                mo = parse_model_read(s)
            except Exception as e:  # noqa
                mo = ("BAD", f"{type(e).__name__}: {s[:60]}")
            if not same_obs(mo, c["obs"]):
                ok = False
                d = first_difference(mo, c["obs"]) if mo[0] == "OK" else f"model {mo[:2]!r}"
                disagree("Model.Mol2Read.mol_of_string vs Mol2Molecule.read (text -> atoms and bonds, or exception class)",
                         f"{c['kind']}: code {c['obs'][0]} {c['obs'][1] if c['obs'][0] != 'OK' else ''} / model {mo[0]} {mo[1] if mo[0] != 'OK' else ''}; first difference: {d}"[:400],
                         {"text": c["text"], "kind": c["kind"]})
        for c, s in zip(e2e, res_E):
            ctx.cov["correspondence_cases"] += 1
            ctx.count("corr:text-to-charges")
            o = c["obs_all"]
            if s.startswith("RAISE "):
                if o.get("read_exc") != s[6:]:
                    ok = False
                    disagree("Model.Mol2Read.run_text_F (reader + assign_parameters) vs Mol2Molecule.read + assign_parameters on the text",
                             f"{c['kind']}: model {s}, code read_exc={o.get('read_exc')}", {"text": c["text"], "kind": c["kind"]})
                continue
            mF = parse_params(s, parse_F)
            if o.get("read_exc") or (o.get("exc") is None) != (mF is not None):
                ok = False
                disagree("Model.Mol2Read.run_text_F (reader + assign_parameters) vs Mol2Molecule.read + assign_parameters on the text",
                         f"{c['kind']}: model {'values' if mF is not None else 'raises'}, code read_exc={o.get('read_exc')} exc={o.get('exc')}", {"text": c["text"], "kind": c["kind"]})
                continue
            if mF is None:
                continue
            dq = max([abs(a - b[1]) for a, b in zip(o["q"], mF)] + [0.0]) if len(mF) == len(o["q"]) else float("inf")
            if [r100(v) for v in o["r"]] != [b[0] for b in mF] or not (dq <= 1e-12):
                ok = False
                disagree("Model.Mol2Read.run_text_F (reader + assign_parameters, binary64) vs Mol2Molecule.read + assign_parameters on the text",
                         f"{c['kind']}: max |dq| = {dq!r}", {"text": c["text"], "kind": c["kind"]})
    # ---- search: read-back of every valid text; charges must not depend on the spelling
    for c in valid:
        good = oracle_text(ctx, c, c["obs"])
        if good and c["e2e"] and c["obs"][0] == "OK" and not c["obs_all"].get("exc"):
            exp = c["expected"]
            canon = mol2_text([a[5] for a in exp[1]], [(b[1], b[2], {v: k for k, v in BOND_TYPE_NAME.items()}[b[3]]) for b in exp[2]], [a[1] for a in exp[1]])
            o2 = impl_all(canon)
            if o2.get("read_exc") or o2.get("exc") or o2["q"] != c["obs_all"]["q"] or o2["r"] != c["obs_all"]["r"]:
                ctx.fail({"site": READ_SITE, "condition": "charges-depend-on-the-spelling-of-the-text"},
                         "two spellings of the same records (whitespace, column widths, line ends, header) give different charges/radii",
                         {"text": c["text"], "kind": c["kind"]})
    if not ok or ctx.broken:
        # proof / correspondence broke: look much harder for a misread valid text
        for k in range(3000):
            g = gen_organic(rng, maxn=12) if k % 3 else gen_wild(rng)
            gt = gt_of(g.types, g.bonds, random_names(rng, g.n()), rng, raw_types=[case_variant(rng, t) for t in g.types])
            c = {"kind": "generated-extra", "text": render_text(rng, gt), "expected": gt_expected(gt)}
            oracle_text(ctx, c, impl_text_obs(c["text"]))
    for c in valid[:1] + valid[-1:]:
        ctx.sample({"mol2_text_head": c["text"][:300], "kind": c["kind"], "read": c["obs"][0]})
    return ok


# --------------------------------------------------------------------------


def run(ctx):
    _quiet()
    rng = ctx.rng
    ctx.cov["rule"] = (
        "MOL2 texts generated from (a) organic builder: tree of functional groups (carboxylate, ammonium, guanidinium, "
        "(di)phosphate, sulfonyl, amide, nitrile, aryl/N.ar rings, aliphatic rings, halogens...) with explicit H, "
        "(b) wild: any of the 23 supported Sybyl types on any multigraph, (c) malformed: unsupported atom/bond types, "
        "(d) the stored MOL2 files; read by the real Mol2Molecule.read. A molecule case is non-trivial when it has >= 2 "
        "atoms and >= 1 bond and assign_parameters succeeds; distinct by (types, bonds). Complex cases: 1QBS residues 1-4 "
        "+ ligand HETATMs (MOL2 residue name equal to the PDB's, or a placeholder) + waters / other hetero groups / ions "
        "through main_driver; distinct by PDB text. Loop cases: residue lists (ligand, waters, hetero groups sharing atom "
        "names, protein residues, force-field hits on any of them) through the source text of the ligand loop, judged by "
        "the generator's own labelling of the ligand residue; non-trivial when unambiguous, >= 2 residues, one the ligand. "
        "Lattice cases: --ligand with a random subset of the other options (six force fields, --ffout, --noopt, --nodebump, --drop-water, --keep-chain, "
        "--whitespace, --include-header, --pdb-output, --apbs-input, stubbed propka + --with-ph, --neutraln/c), through main_driver / run_pdb2pqr / main(), on "
        "layouts drawn from: ligand before/between/after one or two protein chains, own/protein/blank chain ID, one or two copies, a second ligand without "
        "MOL2 file, waters before/after/inside the ligand records, shuffled HETATM order, placeholder or matching residue name, four MOL2 spellings, eight "
        "hand-built charged/aromatic ligands + random organics; expected values from the input (MOL2-derived parameters by name once per copy, declared "
        "formal charge, rows outside the ligand identical to the run without --ligand); distinct by (PDB, MOL2, options, entry). "
        "Radius-table cases: assign_radii / assign_parameters with every ordered pair of (zap9, bondi, a user table) as (primary, secondary) on three "
        "ligands (carboxylate with O.co2; phosphate + Br; N/S/halogen heterocycle), alone, after a default call, and as [A, B, A]; after every call the "
        "module tables must equal their copies taken at import, the result must equal the same call from a fresh state and the rule; distinct by "
        "(ligand, history). Text cases: the stored MOL2 files verbatim and re-rendered from an independent reading (separators: blanks, tabs, "
        "\\x0b \\x0c \\x1c-\\x1f; column widths; blank lines between records; comment/other sections before ATOM; with/without "
        "SUBSTRUCTURE and junk after it; LF/CRLF/CR), generated molecules in such spellings (arbitrary atom/bond ids, status "
        "fields, type words in any case, 8-field ATOM records), and a malformed stream (28 kinds: missing/extra fields, "
        "non-numbers, bad types, duplicate names, bond words am/du/un/nc/unknown, atom ids 0/negative/out of range, sections "
        "missing/reordered/embedded markers); read-back judged on the property-relevant fields (atom order, name, type, "
        "residue name, bonds as unordered typed pairs); non-trivial with >= 2 atoms and >= 1 bond; distinct by text."
    )
    pristine = take_pristine()  # before anything below touches the ligand code
    ok = core.proof_stage(ctx, "C16", THEOREMS, ALLOWED_AXIOMS)
    broken = not ok

    # ---------------- cases -------------------------------------------------
    n_org, n_wild, n_mal, n_q = (5000, 2500, 500, 240) if ctx.thorough else (560, 260, 60, 45)
    cases = []
    for f in stored_mol2_files():
        try:
            m = impl_read(f.read_text())
            types, bonds = struct_of(m)
            cases.append({"kind": "stored:" + f.name, "types": types, "bonds": bonds, "names": list(m.atoms.keys()), "text": f.read_text()})
        except Exception as e:  # noqa
            ctx.broke("correspondence-broken", f"stored MOL2 {f.name} unreadable by Mol2Molecule.read", f"{type(e).__name__}: {e}")
    corpus_dir = core.CORPUS / "C16"
    corpus_complexes, corpus_tcases = [], []
    if corpus_dir.is_dir():
        import json

        for f in sorted(corpus_dir.glob("*.json")):
            c = json.loads(f.read_text())
            if "types" in c:
                c["bonds"] = [tuple(b) for b in c["bonds"]]
                c.setdefault("names", default_names(c["types"]))
                c["kind"] = "corpus:" + f.stem
                cases.insert(0, c)
            elif "complex" in c:
                corpus_complexes.append(make_complex(c["complex"]))
            elif "transfer" in c:
                corpus_tcases.append(c["transfer"])
    for k in range(n_org + n_wild + n_mal):
        g = gen_organic(rng) if k < n_org else gen_wild(rng) if k < n_org + n_wild else gen_malformed(rng)
        types = [case_variant(rng, t) for t in g.types]
        names = default_names(g.types) if rng.random() < 0.5 else random_names(rng, g.n())
        cases.append({"kind": g.kind, "types": types, "bonds": g.bonds, "names": names, "groups": g.groups})
    for c in cases:
        if "text" not in c:
            c["text"] = mol2_text(c["types"], c["bonds"], c["names"])
        c["obs"] = impl_all(c["text"])
    qcases = []
    for k in range(n_q):
        g = gen_small(rng)
        nc = 1 + (k % 3)
        c = {"kind": "small", "types": g.types, "bonds": g.bonds, "names": default_names(g.types), "ncyc": nc, "groups": g.groups}
        c["text"] = mol2_text(c["types"], c["bonds"], c["names"])
        c["obs"] = impl_all(c["text"], ncyc=nc)
        qcases.append(c)
    tcases = corpus_tcases + [gen_transfer_case(rng) for _ in range(6000 if ctx.thorough else 800)]

    # ---------------- model evaluation -------------------------------------
    def raw_types(c):
        # the reader normalises the type word; the model gets the raw word
        if c["kind"].startswith("stored"):
            return c["types"]
        return c["types"]

    terms_F = [f"run_F {coq_mol(raw_types(c), c['bonds'])} 6" for c in cases]
    terms_fm = [f"run_formal {coq_mol(raw_types(c), c['bonds'])}" for c in cases]
    terms_Q = [f"run_Q {coq_mol(c['types'], c['bonds'])} {c['ncyc']}" for c in qcases]
    try:
        code = extract_ligand_loop()
    except Exception as e:  # noqa
        code = None
        broken = True
        ctx.broke("correspondence-broken", "main.non_trivial ligand loop vs Model.Peoe.transfer_loop", f"{type(e).__name__}: {e}")
    try:
        res_tab = core.run_cases("C16tab", HEADER, ["show_tables"], chunk=1)[0]
        res_F = core.run_cases("C16F", HEADER, terms_F, chunk=max(8, len(terms_F) // 11 + 1))
        res_fm = core.run_cases("C16fm", HEADER, terms_fm, chunk=max(8, len(terms_fm) // 11 + 1))
        res_Q = core.run_cases("C16Q", HEADER, terms_Q, chunk=1 if not ctx.thorough else 2, timeout=900)
        res_T = core.run_cases("C16T", HEADER, [transfer_term(c) for c in tcases], chunk=max(50, len(tcases) // 11 + 1))
    except core.CoqEvalError as e:
        ctx.broke("correspondence-broken", "model evaluation failed (Model/Peoe.v)", str(e))
        res_tab = res_F = res_fm = res_Q = res_T = None
        broken = True

    def disagree(what, detail, case):
        nonlocal broken
        broken = True
        ctx.cov["correspondence_disagreements"] += 1
        if len([b for b in ctx.broken if b["kind"] == "correspondence-broken"]) < 4:
            ctx.broke("correspondence-broken", what, detail, case)

    if res_F is not None:
        if not table_correspondence(ctx, res_tab, pristine):
            broken = True
        exact = 0
        for c, sF, sfm in zip(cases, res_F, res_fm):
            o = c["obs"]
            ctx.cov["correspondence_cases"] += 1
            ctx.count("corr:" + c["kind"].split(":")[0])
            small = {"types": c["types"], "bonds": c["bonds"], "names": c["names"]}
            mF = parse_params(sF, parse_F)
            mfm = parse_formal(sfm)
            if o["read_exc"]:
                if mF is not None or mfm is not None:
                    disagree("Model.Peoe.mk_mol vs Mol2Molecule.read (type / bond-type words)", f"reader raised {o['read_exc']}, model accepted", small)
                continue
            if mfm is None:
                disagree("Model.Peoe.mk_mol vs Mol2Molecule.read (type / bond-type words)", "model rejected what the reader accepted", small)
                continue
            mfc, mrad, mbo = mfm
            if [fc2(v) for v in o["fc"]] != mfc:
                disagree("Model.Peoe.formal_charge2 vs Mol2Atom.formal_charge", f"impl(2x)={[fc2(v) for v in o['fc']]} model={mfc}", small)
            if o["bo"] != mbo:
                disagree("Model.Peoe.bond_order vs Mol2Atom.bond_order", f"impl={o['bo']} model={mbo}", small)
            if [r100(v) for v in o["rad"]] != mrad:
                disagree("Model.Peoe.radius_of vs Mol2Atom.assign_radius(zap9, bondi)", f"impl={o['rad']} model(1/100)={mrad}", small)
            if o["exc"]:
                if mF is not None:
                    disagree("Model.Peoe.assign_parameters vs Mol2Molecule.assign_parameters", f"impl raised {o['exc']}, model returned values", small)
                continue
            if mF is None:
                disagree("Model.Peoe.assign_parameters vs Mol2Molecule.assign_parameters", "model raised, impl returned values", small)
                continue
            dq = max([abs(a - b[1]) for a, b in zip(o["q"], mF)] + [0.0]) if len(mF) == len(o["q"]) else float("inf")
            if [r100(v) for v in o["r"]] != [b[0] for b in mF] or not (dq <= 1e-12):
                disagree("Model.Peoe.equilibrate (binary64 instance FA) vs peoe.equilibrate", f"max |dq| = {dq!r}; impl q[:4]={o['q'][:4]} model q[:4]={[b[1] for b in mF[:4]]}", small)
            elif dq == 0.0:
                exact += 1
        ctx.cov["float_instance_bit_exact_cases"] = exact
        for c, sQ in zip(qcases, res_Q):
            o = c["obs"]
            ctx.cov["correspondence_cases"] += 1
            ctx.count(f"corr:Q-exact-ncyc{c['ncyc']}")
            small = {"types": c["types"], "bonds": c["bonds"], "ncyc": c["ncyc"]}
            mQ = parse_params(sQ, Fraction)
            if o.get("read_exc") or o.get("exc"):
                if mQ is not None:
                    disagree("Model.Peoe.assign_parameters_n (Q instance) vs peoe.equilibrate", f"impl raised {o.get('exc') or o.get('read_exc')}", small)
                continue
            if mQ is None or len(mQ) != len(o["q"]):
                disagree("Model.Peoe.assign_parameters_n (Q instance) vs peoe.equilibrate", "model raised / length differs", small)
                continue
            dq = max([abs(a - float(b[1])) for a, b in zip(o["q"], mQ)] + [0.0])
            # the exact instance itself conserves exactly (the theorem, observed)
            exact_sum = sum(b[1] for b in mQ) - sum(Fraction(v).limit_denominator(2) for v in o["fc"])
            if not (dq <= 1e-9) or exact_sum != 0:
                disagree("Model.Peoe.equilibrate (exact instance QA) vs peoe.equilibrate", f"max |dq| = {dq!r}, exact sum deviation {exact_sum}", small)
        if code is not None:
            for c, sT in zip(tcases, res_T):
                ctx.cov["correspondence_cases"] += 1
                ctx.count("corr:transfer-loop")
                try:
                    it = transfer_impl(code, c)
                except Exception as e:  # noqa
                    it = f"EXC {type(e).__name__}: {e}"
                c["impl_out"] = it
                if it != sT:
                    disagree("Model.Peoe.transfer_loop/written vs the ligand loop of main.non_trivial (source text executed)", f"impl={it} model={sT}", {"transfer": {k_: v_ for k_, v_ in c.items() if k_ != "impl_out"}})

    # ---------------- radius tables: all (primary, secondary) pairs, histories --
    if not radii_level(ctx, rng, pristine, disagree):
        broken = True

    # ---------------- the MOL2 text itself ------------------------------------
    if not text_level(ctx, rng, cases, disagree):
        broken = True

    # ---------------- search on the implementation --------------------------
    pool = [c for c in cases if not c["obs"].get("read_exc") and not c["obs"].get("exc")]
    extra = []
    if broken:
        for k in range(1500):
            g = gen_organic(rng) if k % 3 else gen_wild(rng)
            c = {"kind": g.kind, "types": g.types, "bonds": g.bonds, "names": default_names(g.types)}
            c["obs"] = impl_all(mol2_text(c["types"], c["bonds"], c["names"]))
            if not c["obs"].get("read_exc") and not c["obs"].get("exc"):
                extra.append(c)
    for k, c in enumerate(pool + extra):
        if c["kind"].startswith("stored") and len(c["types"]) > 45 and not ctx.thorough:
            # big stored ligands: conservation and radii only (ring perception makes re-reading slow)
            o = c["obs"]
            if abs(sum(o["q"]) - sum(o["fc"])) > 1e-9:
                ctx.fail({"site": "peoe.equilibrate", "condition": "sum-of-charges-differs-from-sum-of-formal-charges"}, c["kind"], {"file": c["kind"]})
            ctx.evaluated(("stored", c["kind"]), True)
            continue
        types_norm = c["obs"]["types"]
        oracle_molecule(ctx, k, types_norm, c["bonds"], c["names"], rng, c["obs"])
    for c in cases:
        if c["obs"].get("read_exc") or c["obs"].get("exc"):
            ctx.evaluated(("rejected", tuple(c["types"]), tuple(c["bonds"])), False)
            ctx.count("search:rejected-by-code")

    # the ligand loop's own text on generated residue lists, read with the generator's ground truth
    if code is not None:
        extra_t = [gen_transfer_case(rng) for _ in range(4000)] if broken else []
        for c in tcases + extra_t:
            it = c.pop("impl_out", None)
            if it is None:
                try:
                    it = transfer_impl(code, c)
                except Exception as e:  # noqa
                    it = f"EXC {type(e).__name__}: {e}"
            oracle_transfer(ctx, c, it)

    d = ctx.scratch_dir()
    complexes = corpus_complexes + build_complexes(rng, ctx.thorough)
    for cx in complexes:
        oracle_complex(ctx, d, cx)
    # --ligand under the other options / entry points and in the other legal layouts (class audit 2/3)
    lattice = fixed_lattice_cases() + [gen_lattice_case(rng, k) for k in range(400 if ctx.thorough else 60)]
    for lc in lattice:
        oracle_lattice(ctx, d, lc)
    for lc in lattice[:2]:
        ctx.sample({"lattice": lc["layout"], "options": lc["opts"] + lc["files"], "entry": lc["entry"], "observed": lc.get("observed")})

    # ---------------- samples / trusted base --------------------------------
    for c in cases:
        if c["kind"] == "organic" and not c["obs"].get("exc") and not c["obs"].get("read_exc"):
            ctx.sample({"molecule": {"groups": c.get("groups"), "types": c["types"], "bonds": c["bonds"][:12]},
                        "sum_formal": sum(c["obs"]["fc"]), "sum_q": sum(c["obs"]["q"]), "q_head": c["obs"]["q"][:4]})
            break
    for cx in complexes[:2] + complexes[-7:-5]:
        ctx.sample({"complex": cx["tag"], "observed": cx.get("observed")})
    ctx.sample({"obligation": "C16_peoe_conserves: forall ops (QLaws), chi, n, ty, bonds, ch, damp, scale<>0, ncyc<>0: Qsum (equilibrate ...) == Qsum (map ch (seq 0 n))"})
    ctx.trusted += [
        "modelled, not verified: peoe.equilibrate/electronegativity, Mol2Atom.formal_charge/bond_order/assign_radius, Mol2Molecule.assign_parameters, "
        "the ligand loop of main.non_trivial (hand model Model/Peoe.v; tie = differential execution listed under correspondence)",
        "binary64 rounding is not proved: theorems are over Q; the float instance of the same Gallina text matches CPython bit for bit on the cases run",
        "tables of pdb2pqr.ligand (RADII zap9/bondi, VALENCE_BY_ELEMENT, NONBONDED_BY_TYPE, POLY_TERMS, PEOE constants) are re-read from /repo on every run and compared with the model's",
        "the ligand loop is located in inspect.getsource(main.non_trivial) by its first and last statement and executed on stand-in objects",
        "complex oracle: baseline run without --ligand provides the force-field parameters of non-ligand atoms",
        "modelled, not verified: Mol2Molecule.read / parse_atoms / parse_bonds (hand model Model/Mol2Read.v; tie = MOL2 texts through the real reader "
        "opened as main.py opens the file, compared field by field or by exception class, and text -> charges end to end)",
        "radius oracle: the rule (primary by type, by upper-cased element, then the backup likewise) evaluated by the harness on deep copies of "
        "pdb2pqr.ligand.RADII taken before any ligand code runs, and on a small user table; 'fresh state' = the module tables restored in place from those copies",
        "text oracle: the generator's molecule (or an independent conventional-layout reading of the stored files) is the ground truth of a text",
        "which of the two modelled guards before words[8] applies (`len(line) > 8` as coded / `len(words) > 8` repaired) is probed on one 8-field record",
    ]
    ctx.assumptions += [
        "atom names in a MOL2 file are unique (the reader raises otherwise: modelled), so a name denotes a position",
        "PEOE theorems: bond endpoints are valid 1-based positions; supported bond types are 1, 2, 3, ar (what the reader does otherwise is modelled in Mol2Read.v)",
        "reader model: ASCII text; int()/float() as in Model/PqrFormat.v (float() an arbitrary oracle in the theorems); ring/torsion perception does not raise (molecules far below Python's recursion limit)",
        "math.isclose(x, 0.0) is x == 0.0; division by zero does not occur (normalisers positive for all supported types: C16_supported_complete)",
    ]


def replay(ctx, data):
    _quiet()
    import random

    case = data["case"]
    if "pdb" in case:
        d = ctx.scratch_dir()
        names = []
        ligres = case.get("ligres") or ["LIG", "L", "400"]
        for l in case["pdb"].splitlines():
            if l.startswith("HETATM") and l[17:20].strip() == ligres[0] and l[21] == ligres[1] and l[22:26].strip() == ligres[2]:
                names.append(l[12:16].strip())
        before = len(ctx.failures) + sum(ctx.known_hits.values())
        cx = {"tag": case.get("tag", "replay"), "pdb": case["pdb"], "mol2": case["mol2"], "lig_pdb_names": names,
              "ligres": ligres, "lig_written": case.get("lig_written", True)}
        oracle_complex(ctx, d, cx)
        after = len(ctx.failures) + sum(ctx.known_hits.values())
        print("replay:", "FAILS" if after > before else "passes", "|", cx.get("observed"))
        ctx.cleanup()
        return 1 if after > before else 0
    if "transfer" in case:
        before = len(ctx.failures) + sum(ctx.known_hits.values())
        try:
            out = transfer_impl(extract_ligand_loop(), case["transfer"])
        except Exception as e:  # noqa
            out = f"EXC {type(e).__name__}: {e}"
        oracle_transfer(ctx, case["transfer"], out)
        after = len(ctx.failures) + sum(ctx.known_hits.values())
        print("replay:", "FAILS" if after > before else "passes", "| loop output (id=parameters ... | missing ids):", out)
        return 1 if after > before else 0
    if "lattice" in case:
        d = ctx.scratch_dir()
        before = len(ctx.failures) + sum(ctx.known_hits.values())
        lc = dict(case["lattice"])
        oracle_lattice(ctx, d, lc)
        after = len(ctx.failures) + sum(ctx.known_hits.values())
        print("replay:", "FAILS" if after > before else "passes", "|", lc.get("observed"), "| options", lc["opts"], "entry", lc["entry"])
        ctx.cleanup()
        return 1 if after > before else 0
    if "radii_history" in case:
        pristine = take_pristine()
        before = len(ctx.failures) + sum(ctx.known_hits.values())
        res, _ = oracle_radii_history(ctx, pristine, case["ligand"], [list(c) if len(c) == 3 else list(c) + ["radii"] for c in case["radii_history"]])
        after = len(ctx.failures) + sum(ctx.known_hits.values())
        for r in res:
            print("  call", r["call"], "->", r["got"], "| fresh state:", r["fresh"], "| rule:", r["rule"], "| tables changed:", r["changed"])
        print("replay:", "FAILS" if after > before else "passes")
        return 1 if after > before else 0
    if "text" in case and "expected" in case:
        exp = ("OK", [tuple(a) for a in case["expected"][0]], [tuple(b) for b in case["expected"][1]])
        obs = impl_text_obs(case["text"])
        before = len(ctx.failures) + sum(ctx.known_hits.values())
        oracle_text(ctx, {"text": case["text"], "kind": case.get("kind", "replay"), "expected": exp, "no_charge": case.get("no_charge")}, obs)
        after = len(ctx.failures) + sum(ctx.known_hits.values())
        print("replay:", "FAILS" if after > before else "passes", "| reader:", obs[0], obs[1] if obs[0] != "OK" else f"{len(obs[1])} atoms {len(obs[2])} bonds")
        return 1 if after > before else 0
    if "types" in case:
        names = case.get("names") or default_names(case["types"])
        text = mol2_text(case["types"], [tuple(b) for b in case["bonds"]], names)
        obs = impl_all(text, ncyc=case.get("ncyc"))
        if obs.get("read_exc") or obs.get("exc"):
            print("replay: code raises", obs.get("read_exc") or obs.get("exc"))
            return 0
        before = len(ctx.failures)
        oracle_molecule(ctx, 0, obs["types"], [tuple(b) for b in case["bonds"]], names, random.Random(0), obs)
        print("replay:", "FAILS" if len(ctx.failures) > before else "passes", "| sum q", sum(obs["q"]), "sum formal", sum(obs["fc"]))
        return 1 if len(ctx.failures) > before else 0
    print("replay: nothing to re-execute for this record (proof / correspondence break): re-run ./check C16")
    return 1
