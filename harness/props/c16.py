"""C16 - ligand charges conserve formal charge and stay on the ligand."""

import inspect
import io as _io
import logging
import math
import os
import textwrap
from fractions import Fraction

from harness import core

META = {
    "id": "C16",
    "level": "proof",
    "technique": (
        "Coq proofs over an arithmetic-generic Gallina model of peoe.equilibrate (exact field Q), the formal-charge "
        "decision table, the radius lookup chain and the ligand transfer loop of main.non_trivial; the model is tied to "
        "the code by differential execution (binary64 instance bit-for-bit, Q instance <= 1e-9, tables regenerated from "
        "/repo, the transfer loop's own source text executed on generated residue lists)"
    ),
    "level_text": (
        "Proved for ALL atom counts, bond lists, electronegativity functions, damping/scale factors and cycle counts >= 1: "
        "equilibrate conserves the sum of the entry (formal) charges, and relabelling the atoms permutes the result "
        "exactly; every radius returned is a positive zap9/Bondi entry; assign_parameters end to end. The clause 'ligand "
        "parameters only on ligand atoms, each written once' is proved for ALL residue lists for the ligand loop of "
        "main.non_trivial as coded after the repair of finding C16-F4: only residues selected by the loop's condition "
        "(MOL2 residue name, or - placeholder name - exactly the MOL2 heavy atoms) are touched, no atom is written twice, "
        "every MOL2-named atom of a selected residue is written exactly once with the MOL2 parameters. The refutation "
        "that is kept (C16_transfer_old_loop_refuted) is about the PRE-FIX loop definition only."
    ),
    "level_note": (
        "Trusted: Coq kernel + vm_compute; the hand-written model (tied by correspondence, not by a Python semantics); "
        "binary64 rounding is not verified (the exact-field theorems hold for the Q instance; the float instance agrees "
        "with CPython bit for bit on all cases run and the real sums deviate < 1e-9); MOL2 text parsing is exercised "
        "through the real reader but modelled only from the parsed type/bond level (type normalisation included)."
    ),
    "design_ref": "DESIGN.md 4 C16, 5 F4",
}

THEOREMS = [
    "C16_QA_laws",
    "C16_peoe_conserves",
    "C16_peoe_zero_cycles",
    "C16_peoe_equivariant",
    "C16_radius_positive",
    "C16_supported_complete",
    "C16_assign_parameters_sound",
    "C16_transfer_only_ligand",
    "C16_transfer_other_residues_untouched",
    "C16_transfer_other_residues_untouched_fallback",
    "C16_transfer_old_loop_refuted",
    "C16_formal_charge_equivariant",
    "C16_nonvacuous",
]
ALLOWED_AXIOMS: list = []

HEADER = (
    "From Coq Require Import String List ZArith.\nFrom PV Require Import Lib.Strings Model.Peoe.\n"
    "Import ListNotations.\nOpen Scope string_scope.\n"
)

SUPPORTED = ["Br", "C.1", "C.2", "C.3", "C.ar", "Cl", "F", "H", "I", "N.1", "N.2", "N.3", "N.4", "N.am", "N.ar",
             "N.pl3", "O.2", "O.3", "O.co2", "P.3", "S.2", "S.3", "S.o2"]
BT_WORD = {"single": "1", "double": "2", "triple": "3", "aromatic": "ar"}
LIG_SITE = "main.non_trivial ligand loop"


def _quiet():
    logging.getLogger().setLevel(logging.CRITICAL)
    for n in ("pdb2pqr", "pdb2pqr.ligand.mol2", "pdb2pqr.ligand.peoe", "pdb2pqr.main"):
        logging.getLogger(n).setLevel(logging.CRITICAL)


# --------------------------------------------------------------------------
# molecule generator (type / bond level) and MOL2 text writer


class Mol:
    def __init__(self, kind):
        self.kind = kind
        self.types = []
        self.bonds = []  # (i, j, word)
        self.groups = []

    def atom(self, t):
        self.types.append(t)
        return len(self.types) - 1

    def bond(self, i, j, w="1"):
        self.bonds.append((i, j, w))

    def n(self):
        return len(self.types)


VALENCE = {"C.3": 4, "C.2": 3, "C.ar": 3, "C.1": 2, "N.3": 3, "N.4": 4, "N.am": 3, "N.pl3": 3, "N.ar": 2, "N.2": 2,
           "O.3": 2, "S.3": 2, "P.3": 4, "S.o2": 4}


def gen_organic(rng, maxn=22):
    """Mostly-valid organic molecule: tree of groups + ring closures, explicit H."""
    m = Mol("organic")
    free = []  # (atom index, open sigma valences)

    def fill(i, k):
        if k > 0:
            free.append([i, k])

    def attach_point():
        if not free:
            return None
        k = rng.randrange(len(free))
        free[k][1] -= 1
        i = free[k][0]
        if free[k][1] == 0:
            free.pop(k)
        return i

    def link(i, parent, w="1"):
        if parent is not None:
            m.bond(parent, i, w) if rng.random() < 0.5 else m.bond(i, parent, w)

    groups = ["alkyl", "alkyl", "carboxylate", "ammonium", "ammonium3", "guanidinium", "phosphate", "sulfonyl", "amide",
              "nitrile", "alkyne", "aryl", "halogen", "alcohol", "ether", "thiol", "thione", "imine", "amine", "ring",
              "diphosphate", "alkene"]
    root = m.atom("C.3")
    fill(root, 4)
    ngroups = rng.randint(1, 5)
    for _ in range(ngroups):
        if m.n() >= maxn - 4:
            break
        g = rng.choice(groups)
        p = attach_point()
        if p is None:
            break
        m.groups.append(g)
        if g == "alkyl":
            for _k in range(rng.randint(1, 3)):
                c = m.atom("C.3")
                link(c, p)
                fill(c, 2)
                p = c
            free.append([p, 1])
        elif g == "alkene":
            a = m.atom("C.2"); link(a, p)
            b = m.atom("C.2"); m.bond(a, b, "2")
            fill(a, 1); fill(b, 2)
        elif g == "carboxylate":
            c = m.atom("C.2"); link(c, p)
            o1 = m.atom("O.co2"); o2 = m.atom("O.co2")
            w1, w2 = rng.choice([("ar", "ar"), ("2", "1"), ("2", "2"), ("1", "1"), ("1", "2")])
            link(o1, c, w1); link(o2, c, w2)
        elif g == "ammonium":
            nn = m.atom("N.4"); link(nn, p); fill(nn, 3)
        elif g == "ammonium3":  # N.3 with four bonds: corrected to +1
            nn = m.atom("N.3"); link(nn, p); fill(nn, 3)
        elif g == "amine":
            nn = m.atom("N.3"); link(nn, p); fill(nn, 2)
        elif g == "guanidinium":
            n1 = m.atom("N.pl3"); link(n1, p); fill(n1, 1)
            c = m.atom("C.2"); link(c, n1)
            n2 = m.atom("N.pl3"); n3 = m.atom("N.pl3")
            link(n2, c, rng.choice(["2", "ar"])); link(n3, c, rng.choice(["1", "ar"]))
            fill(n2, 2); fill(n3, 2)
        elif g in ("phosphate", "diphosphate"):
            o = m.atom("O.3"); link(o, p)
            ph = m.atom("P.3"); link(ph, o)
            od = m.atom("O.2"); link(od, ph, rng.choice(["2", "2", "1"]))
            for _k in range(2):
                ot = m.atom("O.3"); link(ot, ph)
                if g == "diphosphate" and _k == 0 and m.n() < maxn - 5:
                    p2 = m.atom("P.3"); link(p2, ot)
                    link(m.atom("O.2"), p2, "2")
                    for _j in range(2):
                        link(m.atom("O.3"), p2)
                elif rng.random() < 0.25:
                    fill(ot, 1)  # protonated / esterified
        elif g == "sulfonyl":
            s = m.atom("S.o2"); link(s, p)
            link(m.atom("O.2"), s, "2"); link(m.atom("O.2"), s, "2")
            fill(s, 1)
        elif g == "amide":
            c = m.atom("C.2"); link(c, p)
            link(m.atom("O.2"), c, "2")
            nn = m.atom("N.am"); link(nn, c, rng.choice(["1", "1", "2"])); fill(nn, 2)
        elif g == "nitrile":
            c = m.atom("C.1"); link(c, p); link(m.atom("N.1"), c, "3")
        elif g == "alkyne":
            a = m.atom("C.1"); link(a, p); b = m.atom("C.1"); m.bond(a, b, "3"); fill(b, 1)
        elif g == "aryl":
            k = rng.choice([5, 6, 6])
            ring = [m.atom("C.ar") for _ in range(k)]
            if rng.random() < 0.4:
                m.types[ring[rng.randrange(1, k)]] = "N.ar"
            for a in range(k):
                m.bond(ring[a], ring[(a + 1) % k], "ar")
            link(ring[0], p)
            for a in ring[1:]:
                if m.types[a] == "C.ar":
                    fill(a, 1)
        elif g == "halogen":
            link(m.atom(rng.choice(["F", "Cl", "Br", "I"])), p)
        elif g == "alcohol":
            o = m.atom("O.3"); link(o, p); h = m.atom("H"); link(h, o)
        elif g == "ether":
            o = m.atom("O.3"); link(o, p); c = m.atom("C.3"); link(c, o); fill(c, 3)
        elif g == "thiol":
            s = m.atom("S.3"); link(s, p); fill(s, 1)
        elif g == "thione":
            c = m.atom("C.2"); link(c, p); link(m.atom("S.2"), c, "2"); fill(c, 1)
        elif g == "imine":
            c = m.atom("C.2"); link(c, p); nn = m.atom("N.2"); link(nn, c, "2"); fill(c, 1); fill(nn, 1)
        elif g == "ring":
            k = rng.choice([3, 4, 5, 6])
            ring = [m.atom("C.3") for _ in range(k)]
            for a in range(k):
                m.bond(ring[a], ring[(a + 1) % k], "1")
            link(ring[0], p)
            fill(ring[0], 1)
            for a in ring[1:]:
                fill(a, 2)
    # explicit hydrogens on what is left (sometimes leave valences open)
    for i, k in free:
        for _ in range(k):
            if m.n() >= maxn + 3 or rng.random() < 0.04:
                break
            h = m.atom("H")
            m.bond(i, h, "1") if rng.random() < 0.7 else m.bond(h, i, "1")
    return m


def gen_wild(rng):
    """Any supported types on any connectivity (multi-edges, self bonds, isolated atoms)."""
    m = Mol("wild")
    n = rng.randint(1, 9)
    for _ in range(n):
        m.atom(rng.choice(SUPPORTED))
    for i in range(1, n):
        if rng.random() < 0.9:
            m.bond(rng.randrange(i), i, rng.choice(["1", "1", "1", "2", "3", "ar"]))
    for _ in range(rng.choice([0, 0, 1, 2])):
        a, b = rng.randrange(n), rng.randrange(n)
        if a == b and rng.random() < 0.7:
            continue
        m.bond(a, b, rng.choice(["1", "2", "ar"]))
    return m


def gen_small(rng):
    """<= 7 atoms, for the exact Q instance."""
    m = Mol("small")
    k = rng.choice(["carboxylate", "ammonium", "chain", "nitrile", "wild", "phosphate", "aromatic"])
    if k == "carboxylate":
        c = m.atom("C.2"); m.bond(c, m.atom("O.co2"), "ar"); m.bond(c, m.atom("O.co2"), "ar"); m.bond(c, m.atom("H"), "1")
    elif k == "ammonium":
        nn = m.atom(rng.choice(["N.4", "N.3"]))
        for _ in range(4):
            m.bond(nn, m.atom("H"), "1")
    elif k == "chain":
        ts = [rng.choice(["C.3", "O.3", "N.3", "S.3", "C.2", "N.am", "Cl", "F"]) for _ in range(rng.randint(2, 5))]
        ts[0] = "C.3"
        for i, t in enumerate(ts):
            m.atom(t)
            if i:
                m.bond(i - 1, i, "1")
        m.bond(0, m.atom("H"), "1")
    elif k == "nitrile":
        c = m.atom("C.1"); m.bond(c, m.atom("N.1"), "3"); h = m.atom("C.3"); m.bond(h, c, "1"); m.bond(h, m.atom("H"), "1")
    elif k == "phosphate":
        p = m.atom("P.3"); m.bond(p, m.atom("O.2"), "2")
        for _ in range(3):
            m.bond(p, m.atom("O.3"), "1")
    elif k == "aromatic":
        r = [m.atom(rng.choice(["C.ar", "C.ar", "N.ar"])) for _ in range(rng.choice([3, 5]))]
        for a in range(len(r)):
            m.bond(r[a], r[(a + 1) % len(r)], "ar")
    else:
        n = rng.randint(1, 5)
        for _ in range(n):
            m.atom(rng.choice(SUPPORTED))
        for i in range(1, n):
            m.bond(rng.randrange(i), i, rng.choice(["1", "2", "ar"]))
    m.groups = [k]
    return m


def gen_malformed(rng):
    m = gen_wild(rng)
    m.kind = "malformed"
    how = rng.choice(["type", "type", "btype", "dots"])
    if how == "type":
        m.types[rng.randrange(m.n())] = rng.choice(["S.o", "Du", "C.cat", "O.spc", "Fe", "LP", "O.oh", "Si", "Na", "Se", "Any"])
    elif how == "dots":
        m.types[rng.randrange(m.n())] = "C.ar.x"
    else:
        if not m.bonds:
            m.atom("H"); m.bond(0, m.n() - 1, "1")
        k = rng.randrange(len(m.bonds))
        a, b, _ = m.bonds[k]
        m.bonds[k] = (a, b, rng.choice(["am", "du", "un", "nc", "4", "AR"]))
    m.groups = [how]
    return m


def default_names(types):
    cnt = {}
    out = []
    for t in types:
        e = t.split(".")[0].upper()
        cnt[e] = cnt.get(e, 0) + 1
        out.append(f"{e}{cnt[e]}")
    return out


def random_names(rng, n):
    seen = set()
    out = []
    alpha = "ABCDEFGHJKLMNPQRSTUVWXYZ0123456789'*"
    while len(out) < n:
        s = "".join(rng.choice(alpha) for _ in range(rng.randint(1, 4)))
        if s not in seen:
            seen.add(s)
            out.append(s)
    return out


def case_variant(rng, t):
    r = rng.random()
    if r < 0.15:
        return t.upper()
    if r < 0.25:
        return t.lower()
    return t


def mol2_text(types, bonds, names, coords=None, resname="LIG", resseq=1):
    """MOL2 text; bond endpoints are 1-based positions as the reader resolves them."""
    L = ["# generated by /verif C16", "@<TRIPOS>MOLECULE", "gen", f"{len(types):5d} {len(bonds):5d}     1     0     0",
         "SMALL", "NO_CHARGES", "", "", "@<TRIPOS>ATOM"]
    for i, (t, nm) in enumerate(zip(types, names)):
        x, y, z = coords[i] if coords else (1.5 * i, 0.3 * (i % 3), 0.7 * (i % 5))
        L.append(f"{i + 1:7d} {nm:<8s} {x:10.4f} {y:10.4f} {z:10.4f} {t:<7s} {resseq:3d} {resname:<4s}     0.0000 ")
    L.append("@<TRIPOS>BOND")
    for k, (a, b, w) in enumerate(bonds):
        L.append(f"{k + 1:6d} {a + 1:4d} {b + 1:4d} {w:<4s} ")
    L.append("@<TRIPOS>SUBSTRUCTURE")
    L.append(f"     1 {resname}         1 TEMP              0 ****  ****    0 ROOT")
    return "\n".join(L) + "\n"


# --------------------------------------------------------------------------
# implementation drivers


def impl_read(text):
    from pdb2pqr.ligand.mol2 import Mol2Molecule

    m = Mol2Molecule()
    m.read(_io.StringIO(text))
    return m


def impl_all(text, ncyc=None):
    """Run the real reader + parameter assignment. Returns a dict of observations."""
    from pdb2pqr.ligand import RADII, peoe

    try:
        m = impl_read(text)
    except Exception as e:  # noqa
        return {"read_exc": type(e).__name__}
    atoms = list(m.atoms.values())
    obs = {"read_exc": None, "n": len(atoms), "types": [a.type for a in atoms]}
    fc, bo, rad = [], [], []
    for a in atoms:
        try:
            fc.append(a.formal_charge)
        except Exception as e:  # noqa
            fc.append(None)
        bo.append(a.bond_order)
        try:
            a.assign_radius(RADII["zap9"], RADII["bondi"])
            rad.append(a.radius)
        except KeyError:
            rad.append(None)
    obs["fc"], obs["bo"], obs["rad"] = fc, bo, rad
    try:
        if ncyc is None:
            m.assign_parameters()
        else:
            m.assign_radii(RADII["zap9"], RADII["bondi"])
            for a in atoms:
                a.charge = a.formal_charge
            peoe.equilibrate(m.atoms.values(), num_cycles=ncyc)
        obs["q"] = [a.charge for a in atoms]
        obs["r"] = [a.radius for a in atoms]
        obs["exc"] = None
    except Exception as e:  # noqa
        obs["exc"] = type(e).__name__
    return obs


def stored_mol2_files():
    out = []
    for d in (core.REPO / "tests" / "data", core.REPO / "examples" / "ligands"):
        if d.is_dir():
            out += sorted(d.glob("*.mol2"))
    return out


def struct_of(m):
    """(types, bonds) at the level of the model from a parsed Mol2Molecule."""
    names = list(m.atoms.keys())
    idx = {nm: i for i, nm in enumerate(names)}
    types = [a.type for a in m.atoms.values()]
    bonds = [(idx[b.atoms[0].name], idx[b.atoms[1].name], BT_WORD[b.type]) for b in m.bonds]
    return types, bonds


# --------------------------------------------------------------------------
# model terms and result parsing


def coq_mol(types, bonds):
    ts = core.coq_list([core.coq_string(t) for t in types])
    bs = core.coq_list([f"({a}, {b}, {core.coq_string(w)})" for (a, b, w) in bonds])
    return f"{ts} {bs}"


def parse_F(s):
    if s == "0 0 0":
        return 0.0
    if s in ("inf", "-inf", "nan"):
        return float(s)
    a, b = s.split()
    return math.ldexp(int(a), int(b))


def parse_params(s, num):
    if s == "EXC":
        return None
    out = []
    for item in s.split(";") if s else []:
        r, q = item.split(":")
        out.append((int(r), num(q)))
    return out


def parse_formal(s):
    if s == "EXC":
        return None
    a, b, c = s.split("|")
    f = lambda x: [None if v == "EXC" else int(v) for v in x.split(";")] if x else []  # noqa
    return f(a), f(b), f(c)


def r100(r):
    if r is None:
        return None
    k = round(r * 100)
    return k if abs(r * 100 - k) < 1e-9 else ("inexact", r)


def fc2(v):
    if v is None:
        return None
    k = round(2 * v)
    return k if abs(2 * v - k) < 1e-12 else ("inexact", v)


# --------------------------------------------------------------------------
# tables


def table_correspondence(ctx, tab):
    """show_tables (model) vs the dictionaries of /repo."""
    from pdb2pqr.ligand import NONBONDED_BY_TYPE, RADII, VALENCE_BY_ELEMENT, peoe

    parts = dict(p.split("=", 1) for p in tab.split("|"))
    bad = []

    def kv(s):
        return [tuple(x.rsplit(":", 1)) for x in s.split(";")]

    for name, pyd, scale in (("ZAP9", RADII["zap9"], 100), ("BONDI", RADII["bondi"], 100), ("VALENCE", VALENCE_BY_ELEMENT, 1),
                             ("NONBONDED2", NONBONDED_BY_TYPE, 2)):
        mod = {k: int(v) for k, v in kv(parts[name])}
        exp = {}
        for k, v in pyd.items():
            z = round(v * scale)
            exp[k] = z if abs(v * scale - z) < 1e-9 else v * scale
        if mod != exp:
            bad.append(f"{name}: model-only {sorted(set(mod.items()) - set(exp.items()))[:4]} repo-only {sorted(set(exp.items()) - set(mod.items()), key=str)[:4]}")
    pq = {k: [Fraction(x) for x in v.split(",")] for k, v in kv(parts["POLYQ"])}
    pf = {k: [parse_F(x) for x in v.split(",")] for k, v in kv(parts["POLYF"])}
    if set(pq) != set(peoe.POLY_TERMS):
        bad.append(f"POLY_TERMS keys differ: {sorted(set(pq) ^ set(peoe.POLY_TERMS))}")
    else:
        for k, terms in peoe.POLY_TERMS.items():
            if len(terms) != 4:
                bad.append(f"POLY_TERMS[{k}] has {len(terms)} terms (model: 4-term branch only)")
                continue
            for j in range(4):
                if abs(float(pq[k][j]) - terms[j]) > 1e-12 or pf[k][j] != terms[j]:
                    bad.append(f"POLY_TERMS[{k}][{j}] repo={terms[j]!r} modelQ={float(pq[k][j])!r} modelF={pf[k][j]!r}")
    consts = [Fraction(x) for x in parts["CONST"].split(";")]
    exp = [peoe.MAX_CHARGE, peoe.DEFAULT_H_ELECTRONEG, peoe.DAMPING_FACTOR, peoe.SCALING_FACTOR, peoe.NUM_CYCLES]
    for nm, a, b in zip(("MAX_CHARGE", "DEFAULT_H_ELECTRONEG", "DAMPING_FACTOR", "SCALING_FACTOR", "NUM_CYCLES"), consts, exp):
        if abs(float(a) - b) > 1e-12:
            bad.append(f"{nm}: repo={b} model={float(a)}")
    if peoe.DEFAULT_H_CHARGE != 1.0:
        bad.append(f"DEFAULT_H_CHARGE repo={peoe.DEFAULT_H_CHARGE} model=1")
    sig = inspect.signature(peoe.equilibrate)
    for p, v in (("damp", peoe.DAMPING_FACTOR), ("scale", peoe.SCALING_FACTOR), ("num_cycles", peoe.NUM_CYCLES)):
        if sig.parameters[p].default != v:
            bad.append(f"equilibrate default {p} is not the module constant")
    ctx.cov["correspondence_cases"] += 1
    ctx.count("corr:tables")
    if bad:
        ctx.cov["correspondence_disagreements"] += 1
        ctx.broke("correspondence-broken", "Model.Peoe tables (ZAP9/BONDI/VALENCE/NONBONDED2/POLY/constants) vs pdb2pqr.ligand tables", "\n".join(bad[:12]), None)
    return not bad


# --------------------------------------------------------------------------
# the transfer loop: the code's own source text executed on fake objects


class _Obj:
    def __init__(self, **k):
        self.__dict__.update(k)


def extract_ligand_loop():
    from pdb2pqr import main as pmain

    src = inspect.getsource(pmain.non_trivial).splitlines()
    start = [i for i, l in enumerate(src) if l.strip() == "lig_atoms = []"]
    end = [i for i, l in enumerate(src) if l.strip().startswith("matched_atoms += ")]
    if len(start) != 1 or len(end) != 1 or end[0] <= start[0]:
        raise LookupError("ligand loop markers (lig_atoms = [] ... matched_atoms += ...) not found in main.non_trivial")
    head = "\n".join(src[: start[0]])
    if "ligand.assign_parameters()" not in head or "apply_force_field" not in head:
        raise LookupError("ligand loop is no longer preceded by apply_force_field / ligand.assign_parameters()")
    return compile(textwrap.dedent("\n".join(src[start[0] : end[0] + 1])), "<main.non_trivial ligand loop>", "exec")


def _describes(lig, atoms):
    """the residue consists of exactly the MOL2 heavy atoms (+ some of its hydrogens)"""
    nms = {a[2] for a in atoms}
    return {nm for nm, _t, h in lig if not h} <= nms <= {nm for nm, _t, _h in lig}


def gen_transfer_case(rng):
    """Residue list + MOL2 ligand for the loop.  Each residue is (name, kind, atoms); kind 'lig' marks the
    residue(s) the MOL2 file is meant for (ground truth of the generator, independent of how the code selects).
    mode: named = the ligand residue carries the MOL2 residue name; placeholder = the MOL2 residue name occurs
    nowhere and the ligand residue has exactly the MOL2 heavy atoms; incomplete = placeholder, a heavy atom
    missing in the structure (nothing identifies the ligand); 'ambiguous' cases (another residue bears the
    ligand's name / is atom-for-atom the ligand) are used for the model tie only."""
    pool = ["C1", "C2", "O1", "H1", "H2", "O", "N", "CA", "N1", "NA", "X", "H3"]
    picked = rng.sample(pool, rng.randint(1, 6))
    if all(nm.startswith("H") for nm in picked):
        picked.append("C9")
    lig = [[nm, "L" + nm, nm.startswith("H")] for nm in picked]
    heavy = [nm for nm, _t, h in lig if not h]
    hyd = [nm for nm, _t, h in lig if h]
    mode = rng.choice(["named", "named", "named", "placeholder", "placeholder", "incomplete"])
    lnames = ["LIG"] if mode == "named" else [rng.choice(["UNK", "<1>"])]
    if mode == "named" and rng.random() < 0.1:
        lnames.append("LG2")
    pdb_lig_name = "LIG" if mode == "named" else "KNI"
    rs = []
    aid = 0
    kinds = [rng.choice(["prot", "lig", "wat", "het", "mixed", "copy"]) for _ in range(rng.randint(1, 5))]
    if "lig" not in kinds and rng.random() < 0.8:
        kinds.insert(rng.randrange(len(kinds) + 1), "lig")
    for kind in kinds:
        if kind == "prot":
            rname = rng.choice(["ALA", "SER", "UNK"])
            nms, het = rng.sample(["N", "CA", "C", "O", "H", "CB"], rng.randint(1, 4)), [False] * 4
        elif kind == "lig":
            rname = pdb_lig_name if rng.random() < 0.9 or mode != "named" else "LG2"
            if mode == "named":
                nms = rng.sample(picked, rng.randint(1, len(picked))) + (["ZZ"] if rng.random() < 0.3 else [])
            else:
                nms = heavy + rng.sample(hyd, rng.randint(0, len(hyd)))
                if mode == "incomplete":
                    nms.remove(rng.choice(heavy))
                    if not nms:
                        nms = ["ZZ"]
                rng.shuffle(nms)
            het = [True] * len(nms)
            if rng.random() < 0.05:
                het[rng.randrange(len(het))] = False
        elif kind == "wat":
            rname = "HOH"
            nms, het = ["O", "H1", "H2"][: rng.randint(1, 3)], [True] * 3
        elif kind == "het":
            rname = rng.choice(["XYZ", "GOL", "ZN"])
            nms, het = rng.sample(pool, rng.randint(1, 4)), [True] * 4
        elif kind == "copy":  # another hetero group with (a subset of) the ligand's atom names
            rname = rng.choice(["XYZ", "XYZ", "XYZ", "LIG", "KNI"])
            nms = rng.sample(picked, rng.randint(1, len(picked)))
            het = [True] * len(nms)
        else:
            rname = "MIX"
            nms = rng.sample(pool, rng.randint(2, 5))
            het = [rng.random() < 0.6 for _ in nms]
        atoms = []
        for nm, h in zip(nms, het):
            ffhit = {"prot": 0.95, "lig": 0.25, "wat": 0.9, "het": 0.3, "mixed": 0.5, "copy": 0.3}[kind] > rng.random()
            atoms.append([aid, h, nm, f"F{aid}" if ffhit else None])
            aid += 1
        rs.append([rname, kind, atoms])
    return {"mode": mode, "lnames": lnames, "lig": lig, "rs": rs}


def used_lnames(case):
    """residue names carried by the MOL2 atoms (atom k carries lnames[k], the rest lnames[0])"""
    return case["lnames"][: max(1, min(len(case["lnames"]), len(case["lig"])))]


def transfer_truth(case):
    """Ground truth from the generator's labels, not from the code.  Returns (unambiguous, expected):
    unambiguous = no residue other than the ligand bears a MOL2 residue name, the PDB name of the ligand, or
    is atom for atom what the MOL2 file describes (then nothing but the ligand may be touched);
    expected = indices of ligand residues that must be parameterised (named like the MOL2 residue, or - if no
    residue is - exactly described by the MOL2 file, or a namesake of such a ligand residue)."""
    lig, lnames, rs = case["lig"], used_lnames(case), case["rs"]
    lig_pdb_names = {r[0] for r in rs if r[1] == "lig"}
    unamb = not any(r[1] != "lig" and (r[0] in lnames or r[0] in lig_pdb_names or _describes(lig, r[2])) for r in rs)
    if any(r[0] in lnames for r in rs):
        expected = {k for k, r in enumerate(rs) if r[1] == "lig" and r[0] in lnames}
    else:
        found = {r[0] for r in rs if r[1] == "lig" and _describes(lig, r[2])}
        expected = {k for k, r in enumerate(rs) if r[1] == "lig" and r[0] in found}
    return unamb, expected


def transfer_impl(code, case):
    """Run the repo's loop text. Parameters are numbers (the loop adds charges up);
    they are mapped back to the tags the model prints."""
    residues = []
    matched, missing = [], []
    tag = {}
    for rname, _kind, atoms in case["rs"]:
        objs = []
        for aid, het, nm, ff in atoms:
            v = None
            if ff is not None:
                v = 1000.0 + aid
                tag[v] = ff
            a = _Obj(aid=aid, type="HETATM" if het else "ATOM", name=nm, radius=v, ffcharge=v)
            (matched if ff is not None else missing).append(a)
            objs.append(a)
        residues.append(_Obj(atoms=objs, name=rname, res_seq=1))
    ligatoms = {}
    for k, (nm, t, is_h) in enumerate(case["lig"]):
        v = -1.0 - k
        tag[v] = t
        ligatoms[nm] = _Obj(radius=v, charge=v, name=nm, type="H" if is_h else "C.3",
                            res_name=case["lnames"][k] if k < len(case["lnames"]) else case["lnames"][0])
    ns = {
        "biomolecule": _Obj(residues=residues),
        "ligand": _Obj(atoms=ligatoms),
        "matched_atoms": matched,
        "missing_atoms": missing,
        "_LOGGER": logging.getLogger("verif.c16.null"),
    }
    exec(code, ns)  # noqa: S102 - the repo's own loop text
    m = ns["matched_atoms"]
    return ";".join(f"{a.aid}={tag.get(a.ffcharge, 'EXC') if a.ffcharge == a.radius else 'MIXED'}" for a in m) + "|" + ";".join(str(a.aid) for a in ns["missing_atoms"])


def transfer_term(case):
    # residue names actually carried by MOL2 atoms (the code builds a set from the atoms)
    lnames = core.coq_list([core.coq_string(x) for x in used_lnames(case)])
    heavy = core.coq_list([core.coq_string(nm) for nm, _t, h in case["lig"] if not h])
    lig = core.coq_list([f"({core.coq_string(nm)}, {core.coq_string(t)})" for nm, t, _h in case["lig"]])
    rs = core.coq_list([
        "(" + core.coq_string(rname) + ", " + core.coq_list([
            f"({aid}, {'true' if het else 'false'}, {core.coq_string(nm)}, {'Some ' + core.coq_string(ff) if ff is not None else 'None'})"
            for aid, het, nm, ff in atoms]) + ")"
        for rname, _kind, atoms in case["rs"]])
    return f"run_transfer {lnames} {heavy} {lig} {rs}"


def oracle_transfer(ctx, case, out):
    """Model-independent reading of what the repo's loop text did with a generated residue list: the generator
    knows which residue is the ligand (kind 'lig'); no use of the Coq model and none of the code's selection."""
    if out.startswith("EXC"):
        ctx.fail({"site": LIG_SITE, "condition": "loop-raises", "level": "loop-text"}, out, {"transfer": case})
        return
    unamb, expected = transfer_truth(case)
    written = [w.split("=") for w in out.split("|")[0].split(";") if w]
    ids = [int(i) for i, _t in written]
    got = {}
    for i, t in written:
        got.setdefault(int(i), []).append(t)
    ligtag = {nm: t for nm, t, _h in case["lig"]}
    sig0 = {"site": LIG_SITE, "victim_record": "HETATM", "match": "atom-name", "level": "loop-text"}
    bad = []
    if len(ids) != len(set(ids)):
        dup = sorted(i for i in set(ids) if ids.count(i) > 1)
        bad.append(("atom-written-twice", f"atom ids {dup} appended to matched_atoms twice"))
    for k, (rname, kind, atoms) in enumerate(case["rs"]):
        seen_atom_rec = False
        for aid, het, nm, ff in atoms:
            if not het:
                seen_atom_rec = True
            if kind != "lig" and unamb:
                exp = [ff] if ff is not None else []
                if sorted(set(got.get(aid, []))) != exp:
                    bad.append(("non-ligand-residue-receives-ligand-parameters",
                                f"{rname} atom {nm} (id {aid}, force field {ff}) written as {got.get(aid)}"))
            if k in expected and not seen_atom_rec and nm in ligtag:
                if got.get(aid) != [ligtag[nm]]:
                    bad.append(("ligand-atom-not-written-once-with-mol2-parameters",
                                f"{rname} atom {nm} (id {aid}) written as {got.get(aid)}, MOL2 {ligtag[nm]}"))
    nontrivial = unamb and any(k == "lig" for _n, k, _a in case["rs"]) and len(case["rs"]) >= 2
    ctx.evaluated(("transfer", core.sha(case)), nontrivial)
    ctx.count("search:loop-" + case["mode"] + ("" if unamb else "-ambiguous"))
    done = set()
    for cond, txt in bad:
        if cond in done:
            continue
        done.add(cond)
        ctx.fail(dict(sig0, condition=cond), txt, {"transfer": case})


# --------------------------------------------------------------------------
# property oracles on the real code (independent of the model)


def oracle_molecule(ctx, case_id, types, bonds, names, rng, obs):
    """Conservation, radii, renaming and permutation metamorphic checks."""
    from pdb2pqr.ligand import RADII

    case = {"types": types, "bonds": bonds, "names": names}
    n = len(types)
    q, fc, r = obs["q"], obs["fc"], obs["r"]
    dev = abs(sum(q) - sum(fc))
    if not (dev <= 1e-9):
        ctx.fail({"site": "peoe.equilibrate", "condition": "sum-of-charges-differs-from-sum-of-formal-charges"},
                 f"sum(q)={sum(q)!r} sum(formal)={sum(fc)!r}", case)
    docs = set(RADII["zap9"].values()) | set(RADII["bondi"].values())
    for t, x in zip(obs["types"], r):
        if not (isinstance(x, (int, float)) and x > 0 and x in docs):
            ctx.fail({"site": "Mol2Atom.assign_radius", "condition": "radius-not-positive-or-not-from-zap9/bondi"}, f"type {t} radius {x!r}", case)
            break
    # renaming: same order, fresh names
    text2 = mol2_text(types, bonds, random_names(rng, n))
    o2 = impl_all(text2)
    if o2.get("exc") or o2.get("read_exc") or any(abs(a - b) > 1e-9 for a, b in zip(q, o2["q"])) or o2["r"] != r:
        ctx.fail({"site": "Mol2Molecule.assign_parameters", "condition": "result-depends-on-atom-names"}, "renaming the atoms changed a charge/radius", case)
    # permutation of the atoms (bond lines keep their order, endpoints rewritten)
    perm = list(range(n))
    rng.shuffle(perm)  # new position k holds old atom perm[k]
    inv = [0] * n
    for k, i in enumerate(perm):
        inv[i] = k
    t3 = [types[i] for i in perm]
    b3 = [(inv[a], inv[b], w) for a, b, w in bonds]
    o3 = impl_all(mol2_text(t3, b3, [names[i] for i in perm]))
    if o3.get("exc") or o3.get("read_exc") or any(abs(q[i] - o3["q"][inv[i]]) > 1e-9 or r[i] != o3["r"][inv[i]] for i in range(n)):
        ctx.fail({"site": "Mol2Molecule.assign_parameters", "condition": "result-depends-on-atom-order"},
                 "permuting the atoms did not permute the charges", dict(case, perm=perm))
    # full shuffle: atoms, bond lines, bond endpoint order -> same multiset per type;
    # per atom unless the order-dependent phosphate rule decides between equivalent oxygens
    b4 = [((inv[b], inv[a], w) if rng.random() < 0.5 else (inv[a], inv[b], w)) for a, b, w in bonds]
    rng.shuffle(b4)
    o4 = impl_all(mol2_text(t3, b4, random_names(rng, n)))
    if o4.get("exc") or o4.get("read_exc"):
        ctx.fail({"site": "Mol2Molecule.assign_parameters", "condition": "bond-order-shuffle-raises"}, f"{o4.get('exc') or o4.get('read_exc')}", dict(case, perm=perm, bonds4=b4))
    else:
        ms0 = sorted((t, round(x, 8)) for t, x in zip(types, q))
        ms4 = sorted((t, round(x, 8)) for t, x in zip(t3, o4["q"]))
        phos = any(t == "O.3" and b == 1 for t, b in zip(types, obs["bo"]))
        same_atom = all(abs(q[i] - o4["q"][inv[i]]) <= 1e-9 for i in range(n))
        # inconsistently typed phosphate (a bond-order-1 O.2/O.co2 next to a bond-order-1 O.3 on the same P):
        # the candidates of the phosphate rule are not equivalent atoms; BOND-line order (not atom order) then
        # decides the formal charge - outside the property's quantifier, counted and skipped
        mixed = False
        for pi, pt in enumerate(types):
            if pt[0] == "P":
                nb = {j for a, b, _w in bonds for i, j in ((a, b), (b, a)) if i == pi and types[j][0] == "O" and obs["bo"][j] == 1}
                if any(types[j] == "O.3" for j in nb) and any(types[j] != "O.3" for j in nb):
                    mixed = True
        if mixed:
            ctx.count("search:bond-shuffle-skipped-mixed-phosphate")
        elif any(a[0] != b[0] or abs(a[1] - b[1]) > 2e-8 for a, b in zip(ms0, ms4)) or (not phos and not same_atom):
            ctx.fail({"site": "Mol2Molecule.assign_parameters", "condition": "result-depends-on-bond-line-order-beyond-symmetry"},
                     "reordering BOND lines / endpoints changed the charges by more than an exchange between equivalent atoms",
                     dict(case, perm=perm, bonds4=b4))
    charged = any(abs(v) > 0 for v in fc)
    ring = len(bonds) >= n
    ctx.evaluated(("mol", case_id, tuple(types), tuple(bonds)), n >= 2 and len(bonds) >= 1)
    ctx.count("search:charged" if charged else "search:neutral")
    if ring:
        ctx.count("search:cyclic")


# ---- complexes through main_driver ----------------------------------------


def het_line(serial, name, resn, chain, resseq, x, y, z, rec="HETATM"):
    nm = f" {name:<3s}" if len(name) < 4 else name[:4]
    return f"{rec:<6s}{serial:5d} {nm:4s} {resn:>3s} {chain}{resseq:4d}    {x:8.3f}{y:8.3f}{z:8.3f}  1.00  0.00\n"


def protein_lines(nres=5):
    out = []
    for l in open(core.REPO / "tests" / "data" / "1QBS.pdb"):
        if l.startswith("ATOM") and l[21] == "A" and int(l[22:26]) <= nres:
            out.append(l)
    return out


def run_pdb2pqr(d, pdb_text, mol2_path, tag):
    """main_driver on a complex; returns (status, pqr atom rows, abort diagnosis rows)."""
    from pdb2pqr import main as pmain

    P = pmain.build_main_parser()
    pdb = d / f"{tag}.pdb"
    out = d / f"{tag}.pqr"
    pdb.write_text(pdb_text)
    if out.exists():
        out.unlink()
    argv = ["--ff=AMBER", "--keep-chain", "--log-level=CRITICAL"]
    if mol2_path:
        argv.append(f"--ligand={mol2_path}")
    argv += [str(pdb), str(out)]
    _quiet()
    logging.disable(logging.CRITICAL)
    try:
        try:
            pmain.main_driver(P.parse_args(argv))
            status = "ok"
        except Exception as e:  # noqa
            status = f"{type(e).__name__}:{e.__cause__ or e}"
        rows = []
        if status == "ok" and out.exists():
            for l in out.read_text().splitlines():
                if l.startswith(("ATOM", "HETATM")):
                    w = l.split()
                    # rec serial name resn chain resseq x y z q r
                    rows.append({"rec": w[0], "name": w[2], "resn": w[3], "chain": w[4], "resseq": w[5], "q": float(w[-2]), "r": float(w[-1])})
        diag = None
        if status != "ok" and mol2_path:
            # abort: look at the atom objects the run leaves behind (same public steps as main_driver)
            try:
                args = pmain.transform_arguments(P.parse_args(argv))
                definition = pmain.io.get_definitions()
                pdblist, is_cif = pmain.io.get_molecule(args.input_path)
                bio, definition, lig = pmain.setup_molecule(pdblist, definition, args.ligand)
                bio.set_termini(neutraln=args.neutraln, neutralc=args.neutralc)
                bio.update_bonds()
                try:
                    pmain.non_trivial(args=args, biomolecule=bio, ligand=lig, definition=definition, is_cif=is_cif)
                except Exception:  # noqa
                    pass
                diag = []
                for res in bio.residues:
                    for a in res.atoms:
                        diag.append({"rec": a.type, "name": a.name, "resn": res.name, "chain": res.chain_id, "resseq": str(res.res_seq),
                                     "q": a.ffcharge, "r": a.radius})
            except Exception as e:  # noqa
                diag = [{"diag_error": f"{type(e).__name__}: {e}"}]
        return status, rows, diag
    finally:
        logging.disable(logging.NOTSET)
        _quiet()


def key_of(row):
    resn = "WAT" if row["resn"] in ("HOH", "WAT") else row["resn"]
    return (resn, row["chain"], row["resseq"], row["name"])


def oracle_complex(ctx, d, cx):
    """Per-atom provenance and multiplicity of the PQR lines of a complex.

    Baseline = the same complex run without --ligand (non-ligand atoms keep the
    force field's parameters there); ligand parameters = the real
    assign_parameters() on the MOL2 file alone."""
    ligres = tuple(cx.get("ligres") or ("LIG", "L", "400"))
    mol2 = d / f"{cx['tag']}.mol2"
    mol2.write_text(cx["mol2"])
    lig = impl_read(cx["mol2"])
    lig.assign_parameters()
    ligp = {nm: (a.charge, a.radius) for nm, a in lig.atoms.items()}
    st0, base_rows, _ = run_pdb2pqr(d, cx["pdb"], None, cx["tag"] + "_base")
    st1, rows, diag = run_pdb2pqr(d, cx["pdb"], str(mol2), cx["tag"])
    case = {"tag": cx["tag"], "pdb": cx["pdb"], "mol2": cx["mol2"], "status": st1, "ligres": list(ligres),
            "lig_written": cx.get("lig_written", True)}
    ctx.evaluated(("complex", cx["tag"], core.sha(cx["pdb"])), True)
    ctx.count("complex:" + cx["tag"].split("-")[0])
    if st0 != "ok":
        ctx.fail({"site": "main.main_driver", "condition": "baseline-without-ligand-fails"}, f"baseline run failed: {st0}", case)
        return
    base = {}
    for r_ in base_rows:
        base.setdefault(key_of(r_), []).append(r_)
    findings = []  # (signature, text)

    def is_lig(k):
        return k[:3] == ligres

    def victims(observed, aborted):
        for r_ in observed:
            k = key_of(r_)
            if is_lig(k) or r_.get("q") is None:
                continue
            b = base.get(k)
            exp = (round(b[0]["q"], 4), round(b[0]["r"], 4)) if b else None
            got = (round(r_["q"], 4), round(r_["r"], 4))
            if exp is not None and got == exp:
                continue
            if exp is None and aborted:
                # unparameterised hetero atom: still carrying nothing?
                if r_["q"] is None:
                    continue
            lp = ligp.get(r_["name"])
            from_lig = lp is not None and abs(lp[0] - r_["q"]) < 6e-5 and abs(lp[1] - r_["r"]) < 6e-5
            if from_lig:
                sig = {"site": LIG_SITE, "condition": "non-ligand-residue-receives-ligand-parameters", "victim_record": r_["rec"],
                       "match": "atom-name"}
                findings.append((sig, f"{k} carries the ligand's parameters of atom {r_['name']} {got} (force field: {exp})"))
            else:
                findings.append(({"site": "main.non_trivial", "condition": "non-ligand-atom-parameters-changed-by-ligand-option",
                                  "victim_record": r_["rec"]}, f"{k} has {got}, without --ligand {exp}"))

    if st1 == "ok":
        seen = {}
        for r_ in rows:
            seen.setdefault(key_of(r_), []).append(r_)
        for k, lst in seen.items():
            if len(lst) > 1:
                lp = ligp.get(k[3])
                if not is_lig(k) and lp is not None:
                    findings.append(({"site": LIG_SITE, "condition": "atom-written-twice", "victim_record": lst[0]["rec"], "match": "atom-name"},
                                     f"{k} written {len(lst)} times"))
                else:
                    findings.append(({"site": "main.non_trivial", "condition": "atom-written-twice-other", "ligand_atom": is_lig(k)}, f"{k} written {len(lst)} times"))
        victims([lst[0] for k, lst in seen.items()], False)
        for k in base:
            if k not in seen and not is_lig(k):
                findings.append(({"site": "main.non_trivial", "condition": "non-ligand-atom-lost-by-ligand-option"}, f"{k} missing with --ligand"))
        # ligand atoms: exactly once, with the MOL2 parameters (not asked when nothing identifies the ligand:
        # placeholder MOL2 residue name and a heavy atom missing in the structure)
        for nm in cx["lig_pdb_names"] if cx.get("lig_written", True) else []:
            k = ligres + (nm,)
            lst = seen.get(k, [])
            if nm in ligp:
                if len(lst) != 1:
                    if len(lst) == 0:
                        findings.append(({"site": LIG_SITE, "condition": "ligand-atom-not-written"}, f"ligand atom {nm} written {len(lst)} times"))
                elif abs(lst[0]["q"] - ligp[nm][0]) > 6e-5 or abs(lst[0]["r"] - ligp[nm][1]) > 6e-5:
                    findings.append(({"site": LIG_SITE, "condition": "ligand-atom-wrong-parameters"}, f"{nm}: {lst[0]['q']},{lst[0]['r']} vs MOL2 {ligp[nm]}"))
    else:
        if diag and "diag_error" in diag[0]:
            findings.append(({"site": "main.main_driver", "condition": "complex-run-fails-undiagnosed"}, f"{st1} / {diag[0]['diag_error']}"))
        else:
            before = len(findings)
            victims([r_ for r_ in (diag or []) if r_["q"] is not None], True)
            if len(findings) == before:
                findings.append(({"site": "main.main_driver", "condition": "complex-run-fails", "error": st1.split(":")[0]}, f"run with --ligand failed: {st1}"))
            else:
                findings = [(dict(s, outcome="run-aborts-noninteger-charge" if "deviates" in st1 else "run-aborts"), t) for s, t in findings]
    if st1 == "ok":
        findings = [(dict(s, outcome="pqr-written"), t) for s, t in findings]
    done = set()
    for sig, txt in findings:
        h = core.sha(sig)
        if h in done:
            continue
        done.add(h)
        ctx.fail(sig, txt, case)
    cx["observed"] = {"status": st1, "findings": [t for _, t in findings][:4]}
    if cx.get("expect_clean") and findings:
        ctx.notes.append(f"complex {cx['tag']} expected clean: {findings[0][1]}")


ET_TYPES = ["C.3", "C.3", "O.3", "H", "H", "H", "H", "H", "H"]
ET_BONDS = [(0, 1, "1"), (1, 2, "1"), (0, 3, "1"), (0, 4, "1"), (0, 5, "1"), (1, 6, "1"), (1, 7, "1"), (2, 8, "1")]
AC_TYPES = ["O.co2", "C.2", "O.co2", "C.3", "H", "H", "H"]
AC_BONDS = [(0, 1, "2"), (1, 2, "2"), (1, 3, "1"), (3, 4, "1"), (3, 5, "1"), (3, 6, "1")]
CX_SAFE = ["CX1", "CX2", "OX1", "HX1", "HX2", "HX3", "HX4", "HX5", "HX6"]
CX_CLASH = ["C1", "C2", "O1", "H1", "H2", "H3", "H4", "H5", "H6"]


def make_complex(spec):
    """Complex from a declarative spec (also the format of corpus/C16/*.json "complex" entries):
    names/types/bonds = the MOL2 ligand; mol2_resname = residue name in the MOL2 file; pdb_resname = name of the
    ligand residue in the PDB (chain L, 400); pdb_names = its atoms in the PDB (default: all MOL2 atoms);
    waters = [count, [atom names]]; hetero = [[resn, [atom names]], ...] further hetero groups (chain X, 500+);
    ions = [[resn, atom name], ...]; lig_written = False when nothing identifies the ligand."""
    prot = protein_lines(4)
    names = spec["names"]
    pdbn = spec.get("pdb_names") or names
    resn = spec.get("pdb_resname", "LIG")

    def block(nms, rn, chain, resseq, origin, serial):
        return [het_line(serial + i, nm, rn, chain, resseq, origin[0] + 1.4 * i, origin[1] + 0.9 * (i % 2), origin[2] + 0.5 * (i % 3))
                for i, nm in enumerate(nms)]

    coords = [(40.0 + 1.4 * i, 40.0 + 0.9 * (i % 2), 40.0 + 0.5 * (i % 3)) for i in range(len(names))]
    m2 = mol2_text(spec["types"], [tuple(b_) for b_ in spec["bonds"]], names, coords, resname=spec.get("mol2_resname", "LIG"), resseq=400)
    extra = []
    wk, wn = spec.get("waters") or [0, ["O"]]
    for i in range(wk):
        for j, nm in enumerate(wn):
            extra.append(het_line(7000 + 3 * i + j, nm, "HOH", "W", 600 + i, 60.0 + 5.0 * i + 0.8 * j, 10.0 + 0.6 * j, 10.0))
    for k, (rn, nms) in enumerate(spec.get("hetero") or []):
        extra += block(nms, rn, "X", 500 + k, (80.0, 40.0 + 12.0 * k, 40.0), 6000 + 100 * k)
    for k, (rn, nm) in enumerate(spec.get("ions") or []):
        extra.append(het_line(7100 + k, nm, rn, "Z", 700 + k, 70.0, 30.0 + 6.0 * k, 30.0))
    pdb = "".join(prot) + "TER\n" + "".join(block(pdbn, resn, "L", 400, (40.0, 40.0, 40.0), 5000)) + "".join(extra) + "END\n"
    return {"tag": spec["tag"], "pdb": pdb, "mol2": m2, "expect_clean": spec.get("expect_clean", False), "lig_pdb_names": list(pdbn),
            "ligres": [resn, "L", "400"], "lig_written": spec.get("lig_written", True)}


def build_complexes(rng, thorough):
    """Generated complexes (the minimised regression complexes, incl. the former F4 witnesses, are in corpus/C16)."""
    out = []

    def cx(tag, names, types, bonds, expect_clean=True, **kw):
        out.append(make_complex(dict(tag=tag, names=names, types=types, bonds=bonds, expect_clean=expect_clean, **kw)))

    prot_like = ["CA", "CB", "OG", "HA", "HB2", "HB3", "H", "HN", "HG"]
    # control: no name shared with any other hetero group; waters + an unparameterised ion
    cx("clean-waters", CX_SAFE, ET_TYPES, ET_BONDS, waters=[2, ["O"]], ions=[["ZN", "ZN"]])
    # control: ligand names equal protein atom names (ATOM records are never looked at)
    cx("clean-proteinnames", prot_like, ET_TYPES, ET_BONDS, waters=[1, ["O"]])
    # control: charged ligand, waters with explicit hydrogens named differently from the ligand's
    cx("clean-acetate", ["OA1", "CA1", "OA2", "CA2", "HA1", "HA2", "HA3"], AC_TYPES, AC_BONDS, waters=[2, ["O", "H1", "H2"]])
    # placeholder residue name in the MOL2 file (as in the stored 1HPX-ligand.mol2 / examples/ligands): the ligand is
    # KNI in the PDB; waters share H1/H2 with it, a smaller hetero group shares C1 C2, an ion is named like an atom
    cx("placeholder-clash", CX_CLASH, ET_TYPES, ET_BONDS, mol2_resname="UNK", pdb_resname="KNI", waters=[2, ["O", "H1", "H2"]],
       hetero=[["GOL", ["C1", "C2"]]], ions=[["O1", "O1"]])
    # placeholder name and a heavy atom of the ligand missing in the structure: nothing identifies the ligand;
    # nobody else may take its parameters (the ligand itself is not asked for)
    cx("placeholder-incomplete", CX_CLASH, ET_TYPES, ET_BONDS, mol2_resname="<1>", pdb_resname="KNI", pdb_names=CX_CLASH[1:],
       waters=[1, ["O", "H1", "H2"]], hetero=[["XYZ", CX_CLASH[1:5]]], lig_written=False)
    # randomised: generated ligand, naming scheme, MOL2 residue name, waters, optional hetero group sharing names
    for k in range(16 if thorough else 5):
        g = gen_organic(rng, maxn=10)
        scheme = rng.choice(["safe", "default", "default"])
        names = [f"{t.split('.')[0].upper()[:1]}Q{i}" for i, t in enumerate(g.types)] if scheme == "safe" else default_names(g.types)
        m2res, pdbres = rng.choice([("LIG", "LIG"), ("LIG", "LIG"), ("UNK", "LIG"), ("<1>", "DMP"), ("DMP", "DMP")])
        hetero = []
        if rng.random() < 0.6:
            sub = rng.sample(names, rng.randint(1, len(names)))
            heavy = [n for n, t in zip(names, g.types) if t != "H"]
            if m2res != pdbres and set(heavy) <= set(sub):
                sub.remove(heavy[0])  # an atom-for-atom copy cannot be told from the ligand without a name
            if sub:
                hetero.append(["XYZ", sub])
        cx(f"random-{scheme}-{'named' if m2res == pdbres else 'placeholder'}-{k}", names, g.types, g.bonds, expect_clean=True, mol2_resname=m2res, pdb_resname=pdbres,
           waters=[rng.randint(0, 2), rng.choice([["O"], ["O", "H1", "H2"]])], hetero=hetero)
    if thorough:
        cx("clash-1qbs-names", default_names(ET_TYPES), ET_TYPES, ET_BONDS, waters=[3, ["O"]])
        cx("clean-nowater", CX_SAFE, ET_TYPES, ET_BONDS)
        cx("clash-partialcopy", CX_CLASH, ET_TYPES, ET_BONDS, hetero=[["XYZ", CX_CLASH[:3]]])
        cx("placeholder-heavyonly-copy", CX_CLASH, ET_TYPES, ET_BONDS, mol2_resname="UNK", pdb_resname="KNI",
           hetero=[["XYZ", CX_CLASH[:2] + ["Q9"]]], waters=[1, ["O", "H1", "H2"]])
    return out


# --------------------------------------------------------------------------


def run(ctx):
    _quiet()
    rng = ctx.rng
    ctx.cov["rule"] = (
        "MOL2 texts generated from (a) organic builder: tree of functional groups (carboxylate, ammonium, guanidinium, "
        "(di)phosphate, sulfonyl, amide, nitrile, aryl/N.ar rings, aliphatic rings, halogens...) with explicit H, "
        "(b) wild: any of the 23 supported Sybyl types on any multigraph, (c) malformed: unsupported atom/bond types, "
        "(d) the stored MOL2 files; read by the real Mol2Molecule.read. A molecule case is non-trivial when it has >= 2 "
        "atoms and >= 1 bond and assign_parameters succeeds; distinct by (types, bonds). Complex cases: 1QBS residues 1-4 "
        "+ ligand HETATMs (MOL2 residue name equal to the PDB's, or a placeholder) + waters / other hetero groups / ions "
        "through main_driver; distinct by PDB text. Loop cases: residue lists (ligand, waters, hetero groups sharing atom "
        "names, protein residues, force-field hits on any of them) through the source text of the ligand loop, judged by "
        "the generator's own labelling of the ligand residue; non-trivial when unambiguous, >= 2 residues, one the ligand."
    )
    ok = core.proof_stage(ctx, "C16", THEOREMS, ALLOWED_AXIOMS)
    broken = not ok

    # ---------------- cases -------------------------------------------------
    n_org, n_wild, n_mal, n_q = (5000, 2500, 500, 240) if ctx.thorough else (560, 260, 60, 45)
    cases = []
    for f in stored_mol2_files():
        try:
            m = impl_read(f.read_text())
            types, bonds = struct_of(m)
            cases.append({"kind": "stored:" + f.name, "types": types, "bonds": bonds, "names": list(m.atoms.keys()), "text": f.read_text()})
        except Exception as e:  # noqa
            ctx.broke("correspondence-broken", f"stored MOL2 {f.name} unreadable by Mol2Molecule.read", f"{type(e).__name__}: {e}")
    corpus_dir = core.CORPUS / "C16"
    corpus_complexes, corpus_tcases = [], []
    if corpus_dir.is_dir():
        import json

        for f in sorted(corpus_dir.glob("*.json")):
            c = json.loads(f.read_text())
            if "types" in c:
                c["bonds"] = [tuple(b) for b in c["bonds"]]
                c.setdefault("names", default_names(c["types"]))
                c["kind"] = "corpus:" + f.stem
                cases.insert(0, c)
            elif "complex" in c:
                corpus_complexes.append(make_complex(c["complex"]))
            elif "transfer" in c:
                corpus_tcases.append(c["transfer"])
    for k in range(n_org + n_wild + n_mal):
        g = gen_organic(rng) if k < n_org else gen_wild(rng) if k < n_org + n_wild else gen_malformed(rng)
        types = [case_variant(rng, t) for t in g.types]
        names = default_names(g.types) if rng.random() < 0.5 else random_names(rng, g.n())
        cases.append({"kind": g.kind, "types": types, "bonds": g.bonds, "names": names, "groups": g.groups})
    for c in cases:
        if "text" not in c:
            c["text"] = mol2_text(c["types"], c["bonds"], c["names"])
        c["obs"] = impl_all(c["text"])
    qcases = []
    for k in range(n_q):
        g = gen_small(rng)
        nc = 1 + (k % 3)
        c = {"kind": "small", "types": g.types, "bonds": g.bonds, "names": default_names(g.types), "ncyc": nc, "groups": g.groups}
        c["text"] = mol2_text(c["types"], c["bonds"], c["names"])
        c["obs"] = impl_all(c["text"], ncyc=nc)
        qcases.append(c)
    tcases = corpus_tcases + [gen_transfer_case(rng) for _ in range(6000 if ctx.thorough else 800)]

    # ---------------- model evaluation -------------------------------------
    def raw_types(c):
        # the reader normalises the type word; the model gets the raw word
        if c["kind"].startswith("stored"):
            return c["types"]
        return c["types"]

    terms_F = [f"run_F {coq_mol(raw_types(c), c['bonds'])} 6" for c in cases]
    terms_fm = [f"run_formal {coq_mol(raw_types(c), c['bonds'])}" for c in cases]
    terms_Q = [f"run_Q {coq_mol(c['types'], c['bonds'])} {c['ncyc']}" for c in qcases]
    try:
        code = extract_ligand_loop()
    except Exception as e:  # noqa
        code = None
        broken = True
        ctx.broke("correspondence-broken", "main.non_trivial ligand loop vs Model.Peoe.transfer_loop", f"{type(e).__name__}: {e}")
    try:
        res_tab = core.run_cases("C16tab", HEADER, ["show_tables"], chunk=1)[0]
        res_F = core.run_cases("C16F", HEADER, terms_F, chunk=max(8, len(terms_F) // 11 + 1))
        res_fm = core.run_cases("C16fm", HEADER, terms_fm, chunk=max(8, len(terms_fm) // 11 + 1))
        res_Q = core.run_cases("C16Q", HEADER, terms_Q, chunk=1 if not ctx.thorough else 2, timeout=900)
        res_T = core.run_cases("C16T", HEADER, [transfer_term(c) for c in tcases], chunk=max(50, len(tcases) // 11 + 1))
    except core.CoqEvalError as e:
        ctx.broke("correspondence-broken", "model evaluation failed (Model/Peoe.v)", str(e))
        res_tab = res_F = res_fm = res_Q = res_T = None
        broken = True

    def disagree(what, detail, case):
        nonlocal broken
        broken = True
        ctx.cov["correspondence_disagreements"] += 1
        if len([b for b in ctx.broken if b["kind"] == "correspondence-broken"]) < 4:
            ctx.broke("correspondence-broken", what, detail, case)

    if res_F is not None:
        if not table_correspondence(ctx, res_tab):
            broken = True
        exact = 0
        for c, sF, sfm in zip(cases, res_F, res_fm):
            o = c["obs"]
            ctx.cov["correspondence_cases"] += 1
            ctx.count("corr:" + c["kind"].split(":")[0])
            small = {"types": c["types"], "bonds": c["bonds"], "names": c["names"]}
            mF = parse_params(sF, parse_F)
            mfm = parse_formal(sfm)
            if o["read_exc"]:
                if mF is not None or mfm is not None:
                    disagree("Model.Peoe.mk_mol vs Mol2Molecule.read (type / bond-type words)", f"reader raised {o['read_exc']}, model accepted", small)
                continue
            if mfm is None:
                disagree("Model.Peoe.mk_mol vs Mol2Molecule.read (type / bond-type words)", "model rejected what the reader accepted", small)
                continue
            mfc, mrad, mbo = mfm
            if [fc2(v) for v in o["fc"]] != mfc:
                disagree("Model.Peoe.formal_charge2 vs Mol2Atom.formal_charge", f"impl(2x)={[fc2(v) for v in o['fc']]} model={mfc}", small)
            if o["bo"] != mbo:
                disagree("Model.Peoe.bond_order vs Mol2Atom.bond_order", f"impl={o['bo']} model={mbo}", small)
            if [r100(v) for v in o["rad"]] != mrad:
                disagree("Model.Peoe.radius_of vs Mol2Atom.assign_radius(zap9, bondi)", f"impl={o['rad']} model(1/100)={mrad}", small)
            if o["exc"]:
                if mF is not None:
                    disagree("Model.Peoe.assign_parameters vs Mol2Molecule.assign_parameters", f"impl raised {o['exc']}, model returned values", small)
                continue
            if mF is None:
                disagree("Model.Peoe.assign_parameters vs Mol2Molecule.assign_parameters", "model raised, impl returned values", small)
                continue
            dq = max([abs(a - b[1]) for a, b in zip(o["q"], mF)] + [0.0]) if len(mF) == len(o["q"]) else float("inf")
            if [r100(v) for v in o["r"]] != [b[0] for b in mF] or not (dq <= 1e-12):
                disagree("Model.Peoe.equilibrate (binary64 instance FA) vs peoe.equilibrate", f"max |dq| = {dq!r}; impl q[:4]={o['q'][:4]} model q[:4]={[b[1] for b in mF[:4]]}", small)
            elif dq == 0.0:
                exact += 1
        ctx.cov["float_instance_bit_exact_cases"] = exact
        for c, sQ in zip(qcases, res_Q):
            o = c["obs"]
            ctx.cov["correspondence_cases"] += 1
            ctx.count(f"corr:Q-exact-ncyc{c['ncyc']}")
            small = {"types": c["types"], "bonds": c["bonds"], "ncyc": c["ncyc"]}
            mQ = parse_params(sQ, Fraction)
            if o.get("read_exc") or o.get("exc"):
                if mQ is not None:
                    disagree("Model.Peoe.assign_parameters_n (Q instance) vs peoe.equilibrate", f"impl raised {o.get('exc') or o.get('read_exc')}", small)
                continue
            if mQ is None or len(mQ) != len(o["q"]):
                disagree("Model.Peoe.assign_parameters_n (Q instance) vs peoe.equilibrate", "model raised / length differs", small)
                continue
            dq = max([abs(a - float(b[1])) for a, b in zip(o["q"], mQ)] + [0.0])
            # the exact instance itself conserves exactly (the theorem, observed)
            exact_sum = sum(b[1] for b in mQ) - sum(Fraction(v).limit_denominator(2) for v in o["fc"])
            if not (dq <= 1e-9) or exact_sum != 0:
                disagree("Model.Peoe.equilibrate (exact instance QA) vs peoe.equilibrate", f"max |dq| = {dq!r}, exact sum deviation {exact_sum}", small)
        if code is not None:
            for c, sT in zip(tcases, res_T):
                ctx.cov["correspondence_cases"] += 1
                ctx.count("corr:transfer-loop")
                try:
                    it = transfer_impl(code, c)
                except Exception as e:  # noqa
                    it = f"EXC {type(e).__name__}: {e}"
                c["impl_out"] = it
                if it != sT:
                    disagree("Model.Peoe.transfer_loop/written vs the ligand loop of main.non_trivial (source text executed)", f"impl={it} model={sT}", {"transfer": {k_: v_ for k_, v_ in c.items() if k_ != "impl_out"}})

    # ---------------- search on the implementation --------------------------
    pool = [c for c in cases if not c["obs"].get("read_exc") and not c["obs"].get("exc")]
    extra = []
    if broken:
        for k in range(1500):
            g = gen_organic(rng) if k % 3 else gen_wild(rng)
            c = {"kind": g.kind, "types": g.types, "bonds": g.bonds, "names": default_names(g.types)}
            c["obs"] = impl_all(mol2_text(c["types"], c["bonds"], c["names"]))
            if not c["obs"].get("read_exc") and not c["obs"].get("exc"):
                extra.append(c)
    for k, c in enumerate(pool + extra):
        if c["kind"].startswith("stored") and len(c["types"]) > 45 and not ctx.thorough:
            # big stored ligands: conservation and radii only (ring perception makes re-reading slow)
            o = c["obs"]
            if abs(sum(o["q"]) - sum(o["fc"])) > 1e-9:
                ctx.fail({"site": "peoe.equilibrate", "condition": "sum-of-charges-differs-from-sum-of-formal-charges"}, c["kind"], {"file": c["kind"]})
            ctx.evaluated(("stored", c["kind"]), True)
            continue
        types_norm = c["obs"]["types"]
        oracle_molecule(ctx, k, types_norm, c["bonds"], c["names"], rng, c["obs"])
    for c in cases:
        if c["obs"].get("read_exc") or c["obs"].get("exc"):
            ctx.evaluated(("rejected", tuple(c["types"]), tuple(c["bonds"])), False)
            ctx.count("search:rejected-by-code")

    # the ligand loop's own text on generated residue lists, read with the generator's ground truth
    if code is not None:
        extra_t = [gen_transfer_case(rng) for _ in range(4000)] if broken else []
        for c in tcases + extra_t:
            it = c.pop("impl_out", None)
            if it is None:
                try:
                    it = transfer_impl(code, c)
                except Exception as e:  # noqa
                    it = f"EXC {type(e).__name__}: {e}"
            oracle_transfer(ctx, c, it)

    d = ctx.scratch_dir()
    complexes = corpus_complexes + build_complexes(rng, ctx.thorough)
    for cx in complexes:
        oracle_complex(ctx, d, cx)

    # ---------------- samples / trusted base --------------------------------
    for c in cases:
        if c["kind"] == "organic" and not c["obs"].get("exc") and not c["obs"].get("read_exc"):
            ctx.sample({"molecule": {"groups": c.get("groups"), "types": c["types"], "bonds": c["bonds"][:12]},
                        "sum_formal": sum(c["obs"]["fc"]), "sum_q": sum(c["obs"]["q"]), "q_head": c["obs"]["q"][:4]})
            break
    for cx in complexes[:2] + complexes[-7:-5]:
        ctx.sample({"complex": cx["tag"], "observed": cx.get("observed")})
    ctx.sample({"obligation": "C16_peoe_conserves: forall ops (QLaws), chi, n, ty, bonds, ch, damp, scale<>0, ncyc<>0: Qsum (equilibrate ...) == Qsum (map ch (seq 0 n))"})
    ctx.trusted += [
        "modelled, not verified: peoe.equilibrate/electronegativity, Mol2Atom.formal_charge/bond_order/assign_radius, Mol2Molecule.assign_parameters, "
        "the ligand loop of main.non_trivial (hand model Model/Peoe.v; tie = differential execution listed under correspondence)",
        "binary64 rounding is not proved: theorems are over Q; the float instance of the same Gallina text matches CPython bit for bit on the cases run",
        "tables of pdb2pqr.ligand (RADII zap9/bondi, VALENCE_BY_ELEMENT, NONBONDED_BY_TYPE, POLY_TERMS, PEOE constants) are re-read from /repo on every run and compared with the model's",
        "the ligand loop is located in inspect.getsource(main.non_trivial) by its first and last statement and executed on stand-in objects",
        "complex oracle: baseline run without --ligand provides the force-field parameters of non-ligand atoms",
    ]
    ctx.assumptions += [
        "atom names in a MOL2 file are unique (the reader raises otherwise), so a name denotes a position",
        "bond endpoints are valid 1-based positions; supported bond types are 1, 2, 3, ar",
        "math.isclose(x, 0.0) is x == 0.0; division by zero does not occur (normalisers positive for all supported types: C16_supported_complete)",
    ]


def replay(ctx, data):
    _quiet()
    import random

    case = data["case"]
    if "pdb" in case:
        d = ctx.scratch_dir()
        names = []
        ligres = case.get("ligres") or ["LIG", "L", "400"]
        for l in case["pdb"].splitlines():
            if l.startswith("HETATM") and l[17:20].strip() == ligres[0] and l[21] == ligres[1] and l[22:26].strip() == ligres[2]:
                names.append(l[12:16].strip())
        before = len(ctx.failures) + sum(ctx.known_hits.values())
        cx = {"tag": case.get("tag", "replay"), "pdb": case["pdb"], "mol2": case["mol2"], "lig_pdb_names": names,
              "ligres": ligres, "lig_written": case.get("lig_written", True)}
        oracle_complex(ctx, d, cx)
        after = len(ctx.failures) + sum(ctx.known_hits.values())
        print("replay:", "FAILS" if after > before else "passes", "|", cx.get("observed"))
        ctx.cleanup()
        return 1 if after > before else 0
    if "transfer" in case:
        before = len(ctx.failures) + sum(ctx.known_hits.values())
        try:
            out = transfer_impl(extract_ligand_loop(), case["transfer"])
        except Exception as e:  # noqa
            out = f"EXC {type(e).__name__}: {e}"
        oracle_transfer(ctx, case["transfer"], out)
        after = len(ctx.failures) + sum(ctx.known_hits.values())
        print("replay:", "FAILS" if after > before else "passes", "| loop output (id=parameters ... | missing ids):", out)
        return 1 if after > before else 0
    if "types" in case:
        names = case.get("names") or default_names(case["types"])
        text = mol2_text(case["types"], [tuple(b) for b in case["bonds"]], names)
        obs = impl_all(text, ncyc=case.get("ncyc"))
        if obs.get("read_exc") or obs.get("exc"):
            print("replay: code raises", obs.get("read_exc") or obs.get("exc"))
            return 0
        before = len(ctx.failures)
        oracle_molecule(ctx, 0, obs["types"], [tuple(b) for b in case["bonds"]], names, random.Random(0), obs)
        print("replay:", "FAILS" if len(ctx.failures) > before else "passes", "| sum q", sum(obs["q"]), "sum formal", sum(obs["fc"]))
        return 1 if len(ctx.failures) > before else 0
    print("replay: nothing to re-execute for this record (proof / correspondence break): re-run ./check C16")
    return 1
