"""E2E_CifClean - the mmCIF route of `pdb2pqr --clean`: C10's model of cif.atom_site composed
with Model/CleanRun.v, tied to the real CLI: the same _atom_site rows are written as a real
.cif file and as a real .pdb file, both go through argparse + main.main_driver --clean, and
the two written files are compared byte for byte with each other (atom lines; the CIF output
has no TER/END lines and ends with "#") and with the model.

Used from harness/props/c10.py:  from harness.props import e2e_cifclean; e2e_cifclean.run_extra(ctx)
Standalone:
  cd /verif && PYTHONPATH=/repo:/verif /venv/bin/python -c "from harness import core; \
    from harness.props import e2e_cifclean as m; ctx=core.Ctx('C10','quick',0); m.run_extra(ctx); \
    print(ctx.broken, ctx.failures, ctx.cov['correspondence_cases'])"
"""

import json

from harness import core
from harness.props import c07, c10, e2e_clean
from harness.props.c08 import coq_bool

THEOREMS_EXTRA = [
    "E2E_cif_clean_eq_pdb_clean_partial",
    "E2E_cif_clean_faithful_partial",
    "E2E_cif_file_shape",
    "E2E_cif_nonvacuous",
]
ALLOWED_AXIOMS = []
PROP_FILE = "E2E_CifClean"
CORPUS = core.VERIF / "corpus" / "E2E"

HEADER0 = (
    "From Coq Require Import String List ZArith NArith.\n"
    "From PV Require Import Lib.Strings Lib.Decimal Model.PdbRead Model.Group Model.PdbSpec Model.CleanRun Model.CleanRunCif.\n"
    "From PV Require Model.PqrFormat Model.CifLine.\n"
    "Import ListNotations.\nOpen Scope string_scope.\n"
    "Definition mkrow := CifLine.mkrow. Definition Tok := CifLine.Tok. Definition Dot := CifLine.Dot.\n"
    "Definition Qm := CifLine.Qm. Definition Absent := CifLine.Absent.\n"
)

RES_POOL = [
    ("ALA", ["N", "CA", "C", "O", "CB"], "ATOM"),
    ("GLY", ["N", "CA", "C", "O"], "ATOM"),
    ("ASN", ["N", "CA", "CB", "ND2", "HD21", "HD22"], "ATOM"),
    ("LYS", ["N", "CA", "C", "O", "NZ", "HZ1"], "ATOM"),
    ("SER", ["N", "H", "CA", "OG", "OXT"], "ATOM"),
    ("HOH", ["O"], "HETATM"),
    ("HOH", ["O", "H1", "H2"], "HETATM"),
    ("NAG", ["C1", "O5", "N2"], "HETATM"),
    ("ZN", ["ZN"], "HETATM"),
    ("DA", ["P", "OP1", "O5'", "C5'", "H5''"], "ATOM"),
    ("U", ["P", "OP1", "O2'", "HO5'"], "ATOM"),
    ("MSE", ["N", "CA", "SE"], "HETATM"),
]


def gen_rows(rng, k):
    """A small structure as _atom_site rows (label_* = auth_*): residues of several atoms in
    1-3 chains, waters and HETATM groups, alt-locs, insertion codes, 4-character names,
    negative / 4-digit residue numbers, 1-3 models."""
    feats = set()
    nres = rng.choice([1, 2, 3, 3, 4, 5])
    chains = rng.choice([["A"], ["A"], ["A", "B"], ["B", "A"], ["a", "1", "Z"], ["X"]])
    seq0 = rng.choice([1, 1, 10, -3, 0, 998, 9996, -12, -99])
    if seq0 < 0:
        feats.add("negative-resseq")
    if seq0 > 900:
        feats.add("4-digit-resseq")
    serial = rng.choice([1, 1, 9995, 99990, 5])
    rows = []
    icode_run = rng.random() < 0.2
    for i in range(nres):
        ch = chains[min(len(chains) - 1, i * len(chains) // nres)]
        comp, names, grp = rng.choice(RES_POOL)
        names = names[: rng.choice([1, 2, 3, len(names), len(names)])]
        seq = seq0 if icode_run else seq0 + i
        if seq > 9999:
            seq = 9999
        ins = ["?", "A", "B", "C", "D", "E"][i] if icode_run else rng.choice(["?", "?", "?", ".", "A"])
        if ins not in ("?", "."):
            feats.add("icode")
        altmode = rng.random()
        if comp == "HOH":
            feats.add("water")
        if grp == "HETATM" and comp != "HOH":
            feats.add("hetatm-group")
        for nm in names:
            alts = ["."]
            if altmode < 0.25:
                alts = rng.choice([["A", "B"], ["A", "B", "C"], ["A"], ["B", "A"]])
                feats.add("altloc")
            if len(nm) == 4:
                feats.add("name4")
            for al in alts:
                x, y, z = (c10.gen_coord(rng, rng.random() < 0.1) for _ in range(3))
                if serial > 99999:
                    serial = 99999
                rows.append(c10.mkrow(grp, str(serial), c10.element_of(nm), nm, al, comp, ch, ins, x, y, z,
                                      rng.choice(["1.00", "0.50"]), rng.choice(["20.55", "5.10"]), rng.choice(["?", "?", ".", "0"]),
                                      str(seq), comp, ch, nm, "1"))
                serial += 1
    nmod = rng.choice([1, 1, 1, 2, 2, 3])
    if nmod > 1:
        feats.add(f"models={nmod}")
        base = list(rows)
        start = rng.choice([1, 1, 2, 0])
        for r in rows:
            r["pdbx_PDB_model_num"] = str(start)
        for m in range(1, nmod):
            part = base[: rng.choice([len(base), max(1, len(base) // 2)])]
            for r in part:
                r2 = dict(r)
                r2["pdbx_PDB_model_num"] = str(start + m)
                r2["Cartn_x"] = c10.gen_coord(rng, False)
                rows.append(r2)
        if rng.random() < 0.2:
            rng.shuffle(rows)  # interleaved models: atom_site regroups them
            feats.add("models-interleaved")
    return {"rows": rows, "feats": sorted(feats), "stream": "structured", "dropw": rng.random() < 0.25,
            "keep": rng.random() < 0.6, "ws": rng.random() < 0.25}


def cif_text(rows):
    """A complete mmCIF file (the categories read_cif's other sections need, written by
    harness/builder.to_cif for a dummy residue) whose _atom_site loop holds `rows`."""
    if "cif_head" not in c07._STATE:
        from harness import builder as B

        t = B.to_cif(B.build_peptide(["GLY"], chain="A"))
        c07._STATE["cif_head"] = t[: t.index("\nATOM ") + 1]
    return c07._STATE["cif_head"] + "".join(" ".join(c10.cif_quote(r[k]) for k in c10.ITEMS) + "\n" for r in rows) + "#\n"


def pdb_text(rows):
    """The PDB-archive style file of the same rows: one model -> the records; several ->
    MODEL n / records of that model / ENDMDL in order of first appearance (what
    Model/CleanRunCif.v pdb_lines_models writes)."""
    models = []
    for r in rows:
        if r["pdbx_PDB_model_num"] not in models:
            models.append(r["pdbx_PDB_model_num"])
    if len(models) == 1:
        return "".join(c10.pdb_line(r) + "\n" for r in rows)
    out = []
    for m in models:
        out.append(f"MODEL     {m:>4}\n")
        out += [c10.pdb_line(r) + "\n" for r in rows if r["pdbx_PDB_model_num"] == m]
        out.append("ENDMDL\n")
    return "".join(out)


def run_real(ctx, text, suffix, dropw, keep, ws, tag):
    pdb, pio, pmain, *_ = c07.repo()
    d = ctx.scratch_dir()
    inp, outp = d / f"{tag}{suffix}", d / f"{tag}{suffix}.pqr"
    with open(inp, "w", newline="", encoding="utf-8") as fh:
        fh.write(text)
    if outp.exists():
        outp.unlink()
    args = ["--clean"] + (["--drop-water"] if dropw else []) + (["--keep-chain"] if keep else []) + (["--whitespace"] if ws else [])
    try:
        pmain.run_pdb2pqr(args + [str(inp), str(outp)])
    except Exception as e:  # noqa: BLE001
        return ("EXC", type(e).__name__, str(e)[:160])
    except SystemExit as e:
        return ("EXC", "SystemExit", str(e))
    with open(outp, "rb") as fh:
        return ("OK", fh.read().decode("latin-1"))


def atom_lines(data):
    return [l for l in data.split("\n") if l[:4] == "ATOM" or l[:6] == "HETATM"]


def coq_rows(rows):
    return core.coq_list([c10.coq_row(r) for r in rows])


def rows_tbl(rows):
    text = "".join(c10.pdb_line(r) + "\n" for r in rows)
    return e2e_clean.coord_table(text)


def model_terms(case):
    tbl, unsupported = rows_tbl(case["rows"])
    rs = coq_rows(case["rows"])
    flags = f"{coq_bool(case['dropw'])} {coq_bool(case['keep'])} {coq_bool(case['ws'])}"
    return [
        f"show_cif (clean_file_cif py_float_ok TAB PT near_dec (r3_exec {e2e_clean.coq_tbl(tbl)}) CifLine.mv_installed {flags} {rs})",
        f"show_clean (clean_file py_float_ok TAB PT near_dec (r3_exec {e2e_clean.coq_tbl(tbl)}) {flags} (pdb_lines_models {rs}))",
        f"show_bools [forallb (row_agree py_float_ok CifLine.mv_installed) {rs}; forallb (row_syntactic py_float_ok) {rs}]",
    ], unsupported


def load_corpus():
    out = []
    if CORPUS.is_dir():
        for p in sorted(CORPUS.glob("cif_*.json")):
            c = json.loads(p.read_text())
            c.setdefault("feats", ["corpus:" + p.stem])
            c.setdefault("stream", "corpus")
            for k in ("dropw", "keep", "ws"):
                c.setdefault(k, False)
            out.append(c)
    return out


def check_pair(ctx, case, rc, rp):
    """Model-independent: the two real runs on the two encodings of the same rows."""
    rows = case["rows"]
    key = json.dumps([case["feats"], len(rows), case["dropw"], case["keep"], case["ws"]])
    base = {"site": "cif.read_cif route of main_driver --clean", "flags": f"dropw={int(case['dropw'])} keep={int(case['keep'])} ws={int(case['ws'])}"}
    cs = dict(case, mode="cifclean-search")
    if not all(c10.expressible(r) for r in rows):
        ctx.count("cifclean:not-expressible-as-PDB(not judged)")
        return
    ctx.evaluated(key, len(rows) >= 2)
    if rc[0] != rp[0]:
        ctx.fail(dict(base, field="run", condition="one-encoding-raises"), f"cif: {str(rc)[:200]} / pdb: {str(rp)[:200]}", cs)
        return
    if rc[0] != "OK":
        ctx.count("cifclean:both-raise:" + rc[1])
        return
    lc, lp = atom_lines(rc[1]), atom_lines(rp[1])
    if lc != lp:
        d = next((i for i in range(min(len(lc), len(lp))) if lc[i] != lp[i]), min(len(lc), len(lp)))
        ctx.fail(dict(base, field="atom lines", condition="cif-output-differs-from-pdb-output"),
                 f"{len(lc)} vs {len(lp)} atom lines; first difference at {d}: cif {lc[d:d + 1]} pdb {lp[d:d + 1]}", cs)
        return
    # shape of the CIF-route file: atom lines then '#', no TER / END
    rest = [l for l in rc[1].split("\n") if l and not (l[:4] == "ATOM" or l[:6] == "HETATM")]
    if rest != ["#"] or not rc[1].endswith("#\n"):
        ctx.fail(dict(base, field="file", condition="cif-output-shape"), f"CIF-route file has other lines than atom lines and the '#' trailer: {rest[:4]}", cs)


def run_extra(ctx):
    c07._quiet()
    ok = core.proof_stage(ctx, PROP_FILE, THEOREMS_EXTRA, ALLOWED_AXIOMS)
    try:
        tab = c07.deftab()
        pt = e2e_clean.patch_tables()
    except Exception as e:  # noqa: BLE001
        ctx.broke("generator-broken", "definition / patch tables from /repo (E2E_CifClean)", str(e))
        return False
    header = HEADER0 + c07.coq_deftab(tab) + e2e_clean.coq_ptab(pt)
    n = 1200 if ctx.thorough else 120
    cases = load_corpus() + [gen_rows(ctx.rng, k) for k in range(n)]
    terms, todo = [], []
    for i, c in enumerate(cases):
        t, unsupported = model_terms(c)
        for f in c["feats"]:
            ctx.count("cifclean:" + f)
        if unsupported:
            continue
        terms += t
        todo.append(i)
    try:
        res = core.run_cases("E2EC", header, terms, chunk=24)
    except core.CoqEvalError as e:
        ctx.broke("correspondence-broken", "clean_file_cif (Model/CleanRunCif.v) did not evaluate", str(e)[-1500:])
        res, ok = None, False
    nbad = 0
    reals = {}
    for i, c in enumerate(cases):
        rc = run_real(ctx, cif_text(c["rows"]), ".cif", c["dropw"], c["keep"], c["ws"], "c")
        rp = run_real(ctx, pdb_text(c["rows"]), ".pdb", c["dropw"], c["keep"], c["ws"], "p")
        reals[i] = (rc, rp)
    if res is not None:
        for j, i in enumerate(todo):
            c = cases[i]
            mc, mp, flags = res[3 * j], res[3 * j + 1], res[3 * j + 2]
            rc, rp = reals[i]
            ctx.count("cifclean:guard:row_agree=" + flags[0] + ",row_syntactic=" + flags[1])
            if flags == "01":
                # the unproved implication row_syntactic -> row_agree (Properties/E2E_CifClean.v header) has a counterexample
                ok = False
                ctx.broke("correspondence-broken", "conjecture row_syntactic -> row_agree (Model/CleanRunCif.v) has a counterexample",
                          json.dumps(c["rows"])[:1500], dict(c, mode="correspondence"))
            for label, r, m in (("cif", rc, mc), ("pdb", rp, mp)):
                if r[0] == "EXC" and r[1] == "RuntimeError" and "Unable to find file" in r[2]:
                    continue
                ctx.cov["correspondence_cases"] += 1
                got = "OK:" + r[1] if r[0] == "OK" else "EXC"
                if got != m:
                    ctx.cov["correspondence_disagreements"] += 1
                    nbad += 1
                    ok = False
                    if nbad <= 4:
                        what = ("clean_file_cif (Model/CleanRunCif.v = C10 atom_site ; C07 parse_cols/group ; set_termini ; C08 print + '#') vs main.run_pdb2pqr --clean on the .cif file"
                                if label == "cif" else "clean_file on pdb_lines_models rows (Model/CleanRunCif.v) vs main.run_pdb2pqr --clean on the .pdb file of the same rows")
                        ctx.broke("correspondence-broken", what + " (written file, byte for byte)",
                                  f"flags dropw={c['dropw']} keep={c['keep']} ws={c['ws']} feats={c['feats']}\nimpl : {str(r)[:600]}\nmodel: {m[:600]}",
                                  dict(c, mode="correspondence"))
            if "expect_cif_file" in c and rc[0] == "OK" and rc[1] != c["expect_cif_file"]:
                ctx.cov["correspondence_disagreements"] += 1
                ok = False
                ctx.broke("correspondence-broken", "Coq witness (Proofs/CleanRunCif.v: " + c.get("what", "") + ") vs main.run_pdb2pqr --clean on the .cif file",
                          f"theorem states {c['expect_cif_file']!r}\n/repo writes {rc[1][:600]!r}", dict(c, mode="correspondence"))
    for i, c in enumerate(cases):
        check_pair(ctx, c, *reals[i])
    if not ok:
        for k in range(400 if not ctx.thorough else 2000):
            c = gen_rows(ctx.rng, k)
            rc = run_real(ctx, cif_text(c["rows"]), ".cif", c["dropw"], c["keep"], c["ws"], "xc")
            rp = run_real(ctx, pdb_text(c["rows"]), ".pdb", c["dropw"], c["keep"], c["ws"], "xp")
            check_pair(ctx, c, rc, rp)
    ctx.trusted += [
        "E2E_CifClean: the installed mmcif_pdbx missing-value convention (mv_installed) for the real runs; the CIF text writer of harness/props/c10.py; "
        "oracles fok / r3 / near and the tables of E2E_Clean",
    ]
    ctx.assumptions += ["E2E_CifClean: generated rows keep label_* = auth_* (C10-F9) and carry no formal charge (C10-F8); one data block per file"]
    return ok


def replay_extra(ctx, data):
    case = data.get("case") or {}
    if not isinstance(case, dict) or "rows" not in case or case.get("mode") not in ("cifclean-search", "correspondence"):
        return None
    c07._quiet()
    rc = run_real(ctx, cif_text(case["rows"]), ".cif", case.get("dropw", False), case.get("keep", False), case.get("ws", False), "rc")
    rp = run_real(ctx, pdb_text(case["rows"]), ".pdb", case.get("dropw", False), case.get("keep", False), case.get("ws", False), "rp")
    print(f"replay: cif route -> {str(rc)[:400]!r}")
    print(f"replay: pdb route -> {str(rp)[:400]!r}")
    before = len(ctx.failures)
    check_pair(ctx, dict(case, feats=case.get("feats", [])), rc, rp)
    new = ctx.failures[before:]
    for f in new:
        print("replay: FAILS", f["signature"], f["what"][:300])
    if not new:
        print("replay: passes")
    return 1 if new else 0
