"""C06 - titration follows pKa versus pH and stays within force-field support."""

import ast
import json
import logging
import subprocess
import sys
from decimal import Decimal
from fractions import Fraction

from harness import core

META = {
    "id": "C06",
    "level": "proof",
    "technique": (
        "Coq proofs about a hand-written model of Biomolecule.apply_pka_values / main.py's pKa dict / aa.py naming, with "
        "force-field support computed in Coq from tables regenerated from /repo on every run; exhaustive differential "
        "execution of the decision table against the real function; end-to-end runs with a stubbed pKa source judged by a "
        "model-independent oracle"
    ),
    "level_text": (
        "Proved for ALL pH and pKa (rationals), the six built-in force fields, the three chain positions, all nine groups and every residue "
        "type carrying them: apply_pka_values leaves the group protonated iff pH < pKa when the wanted state is parameterisable there, else "
        "keeps its default state with a warning (C06_decide_spec); the produced state loses no atom the untitrated residue keeps "
        "(C06_never_dropped; C06_decided_state_parameterised for all FOUR positions: an atom written without parameters after titration is "
        "written without them untitrated too, or - one-residue chain - is one NEUTRAL-CTERM adds). OUTPUT charge, full: for ALL residue "
        "lists (one-residue chains included), ALL pKa assignments and pH1 <= pH2 the sum of the EXACT force-field charges (FF_<ff>.built, "
        "C01) over the final atom sets of the produced states (C02's state rows; unparameterised atoms omitted as apply_force_field omits "
        "them) never increases (C06_charge_monotone_output); a completely written state carries exactly its formal charge by C02's "
        "state_exact check (C06_output_is_formal; exception: C02's finding PARSE NEUTRAL-CPRO). For ALL integer residue numbers and chain "
        "ids without outer blanks the dict key main.py builds for a row is the key apply_pka_values looks up (C06_row_key_is_lookup_key, "
        "C06_row_reaches_site); with pairwise distinct keys every site is decided from its own entry (C06_key_collision_guard). Support and "
        "charges are computed from tables regenerated from the repo on every run. REFUTED on the code as it is, witness replayed every run: "
        "'termini are titrated from their pKa rows' (F11: main.py drops the N+/C- rows; C06_decide_spec holds for apply_pka_values given "
        "its dict, the pipeline never supplies the terminus entries). Not proved, observed end to end: PROPKA itself; that hydrogen "
        "optimisation keeps the chosen state; bridged cysteines and residues pre-named in a variant state (outside the model's residue "
        "types; covered by the decision-level comparison and the PROPKA sweeps)."
    ),
    "level_note": (
        "Trusted: Coq kernel+vm_compute; generators gen/ff_tables.py, gen/topology.py, gen/titration.py (set_state table taken from real "
        "aa.py objects; formal-charge table written by hand); hand model Model/Titration.v (tied every run by exhaustive comparison of all "
        "ff x position x residue type x site combinations with the real apply_pka_values); the builder peptides; the stub replacing "
        "run_propka (row layout checked against one real PROPKA run)."
    ),
    "design_ref": "DESIGN.md 4 C06",
}

THEOREMS = [
    "C06_decide_spec",
    "C06_decide_user_ff",
    "C06_never_dropped",
    "C06_naming_matches_code",
    "C06_charge_monotone_formal",
    "C06_formal_defined",
    "C06_output_defined",
    "C06_state_rows_match_names",
    "C06_charge_monotone_output",
    "C06_decided_state_parameterised",
    "C06_decided_state_fully_parameterised",
    "C06_output_is_formal",
    "C06_one_residue_chain_as_is",
    "C06_key_collision_guard",
    "C06_key_collision_refuted",
    "C06_row_key_is_lookup_key",
    "C06_row_reaches_site",
    "C06_requested_ph_decides",
    "C06_requested_ph_full_resolution",
    "C06_rows_filtered",
    "C06_pipeline_terminus_refuted",
    "C06_nonvacuous",
    "C06_former_f10_witness",
]
ALLOWED_AXIOMS: list[str] = []

HEADER = (
    "From Coq Require Import String List ZArith QArith.\n"
    "From PV Require Import Lib.Strings Lib.Decimal Model.Titration.\n"
    "Import ListNotations.\nOpen Scope string_scope.\n"
    'Definition showq (q : Q) : string := Z_to_string (Qnum q) ++ "/" ++ Z_to_string (Zpos (Qden q)).\n'
    'Definition show_dict (rows : list pkarow) : string := String.concat "|" (map (fun kv => fst kv ++ "=" ++ showq (snd kv)) (dict_of_rows rows)).\n'
    'Definition show_runs (ff : ffid) (ph : Q) (ds : list pkadic) (rs : list residue) : string := String.concat "@" (map (fun d => show_run ff ph d rs) ds).\n'
)

FFS6 = ["AMBER", "CHARMM", "PARSE", "TYL06", "PEOEPB", "SWANSON"]
FF_COQ = {"amber": "Amber", "charmm": "Charmm", "parse": "Parse", "tyl06": "Tyl06", "peoepb": "Peoepb", "swanson": "Swanson"}
USER_FF = "MYFF"  # what Forcefield.name is under --userff: matches no guard list
RTYPES = "ALA ARG ASN ASP CYS GLN GLU GLY HIS ILE LEU LYS MET PHE PRO SER THR TRP TYR VAL".split()
TITRATABLE = ["ASP", "GLU", "HIS", "CYS", "TYR", "LYS", "ARG"]
OWN_PATCH = {"ASP": "ASH", "GLU": "GLH", "HIS": "HIP", "CYS": "CYM", "TYR": "TYM", "LYS": "LYN", "ARG": "AR0"}
TITR_PATCHES = set(OWN_PATCH.values()) | {"NEUTRAL-NTERM", "NEUTRAL-CTERM"}
# chemistry: is the group protonated in the residue's default state
DEFAULT_PROT = {"ASP": False, "GLU": False, "HIS": False, "CYS": True, "TYR": True, "LYS": True, "ARG": True, "N+": True, "C-": False}
# formal charge of the group when protonated
PROT_CHARGE = {"ASP": 0, "GLU": 0, "HIS": 1, "CYS": 0, "TYR": 0, "LYS": 1, "ARG": 1, "N+": 1, "C-": 0}
POSITIONS = ["N", "M", "C", "NC"]
TYPICAL_PKA = {"ASP": "3.80", "GLU": "4.50", "HIS": "6.50", "CYS": "8.30", "TYR": "10.10", "LYS": "10.50", "ARG": "12.50", "N+": "8.00", "C-": "3.20"}


# --------------------------------------------------------------------------
# helpers


def regenerate(ctx):
    import os

    p = subprocess.run(
        [sys.executable, str(core.VERIF / "gen" / "all.py"), "--only", "ff_tables,topology,titration,states"],
        capture_output=True, text=True, env={**os.environ, "VERIF_REPO": str(core.REPO)},
    )
    if p.returncode != 0:
        ctx.broke("generator-broken", "gen/all.py --only ff_tables,topology,titration,states (tables from /repo)", (p.stdout + p.stderr)[-2500:])
        return False
    return True


def qlit(dec) -> str:
    """Coq Q literal of a decimal with <= 2 places."""
    n = Decimal(str(dec)) * 100
    assert n == n.to_integral_value(), dec
    n = int(n)
    return f"(({n}) # 100)%Q" if n < 0 else f"({n} # 100)%Q"


def qx(x) -> str:
    """Exact Coq Q literal of a python float (or of a numeric text as float() reads it)."""
    from fractions import Fraction

    f = Fraction(float(x))
    n, d = f.numerator, f.denominator
    return f"(({n}) # {d})%Q" if n < 0 else f"({n} # {d})%Q"


def coq_bool(b) -> str:
    return "true" if b else "false"


def coq_residue(r) -> str:
    return f"(mkres {coq_bool(r['amino'])} {core.coq_string(r['name'])} {core.coq_Z(r['seq'])} {core.coq_string(r['chain'])} {coq_bool(r['nterm'])} {coq_bool(r['cterm'])})"


def coq_dict(d) -> str:
    return core.coq_list([f"({core.coq_string(k)}, {qx(v)})" for k, v in d])


def coq_ff(name) -> str:
    return FF_COQ.get(name, "OtherFF")


def silence():
    logging.getLogger().setLevel(logging.ERROR)


def layout(t, pos):
    seq = {"N": [t, "ALA", "ALA"], "M": ["ALA", t, "ALA"], "C": ["ALA", "ALA", t], "NC": [t]}[pos]
    idx = {"N": 0, "M": 1, "C": 2, "NC": 0}[pos]
    return seq, idx


def pos_of(res) -> str:
    n, c = bool(res.is_n_term), bool(res.is_c_term)
    return "NC" if n and c else "N" if n else "C" if c else "M"


_PEP_CACHE = {}
LABEL_W = (3, 4, 2)  # field widths of PROPKA's group label; re-derived from real PROPKA rows on every run


class Seq(tuple):
    """A peptide: residue names + first residue number, chain id, insertion code."""

    start = 1
    chain = "A"
    icode = ""


def mkseq(seq, start=1, chain="A", icode=""):
    s = Seq(seq)
    s.start, s.chain, s.icode = start, chain, icode
    return s


class Struct:
    """A multi-chain structure given as PDB text."""

    def __init__(self, name, pdb):
        self.name, self.pdb = name, pdb


def skey(seq):
    if isinstance(seq, Struct):
        return ("struct", seq.name)
    return (tuple(seq), getattr(seq, "start", 1), getattr(seq, "chain", "A"), getattr(seq, "icode", ""))


def peptide_pdb(seq):
    from harness import builder as B

    if isinstance(seq, Struct):
        return seq.pdb
    key = skey(seq)
    if key not in _PEP_CACHE:
        _PEP_CACHE[key] = B.to_pdb(B.build_peptide(list(seq), start=key[1], chain=key[2], icode=key[3]))
    return _PEP_CACHE[key]


def structures():
    """Mixed structures: two chains, a disulfide, residues pre-named in a variant state."""
    from harness import builder as B

    if "structs" not in _PEP_CACHE:
        a = B.build_peptide(["ALA", "ASP", "LYS", "HIS", "ALA"], chain="A", start=1)
        b = B.build_peptide(["TYR", "GLU", "CYS", "ARG"], chain="B", start=50, origin=(40.0, 0.0, 0.0))
        da, db = B.disulfide_pair(seq=("LYS", "CYS", "HIS"))
        pre = B.build_peptide(["ALA", "ASH", "LYN", "CYM", "HIP", "GLH", "TYM", "ASP", "LYS", "ALA"], chain="A", start=1)
        _PEP_CACHE["structs"] = {
            "two_chains": Struct("two_chains", B.to_pdb([a, b])),
            "disulfide": Struct("disulfide", B.to_pdb([da, db])),
            "prenamed": Struct("prenamed", B.to_pdb(pre)),
        }
    return _PEP_CACHE["structs"]


def residue_records(bio):
    from pdb2pqr import aa

    return [
        {"amino": isinstance(r, aa.Amino), "name": r.name, "seq": int(r.res_seq), "chain": r.chain_id,
         "nterm": bool(getattr(r, "is_n_term", False)), "cterm": bool(getattr(r, "is_c_term", False))}
        for r in bio.residues
    ]


def key_side(name, seq, chain):
    return f"{name} {seq} {chain}".strip()


def key_term(tag, seq, chain):
    return f"{tag}  {seq:>3} {chain}".strip()


# --------------------------------------------------------------------------
# decision level: the real apply_pka_values with a recording apply_patch


def real_decisions(bio, ffname, ph, items):
    """Call the real Biomolecule.apply_pka_values on a (shared) biomolecule whose
    apply_patch is replaced by a recorder. Returns (patches [(residue index, name)],
    warning tokens, leftover keys) or ('EXC', type)."""
    from harness import builder as B

    rec = []
    index = {id(r): i for i, r in enumerate(bio.residues)}
    bio.apply_patch = lambda name, residue: rec.append((index[id(residue)], name))
    d = {k: float(v) for k, v in items}
    try:
        with B.capture_pdb2pqr_log(logging.WARNING) as records:
            bio.apply_pka_values(ffname, float(ph), d)
    except Exception as e:  # noqa: BLE001
        return ("EXC", type(e).__name__, str(e)[:200])
    finally:
        del bio.apply_patch
    toks = []
    for r in records:
        m = r.getMessage()
        if m.startswith("N-terminal ") and m.endswith(" neutral"):
            toks.append("W:" + m[len("N-terminal "):-len(" neutral")])
        elif m.startswith("C-terminal ") and m.endswith(" neutral"):
            toks.append("W:" + m[len("C-terminal "):-len(" neutral")])
        elif m.startswith("("):
            try:
                toks.append("W:" + str(ast.literal_eval(m)[0]))
            except Exception:  # noqa: BLE001
                toks.append("?:" + m)
        elif m.startswith("Neutral arginines"):
            toks.append("W:AR0")
        elif m.startswith("PDB2PQR could not identify"):
            toks.append("LH")
        elif m.startswith("             "):
            toks.append("L:" + m[13:])
        else:
            toks.append("?:" + m)
    return (rec, toks, list(d.keys()))


def parse_model_run(s, residues):
    """show_run output -> the same canonical triple."""
    sites, _, left = s.partition("#")
    counts = []
    for i, r in enumerate(residues):
        if r["amino"]:
            counts += [i] * (int(r["nterm"]) + int(r["cterm"]) + 1)
    patches, toks = [], []
    parts = sites.split("|") if sites else []
    if len(parts) != len(counts):
        return ("BAD", s)
    for ri, p in zip(counts, parts):
        key, _, res = p.rpartition(">")
        if "=" in res:
            _, _, o = res.partition("=")
            out, _, w = o.partition("/")
            if out.startswith("P:"):
                patches.append((ri, out[2:]))
            if w == "1":
                toks.append("W:AR0" if out == "P:AR0" else "W:" + key)
    leftover = left.split("|") if left else []
    if leftover:
        toks.append("LH")
        toks += ["L:" + k for k in leftover]
    return (patches, toks, leftover)


SITE_OPTS = {"A": None, "b": "9.00", "e": "7.00", "a": "5.00"}
COMBOS = (
    [(x, "A", "A") for x in "bea"] + [("A", x, "A") for x in "bea"] + [("A", "A", x) for x in "bea"]
    + [(x, y, z) for x in "ba" for y in "ba" for z in "ba"]
    + [("e", "e", "e"), ("A", "A", "A"), ("b", "a", "e"), ("a", "b", "e")]
)


def decision_table(ctx):
    """Exhaustive: 7 force-field names x 4 positions x 9 residue types x 22
    combinations of (N+ key, C- key, side key) each absent/below/equal/above."""
    from harness import builder as B

    types = TITRATABLE + ["ALA", "PRO"]
    bios = {}
    for pos in POSITIONS:
        for t in types:
            seq, idx = layout(t, pos)
            s = B.setup_biomolecule(peptide_pdb(seq))
            bios[(pos, t)] = (s["biomolecule"], idx)
    terms, plan = [], []
    for ffname in list(FF_COQ) + [USER_FF]:
        for (pos, t), (bio, idx) in bios.items():
            recs = residue_records(bio)
            x = recs[idx]
            keys = (key_term("N+", x["seq"], x["chain"]), key_term("C-", x["seq"], x["chain"]), key_side(x["name"], x["seq"], x["chain"]))
            dicts = []
            for combo in COMBOS:
                dicts.append([(k, SITE_OPTS[c]) for k, c in zip(keys, combo) if SITE_OPTS[c] is not None])
            real = [real_decisions(bio, ffname, "7.00", d) for d in dicts]
            terms.append(f"show_runs {coq_ff(ffname)} {qx('7.00')} {core.coq_list([coq_dict(d) for d in dicts])} {core.coq_list([coq_residue(r) for r in recs])}")
            plan.append((ffname, pos, t, recs, dicts, real))
    return terms, plan


def random_key_cases(ctx, n):
    """Key handling: numbering, chain labels, duplicate keys, malformed and stray keys."""
    from harness import builder as B

    rng = ctx.rng
    pool = []
    for k in range(8):
        seq = [rng.choice(RTYPES if rng.random() < 0.5 else TITRATABLE) for _ in range(rng.randint(2, 5))]
        if k >= 6:  # repeated residue types: duplicate side-chain keys become likely
            seq = [rng.choice(TITRATABLE)] * rng.randint(2, 4)
        s = B.setup_biomolecule(peptide_pdb(seq))
        pool.append(s["biomolecule"])
    for st in structures().values():  # several chains, a disulfide, residues pre-named in a variant state
        pool.append(B.setup_biomolecule(st.pdb)["biomolecule"])
    cases = []
    for k in range(n):
        bio = rng.choice(pool)
        dup = rng.random() < 0.35
        chain = rng.choice(["A", "A", "B", "", " ", "AB"])
        nums = [1, 2, 3, 4, 5, 10, 99, 100, 999, 1000, 9999, 0, -1, -10]
        for r in bio.residues:
            r.res_seq = rng.choice(nums[:3] if dup else nums)
            r.chain_id = chain if rng.random() < 0.8 else rng.choice(["A", "B", ""])
        recs = residue_records(bio)
        ph = rng.choice(["0.00", "2.50", "7.00", "7.25", "10.00", "14.00"])
        vals = ["-1.50", "0.00", "3.90", "7.00", "7.25", "7.26", "10.00", "12.50", "14.00", "20.00", ph]
        d = {}
        for r in recs:
            for key in (key_side(r["name"], r["seq"], r["chain"]), key_term("N+", r["seq"], r["chain"]), key_term("C-", r["seq"], r["chain"])):
                u = rng.random()
                if u < 0.45:
                    d[key] = rng.choice(vals)
                elif u < 0.55:  # malformed variants that must NOT match
                    bad = rng.choice([key.replace("  ", " "), key.lower(), key + " ", " " + key, key.replace(" ", "  ", 1), f"{r['name']}{r['seq']:>4}{r['chain']:>2}"])
                    d[bad] = rng.choice(vals)
        if rng.random() < 0.3:
            d[rng.choice(["HOH 1 W", "XXX", "N+", "C-  "])] = "5.00"
        items = list(d.items())
        rng.shuffle(items)
        ffname = rng.choice(list(FF_COQ) + [USER_FF])
        real = real_decisions(bio, ffname, ph, items)
        keys = [key_side(r["name"], r["seq"], r["chain"]) for r in recs]
        cases.append({"ff": ffname, "ph": ph, "items": items, "recs": recs, "real": real, "dupkeys": len(set(keys)) < len(keys)})
    return cases


def near_values(p, rng):
    """pH values around a pKa p at full float resolution (as repr texts)."""
    import math

    out = [p]
    for k in (1, 2, 5):
        x = y = p
        for _ in range(k):
            x, y = math.nextafter(x, math.inf), math.nextafter(y, -math.inf)
        out += [x, y]
    for d in (1e-12, 1e-6, 4e-3, 4.9e-3, 5.1e-3, 0.3):
        out += [p + d, p - d]
    out += [p + rng.uniform(-5e-3, 5e-3) for _ in range(3)]
    return [repr(v) for v in out if 0.0 <= v <= 14.0]


FULL_RES_PKA = {"ASP": ["3.8", "3.7999999999999994"], "GLU": ["4.503", "4.5"], "HIS": ["6.499999999", "6.5"], "CYS": ["8.3", "8.304999"],
                "TYR": ["10.095", "10.1"], "LYS": ["10.5", "10.495000001"], "ARG": ["12.5"]}


def resolution_key_cases(ctx):
    """Decision level: pH and pKa both at full float resolution (pKa +- k ulp, +-1e-12 ... +-0.3, random)."""
    from harness import builder as B

    cases = []
    for t, pks in FULL_RES_PKA.items():
        seq, idx = layout(t, "M")
        bio = B.setup_biomolecule(peptide_pdb(seq))["biomolecule"]
        recs = residue_records(bio)
        x = recs[idx]
        key = key_side(x["name"], x["seq"], x["chain"])
        for pk in pks[:1] if not ctx.thorough else pks:
            for ph in near_values(float(pk), ctx.rng):
                for ffname in ("parse", "amber"):
                    items = [(key, pk)]
                    cases.append({"ff": ffname, "ph": ph, "items": items, "recs": recs, "real": real_decisions(bio, ffname, ph, items), "dupkeys": False})
                    ctx.count("decision:full-resolution")
    return cases


def check_decisions(ctx):
    held = True
    terms, plan = decision_table(ctx)
    rcases = random_key_cases(ctx, 1200 if ctx.thorough else 160)
    rcases += resolution_key_cases(ctx)
    rterms = [f"show_run {coq_ff(c['ff'])} {qx(c['ph'])} {coq_dict(c['items'])} {core.coq_list([coq_residue(r) for r in c['recs']])}" for c in rcases]
    try:
        res = core.run_cases("C06d", HEADER, terms + rterms, chunk=40)
    except core.CoqEvalError as e:
        ctx.broke("correspondence-broken", "decision table: model evaluation failed", str(e))
        return False, None

    def report(what, detail, case):
        nonlocal held
        held = False
        ctx.cov["correspondence_disagreements"] += 1
        if sum(b["kind"] == "correspondence-broken" for b in ctx.broken) < 4:
            ctx.broke("correspondence-broken", what, detail, case)

    first_bad = None
    for (ffname, pos, t, recs, dicts, real), out in zip(plan, res[: len(terms)]):
        runs = out.split("@")
        for combo, d, r, m in zip(COMBOS, dicts, real, runs):
            ctx.cov["correspondence_cases"] += 1
            ctx.count(f"decision:{ffname}")
            mm = parse_model_run(m, recs)
            if r[0] == "EXC" or (r[0], r[1], r[2]) != mm:
                case = {"kind": "decision", "ff": ffname, "pos": pos, "type": t, "ph": "7.00", "items": d}
                if first_bad is None:
                    first_bad = case
                report("Model.Titration.apply_pka_values (decide) vs Biomolecule.apply_pka_values", f"{ffname} {pos} {t} combo={combo}: impl={r!r} model={mm!r}", case)
    for c, m in zip(rcases, res[len(terms):]):
        ctx.cov["correspondence_cases"] += 1
        ctx.count("keys:dup" if c["dupkeys"] else "keys:unique")
        mm = parse_model_run(m, c["recs"])
        r = c["real"]
        if r[0] == "EXC" or (r[0], r[1], r[2]) != mm:
            report("Model.Titration.apply_pka_values (keys, del, leftover) vs Biomolecule.apply_pka_values", f"impl={r!r} model={mm!r}", {"kind": "keys", "ff": c["ff"], "ph": c["ph"], "items": c["items"], "residues": c["recs"]})
    ctx.sample({"decision_case": {"ff": plan[0][0], "pos": plan[0][1], "type": plan[0][2], "dict": plan[0][4][9], "impl": list(plan[0][5][9]), "model": res[0].split("@")[9]}})
    if rcases:
        c = rcases[0]
        ctx.sample({"key_case": {"ff": c["ff"], "ph": c["ph"], "dict": c["items"], "residues": [(r["name"], r["seq"], r["chain"]) for r in c["recs"]], "impl": list(c["real"]), "model": res[len(terms)]}})
    return held, first_bad


def check_naming(ctx):
    """Really apply every titration patch combination reachable from a decision
    and compare the resulting ffname with the model's residue_names/ffname_after."""
    from harness import builder as B

    held = True
    jobs = []
    for pos in POSITIONS:
        for t in TITRATABLE + ["ALA", "PRO", "GLY"]:
            for n in ([[], ["NEUTRAL-NTERM"]] if pos in ("N", "NC") else [[]]):
                for c in ([[], ["NEUTRAL-CTERM"]] if pos in ("C", "NC") else [[]]):
                    for sd in ([[], [OWN_PATCH[t]]] if t in OWN_PATCH else [[]]):
                        jobs.append((pos, t, n + c + sd))
    terms = []
    reals = []
    for pos, t, ps in jobs:
        seq, idx = layout(t, pos)
        s = B.setup_biomolecule(peptide_pdb(seq))
        bio = s["biomolecule"]
        res = bio.residues[idx]
        try:
            for p in ps:
                bio.apply_patch(p, res)
            bio.add_hydrogens()
            bio.set_states()
            reals.append(res.ffname)
        except Exception as e:  # noqa: BLE001
            reals.append(f"EXC-{type(e).__name__}")
        cpos = {"N": "PosN", "M": "PosMid", "C": "PosC", "NC": "PosNC"}[pos]
        pl = core.coq_list(["P_" + p.replace("-", "_") for p in ps])
        terms.append(f'String.concat "," (ffname_after {t} {cpos} {pl})')
    try:
        res = core.run_cases("C06n", HEADER, terms, chunk=60)
    except core.CoqEvalError as e:
        ctx.broke("correspondence-broken", "naming: model evaluation failed", str(e))
        return False
    for (pos, t, ps), real, m in zip(jobs, reals, res):
        ctx.cov["correspondence_cases"] += 1
        ctx.count("naming")
        if real not in m.split(","):
            held = False
            ctx.cov["correspondence_disagreements"] += 1
            if sum(b["kind"] == "correspondence-broken" for b in ctx.broken) < 4:
                ctx.broke("correspondence-broken", "Model.Titration.ffname_after vs apply_patch + add_hydrogens + set_states", f"{t} {pos} patches={ps}: impl={real} model={m}", {"kind": "naming", "type": t, "pos": pos, "patches": ps})
    return held


# --------------------------------------------------------------------------
# end to end, stubbed pKa source, model-independent oracle


class Probe:
    """Direct look-ups in pdb2pqr's own loaded objects (independent of the Coq tables)."""

    def __init__(self):
        from pdb2pqr import forcefield
        from pdb2pqr import io as pio

        self.definition = pio.get_definitions()
        self.ffs = {ff: forcefield.Forcefield(ff.lower(), self.definition, None, None) for ff in FFS6}

    def lost(self, ff, name):
        if name not in self.definition.map:
            return None
        base = name[-3:]
        skip = {"N+1", "C-1"} | ({"HD1"} if base == "ASH" else set()) | ({"HE1"} if base == "GLH" else set())
        out = []
        for a in self.definition.map[name].map:
            if a in skip:
                continue
            if self.ffs[ff].get_params(name, a)[0] is None:
                out.append(a)
        return out

    def supported_vs(self, ff, name, default_name):
        l = self.lost(ff, name)
        if l is None:
            return False
        d = self.lost(ff, default_name)
        return all(a in (d or []) for a in l) if d is not None else True


def split_ffname(ffname):
    if ffname.startswith("NEUTRAL-"):
        return ffname[:9], ffname[9:]
    if len(ffname) == 4:
        return ffname[0], ffname[1:]
    return "", ffname


def propka_label_py(rtype, num, chain):
    w1, w2, w3 = LABEL_W
    return f"{rtype:<{w1}s}{num:>{w2}d}{chain:>{w3}s}"


def make_rows(seq, pkas, chain=None):
    """Rows as main.run_propka returns them (label in PROPKA's own layout, widths
    learned from real PROPKA rows). pkas: {(index, group): decimal str}."""
    start = getattr(seq, "start", 1)
    chain = chain if chain is not None else getattr(seq, "chain", "A")
    rows = []
    for (i, g), v in sorted(pkas.items(), key=lambda kv: (kv[0][0], kv[0][1])):
        rtype = g if g in ("N+", "C-") else seq[i]
        rows.append({
            "res_num": start + i, "ins_code": getattr(seq, "icode", "") or " ", "res_name": seq[i], "chain_id": chain,
            "group_label": propka_label_py(rtype, start + i, chain), "group_type": "N+" if g == "N+" else "COO" if g in ("C-", "ASP", "GLU") else g,
            "pKa": float(v), "model_pKa": float(v), "buried": 0.0, "coupled_group": None, "_dec": v, "_group": g, "_val": float(v),
        })
    return rows


def rows_from_df(df):
    """Rows of a REAL run_propka result, annotated for the oracle."""
    rows = []
    for row in df:
        g = row["group_label"][:3].strip()
        if g not in ("N+", "C-"):
            g = row["res_name"]
        if g not in DEFAULT_PROT:
            continue
        r = dict(row)
        r["_dec"] = repr(float(row["pKa"]))
        r["_group"] = g
        r["_val"] = float(row["pKa"])
        rows.append(r)
    return rows


def parse_pqr_ws(text, keep_chain=True, default_chain="A"):
    """ATOM/HETATM lines of a PQR written with --whitespace (an insertion code is its own field),
    with or without the chain column (--keep-chain)."""
    out = []
    for ln in text.splitlines():
        if not ln.startswith(("ATOM", "HETATM")):
            continue
        f = ln.split()
        x, y, z, q, r = map(float, f[-5:])
        head = f[:-5]
        if not keep_chain:
            head = head[:4] + [default_chain] + head[4:]
        if len(head) not in (6, 7):
            raise ValueError(f"unparsable PQR line: {ln!r}")
        out.append({"name": head[2], "resname": head[3], "chain": head[4], "resseq": head[5], "icode": head[6] if len(head) == 7 else "", "charge": q})
    return out


ENTRIES = ("parser", "run_pdb2pqr", "namespace")


def run_entry(pdb_text, args, ph, workdir, entry):
    """Like builder.run_pdb2pqr, through another entry point that carries the pH:
    'run_pdb2pqr' = pdb2pqr.main.run_pdb2pqr(list of strings); 'namespace' = main_driver on a
    Namespace whose ph attribute is set to the float directly (no text parsing)."""
    import contextlib
    import io as _io
    from pathlib import Path

    from harness import builder as B
    from pdb2pqr import main as pmain

    wd = Path(workdir)
    wd.mkdir(parents=True, exist_ok=True)
    inp, outp = wd / "input.pdb", wd / "output.pqr"
    inp.write_text(pdb_text, encoding="utf-8")
    for stale in (outp, outp.with_suffix(".log")):
        if stale.exists():
            stale.unlink()
    res = {"result": None, "exc": None, "pqr_text": None, "messages": []}
    with B.capture_pdb2pqr_log(logging.WARNING) as records, contextlib.redirect_stderr(_io.StringIO()):
        try:
            if entry == "run_pdb2pqr":
                res["result"] = pmain.run_pdb2pqr([*args, f"--with-ph={ph}", inp, outp])
            else:
                ns = pmain.build_main_parser().parse_args([*map(str, args), str(inp), str(outp)])
                ns.ph = float(ph)
                res["result"] = pmain.main_driver(ns)
        except BaseException as exc:  # noqa: BLE001
            if isinstance(exc, KeyboardInterrupt):
                raise
            res["exc"] = exc
    res["messages"] = [f"{r.levelname}:{r.name}:{r.getMessage()}" for r in records]
    if outp.exists():
        res["pqr_text"] = outp.read_text(encoding="utf-8")
    return res


# other options that reach non_trivial together with the titration
OPTSETS = [(), ("--noopt",), ("--nodebump",), ("--noopt", "--nodebump"), ("--drop-water",), ("--ffout=AMBER",), ("--no-keep-chain",),
           ("--noopt", "--ffout=PARSE"), ("--neutraln", "--neutralc")]


def e2e(ctx, seq, ff, ph, rows, entry="parser", opts=(), cache={}):  # noqa: B006 - deliberate per-process cache
    """One pipeline run. rows=None: no titration step (baseline). ph is the REQUESTED pH as text."""
    from harness import builder as B
    from pdb2pqr import biomolecule as pbio
    from pdb2pqr import main as pmain

    real = isinstance(rows, str) and rows == "real"
    opts = tuple(o for o in opts if not (o in ("--neutraln", "--neutralc") and ff != "PARSE"))
    keep_chain = "--no-keep-chain" not in opts or isinstance(seq, Struct)
    ffout = any(o.startswith("--ffout") for o in opts)
    key = (skey(seq), ff, ph, entry, opts, "real" if real else json.dumps([(r["group_label"], r["_dec"]) for r in rows]) if rows is not None else None)
    if key in cache:
        return cache[key]
    args = [f"--ff={ff}", "--whitespace"] + (["--keep-chain"] if keep_chain else []) + [o for o in opts if o != "--no-keep-chain"]
    cap = {}
    orig_rp, orig_ap = pmain.run_propka, pbio.Biomolecule.apply_pka_values
    orig_aff = pbio.Biomolecule.apply_force_field
    snap = {}

    def wrapped_aff(self, forcefield_):
        # the finished model in pdb2pqr's own atom names (--ffout renames the atoms afterwards, in place)
        for x in self.residues:
            snap[(x.chain_id, int(x.res_seq), x.name)] = [a.name for a in x.atoms]
        return orig_aff(self, forcefield_)

    pbio.Biomolecule.apply_force_field = wrapped_aff
    if rows is not None:
        args += ["--titration-state-method=propka"]
        if not real:
            clean = [{k: v for k, v in r.items() if not k.startswith("_")} for r in rows]
            pmain.run_propka = lambda a, b: (clean, "stub")

        def wrapped(self, force_field, ph_, pkadic):
            cap["ff"], cap["ph"], cap["dict"] = force_field, ph_, dict(pkadic)
            return orig_ap(self, force_field, ph_, pkadic)

        pbio.Biomolecule.apply_pka_values = wrapped
    try:
        if rows is None or entry == "parser":
            r = B.run_pdb2pqr(peptide_pdb(seq), args + ([f"--with-ph={ph}"] if rows is not None else []), workdir=ctx.scratch_dir() / "e2e")
        else:
            r = run_entry(peptide_pdb(seq), args, ph, ctx.scratch_dir() / "e2e", entry)
    finally:
        pmain.run_propka, pbio.Biomolecule.apply_pka_values = orig_rp, orig_ap
        pbio.Biomolecule.apply_force_field = orig_aff
    obs = {"exc": None, "cap": cap, "opts": opts, "rows": [] if (real or rows is None) else rows, "warnings": [m.split(":", 2)[2] for m in r["messages"] if m.startswith("WARNING")]}
    if r["exc"] is not None or r["result"] is None or r["pqr_text"] is None:
        obs["exc"] = f"{type(r['exc']).__name__}: {r['exc']}" if r["exc"] is not None else "no output"
        crit = [m for m in r["messages"] if m.startswith("CRITICAL")]
        obs["critical"] = crit[:2]
    else:
        _missed, _df, bio = r["result"]
        if real:
            obs["rows"] = rows_from_df(_df)
        atoms = parse_pqr_ws(r["pqr_text"], keep_chain, getattr(seq, "chain", "A"))
        present = {(a["chain"], int(a["resseq"]), a["name"]) for a in atoms}
        obs["charge"] = sum(a["charge"] for a in atoms)
        obs["residues"] = [
            {"name": x.name, "seq": int(x.res_seq), "chain": x.chain_id, "ffname": x.ffname, "patches": list(x.patches), "pos": pos_of(x),
             "ss": bool(getattr(x, "ss_bonded", False)) or "CYX" in x.patches,
             "atoms": snap.get((x.chain_id, int(x.res_seq), x.name), [a.name for a in x.atoms])}
            for x in bio.residues
        ]
        if ffout:
            # output names follow another naming scheme: use the unassigned-atom list of the run and the per-residue atom counts
            obs["missing"] = sorted({(a.residue.chain_id, int(a.residue.res_seq), a.name) for a in _missed})
            per = {}
            for a in atoms:
                per[(a["chain"], int(a["resseq"]))] = per.get((a["chain"], int(a["resseq"])), 0) + 1
            for x in obs["residues"]:
                lost = len(x["atoms"]) - per.get((x["chain"], x["seq"]), 0) - sum(1 for m in obs["missing"] if m[:2] == (x["chain"], x["seq"]))
                if lost:
                    obs["missing"].append((x["chain"], x["seq"], f"#{lost} atoms not written"))
        else:
            obs["missing"] = sorted((x["chain"], x["seq"], a) for x in obs["residues"] for a in x["atoms"] if (x["chain"], x["seq"], a) not in present)
    cache[key] = obs
    return obs


def observed_protonated(group, res):
    names = set(res["atoms"])
    if group == "ASP":
        return bool(names & {"HD1", "HD2"})
    if group == "GLU":
        return bool(names & {"HE1", "HE2"})
    if group == "HIS":
        return {"HD1", "HE2"} <= names
    if group == "CYS":
        return "HG" in names
    if group == "TYR":
        return "HH" in names
    if group == "LYS":
        return {"HZ1", "HZ2", "HZ3"} <= names
    if group == "ARG":
        return {"HE", "HH11", "HH12", "HH21", "HH22"} <= names
    if group == "N+":
        # N-terminal PRO always carries the NEUTRAL-NTERM patch (two heavy bonds on N) and is NPRO, +1, with H and H2
        return ({"H", "H2"} <= names) if res["name"] == "PRO" else ({"H", "H2", "H3"} <= names)
    if group == "C-":
        return "HO" in names
    raise ValueError(group)


def state_names(group, res, wanted):
    """(ffname if only this group were in the wanted state, ffname with it in the
    default state); the other groups of the residue as observed."""
    prefix, base = split_ffname(res["ffname"])
    if group == "N+":
        return ("N" if wanted else "NEUTRAL-N") + base, "N" + base
    if group == "C-":
        if res["pos"] != "C":  # a one-residue chain's name cannot express its C-terminus
            return None, res["ffname"]
        return ("NEUTRAL-C" if wanted else "C") + base, "C" + base
    if group == "HIS":
        dbase = base if base in ("HID", "HIE") else "HIE"
        return prefix + ("HIP" if wanted else dbase), prefix + dbase
    switched = wanted != DEFAULT_PROT[group]
    return prefix + (OWN_PATCH[group] if switched else group), prefix + group


VARIANT_OF = {"ASH": "ASP", "GLH": "GLU", "LYN": "LYS", "CYM": "CYS", "CYX": "CYS", "TYM": "TYR", "HIP": "HIS", "HID": "HIS", "HIE": "HIS", "AR0": "ARG"}


def label_of(seq):
    return seq.name if isinstance(seq, Struct) else "-".join(seq) + (f"@{seq.start}{seq.chain}{seq.icode}" if isinstance(seq, Seq) else "")


def case_of(seq, ff, ph, rows, real):
    if isinstance(seq, Struct):
        c = {"kind": "struct", "name": seq.name, "ff": ff, "ph": ph}
    else:
        c = {"kind": "e2e", "seq": list(seq), "start": getattr(seq, "start", 1), "chain": getattr(seq, "chain", "A"), "icode": getattr(seq, "icode", ""), "ff": ff, "ph": ph}
    if real:
        c["real"] = True
    else:
        c["pkas"] = [[r["res_num"] - getattr(seq, "start", 1), r["_group"], r["_dec"]] for r in rows] if not isinstance(seq, Struct) else None
        c["rows"] = [[r["res_name"], r["res_num"], r["chain_id"], r["_group"], r["_dec"]] for r in rows]
    return c


# the titratable hydrogens of each group: (names, number present when protonated, when deprotonated)
GROUP_H = {"ASP": (("HD1", "HD2"), 1, 0), "GLU": (("HE1", "HE2"), 1, 0), "HIS": (("HD1", "HE2"), 2, 1), "CYS": (("HG",), 1, 0), "TYR": (("HH",), 1, 0),
           "LYS": (("HZ1", "HZ2", "HZ3"), 3, 2), "ARG": (("HE", "HH11", "HH12", "HH21", "HH22"), 5, 4), "N+": (("H", "H2", "H3"), 3, 2), "C-": (("HO",), 1, 0)}


def hydrogen_count_ok(group, res):
    """The group carries exactly the hydrogens of one of its two states."""
    names, n_prot, n_deprot = GROUP_H[group]
    if group == "N+" and res["name"] == "PRO":
        names, n_prot, n_deprot = ("H", "H2", "H3"), 2, 1
    n = sum(1 for a in res["atoms"] if a in names)
    return n == (n_prot if observed_protonated(group, res) else n_deprot), n


def judge_run(ctx, probe, seq, ff, ph, rows, tag, entry="parser", opts=()):
    """Model-independent oracle on one titrated run. Reports through ctx.fail.
    rows: stub rows (make_rows) or "real" (PROPKA itself supplies them)."""
    real = isinstance(rows, str)
    obs = e2e(ctx, seq, ff, ph, rows, entry, opts)
    base = e2e(ctx, seq, ff, None, None, "parser", opts)
    opts = obs["opts"]
    rows = obs["rows"] if real else rows
    case = case_of(seq, ff, ph, rows, real)
    case["entry"] = entry
    case["opts"] = list(opts)
    name = label_of(seq) + (" " + " ".join(opts) if opts else "")
    phf = float(ph)  # the REQUESTED pH: what argparse's type=float makes of the text
    # identity tie (model: ph_of_args): the float that reaches apply_pka_values is the requested one
    if obs["cap"]:
        ctx.cov["correspondence_cases"] += 1
        got_ph = obs["cap"]["ph"]
        if not (isinstance(got_ph, float) and got_ph == phf):
            ctx.cov["correspondence_disagreements"] += 1
            ctx.count("ph-identity:broken")
            if sum(b["what"].startswith("Model.Titration.ph_of_args") for b in ctx.broken) < 2:
                ctx.broke("correspondence-broken", "Model.Titration.ph_of_args (identity) vs the pH main passes to apply_pka_values",
                          f"requested {ph!r} = {phf!r} through entry {entry!r}; apply_pka_values received {got_ph!r}", case)
    has_term_rows = any(r["_group"] in ("N+", "C-") for r in rows)
    term_keys_passed = any(k.startswith(("N+", "C-")) for k in obs["cap"].get("dict", {}))
    if obs["exc"] is not None:
        if base["exc"] is not None:
            # the untitrated run of this structure fails as well (e.g. PEOEPB has no complete CGLY): not titration's doing
            ctx.count(f"baseline-aborts:{ff}")
            return obs
        sig = diagnose_abort(ctx, probe, seq, ff, ph, rows) if not real else {"defect": "run-lost", "ff": ff}
        if sig.get("defect") in ("run-aborted", "run-lost"):
            sig = {"defect": "run-lost", "condition": "run-lost", "ff": ff, "options": " ".join(opts) or "default",
                   "groups": "+".join(sorted({r["_group"] for r in rows if r["_group"] not in ("N+", "C-") and (float(ph) < r["_val"]) != DEFAULT_PROT[r["_group"]]})) or "-"}
        ctx.evaluated((tag, ff, name, ph, "abort"), True)
        ctx.fail(sig, f"{ff} {name} pH {ph}: the untitrated run succeeds, the titrated run is lost ({obs['exc']}; {obs.get('critical')})", case)
        return obs
    resmap = {(x["chain"], x["seq"]): x for x in obs["residues"]}
    # -- nothing dropped because of titration
    bmiss = set(map(tuple, base.get("missing", []))) if base["exc"] is None else set()
    by_res = {}
    for c, n, a in (m for m in obs["missing"] if tuple(m) not in bmiss):
        by_res.setdefault((c, n), []).append(a)
    for k, names in by_res.items():
        res = resmap[k]
        tp = [p for p in res["patches"] if p in TITR_PATCHES]
        l = probe.lost(ff, res["ffname"])
        if tp and (l is None or l):
            sig = {"defect": "unsupported-state-applied", "ff": ff, "group": res["name"], "patch": tp[-1], "pos": res["pos"], "effect": "residue-unassigned"}
        else:
            sig = {"defect": "atoms-dropped", "ff": ff, "residue": res["name"], "pos": res["pos"], "state": res["ffname"]}
        ctx.fail(sig, f"{ff} {name} pH {ph}: residue {res['name']} {k[1]} {k[0]} ({res['ffname']}, patches {res['patches']}) loses {len(names)} of {len(res['atoms'])} atoms that the untitrated run keeps", case)
    # -- each group
    for r in rows:
        g = r["_group"]
        res = resmap.get((r["chain_id"], r["res_num"]))
        if res is None:
            ctx.fail({"defect": "row-without-residue", "ff": ff}, f"{ff} {name}: pKa row {r['group_label']!r} matches no residue", case)
            continue
        if g not in ("N+", "C-") and res["name"] != g:
            continue  # a residue pre-named in a variant state: no group of that name
        if g == "CYS" and res["ss"]:
            # a cysteine in a disulfide bridge is not titratable: it must stay CYX whatever the table says
            ctx.evaluated(f"{ff}:CYS-bridged:{res['pos']}", True)
            if split_ffname(res["ffname"])[1] != "CYX" or "HG" in res["atoms"]:
                ctx.fail({"defect": "bridged-cys-titrated", "ff": ff, "pos": res["pos"]}, f"{ff} {name} pH {ph}: bridged CYS {res['seq']} {res['chain']} became {res['ffname']} (patches {res['patches']})", case)
            continue
        wanted = phf < r["_val"]
        default = DEFAULT_PROT[g]
        if g == "N+" and "--neutraln" in opts and res["name"] != "PRO":
            default = False
        if g == "C-" and "--neutralc" in opts:
            default = True
        got = observed_protonated(g, res)
        side = "below" if wanted else "above"
        nontrivial = wanted != default
        ctx.evaluated(f"{ff}:{g}:{res['pos']}:{side}", nontrivial)
        ctx.count(f"e2e:{ff}:{'switch' if nontrivial else 'keep'}")
        if g == "HIS":
            hb = split_ffname(res["ffname"])[1]
            if (got and hb != "HIP") or (not got and hb not in ("HID", "HIE")):
                ctx.fail({"defect": "his-name", "ff": ff, "pos": res["pos"]}, f"{ff} {name} pH {ph}: HIS {res['seq']} is {'protonated' if got else 'neutral'} but named {res['ffname']}", case)
        if not nontrivial:
            if got != default:
                ctx.fail({"defect": "wrong-state", "ff": ff, "group": g, "pos": res["pos"], "side": side, "expected": "default"}, f"{ff} {g} at {res['pos']} pH {ph} pKa {r['_dec']}: default state expected, group is {'protonated' if got else 'deprotonated'}", case)
            continue
        wname, dname = state_names(g, res, wanted)
        sup = probe.supported_vs(ff, wname, dname) if wname else False
        key = key_term(g, res["seq"], res["chain"]) if g in ("N+", "C-") else key_side(res["name"], res["seq"], res["chain"])
        warned = any(key in w for w in obs["warnings"])
        bad = None
        if sup and got != wanted:
            bad = "state-not-applied"
        elif not sup and got != default:
            bad = "unsupported-state-applied"
        elif not sup and not warned:
            bad = "no-warning"
        if bad is None:
            continue
        if g in ("N+", "C-") and has_term_rows and not term_keys_passed and bad in ("state-not-applied", "no-warning"):
            sig = {"defect": "terminus-row-dropped", "ff": ff, "group": g, "pos": res["pos"], "effect": bad}
        elif bad == "unsupported-state-applied":
            tp = [p for p in res["patches"] if p in TITR_PATCHES]
            sig = {"defect": "unsupported-state-applied", "ff": ff, "group": g, "patch": tp[-1] if tp else "?", "pos": res["pos"], "effect": "state"}
        else:
            sig = {"defect": bad, "ff": ff, "group": g, "pos": res["pos"], "side": side, "wanted_state": wname, "supported": sup,
                   "numbering": "wide" if (res["seq"] >= 1000 or res["seq"] <= -100) else "plain"}
        ctx.fail(sig, f"{ff} {name}: {g} {res['seq']} {res['chain']} at {res['pos']} pH {ph} pKa {r['_dec']}: wanted {'protonated' if wanted else 'deprotonated'} ({wname}, parameterisable={sup}); observed {'protonated' if got else 'deprotonated'} as {res['ffname']}, warned={warned}, dict keys passed {sorted(obs['cap'].get('dict', {}))[:6]} -> {bad}", case)
    # -- every titratable group on the returned model has exactly the hydrogens of one state
    for res in obs["residues"]:
        g0 = VARIANT_OF.get(res["name"], res["name"])
        for g in ([g0] if g0 in GROUP_H and not (g0 == "CYS" and res["ss"]) else []) + (["N+"] if res["pos"] in ("N", "NC") else []) + (["C-"] if res["pos"] in ("C", "NC") else []):
            okh, n = hydrogen_count_ok(g, res)
            if not okh:
                ctx.fail({"defect": "hydrogen-count", "ff": ff, "group": g, "pos": res["pos"], "options": " ".join(opts) or "default"},
                         f"{ff} {name} pH {ph}: {g} of {res['name']} {res['seq']} {res['chain']} ({res['ffname']}, patches {res['patches']}) carries {n} of {GROUP_H[g][0]}: neither state", case)
    # -- charge: integral and equal to the chemistry of the observed states
    if not obs["missing"]:
        exp = 0
        for res in obs["residues"]:
            g = VARIANT_OF.get(res["name"], res["name"])
            if g in DEFAULT_PROT and not (g == "CYS" and res["ss"]):
                exp += PROT_CHARGE[g] - (0 if observed_protonated(g, res) else 1)
            if res["pos"] in ("N", "NC"):
                exp += PROT_CHARGE["N+"] - (0 if observed_protonated("N+", res) else 1)
            if res["pos"] in ("C", "NC"):
                exp += PROT_CHARGE["C-"] - (0 if observed_protonated("C-", res) else 1)
        if abs(obs["charge"] - exp) > 1e-3:
            ctx.fail({"defect": "charge-mismatch", "ff": ff}, f"{ff} {name} pH {ph}: PQR total charge {obs['charge']:.4f}, states say {exp}", case)
    return obs


def diagnose_abort(ctx, probe, seq, ff, ph, rows):
    from harness import builder as B

    s = B.setup_biomolecule(peptide_pdb(seq))
    bio = s["biomolecule"]
    d = {f"{r['res_name']} {r['res_num']} {r['chain_id']}": r["pKa"] for r in rows if r["group_label"].startswith(r["res_name"])}
    try:
        bio.apply_pka_values(ff.lower(), float(ph), d)
        bio.add_hydrogens()
        bio.set_states()
    except Exception as e:  # noqa: BLE001
        return {"defect": "run-aborted", "ff": ff, "exception": type(e).__name__}
    for x in bio.residues:
        tp = [p for p in x.patches if p in TITR_PATCHES]
        l = probe.lost(ff, x.ffname)
        if tp and (l is None or l):
            return {"defect": "unsupported-state-applied", "ff": ff, "group": x.name, "patch": tp[-1], "pos": pos_of(x), "effect": "run-aborted"}
    return {"defect": "run-aborted", "ff": ff}


def cell_runs(ctx, sample=None):
    """(seq, ph, pkas) for every side group x position x side, and the termini."""
    runs = []
    for t in TITRATABLE:
        for pos in POSITIONS:
            seq, idx = layout(t, pos)
            for ph, pka in (("5.00", "9.00"), ("9.00", "5.00")):
                pk = {(idx, t): pka, (0, "N+"): TYPICAL_PKA["N+"], (len(seq) - 1, "C-"): TYPICAL_PKA["C-"]}
                runs.append((tuple(seq), ph, pk))
    for t in ("ALA", "LYS", "PRO"):
        for pos in (("N", "C", "NC") if t == "ALA" else ("N",)):
            seq, idx = layout(t, pos)
            for ph in ("2.00", "5.00", "9.00"):
                pk = {(0, "N+"): TYPICAL_PKA["N+"], (len(seq) - 1, "C-"): TYPICAL_PKA["C-"]}
                if t == "LYS":
                    pk[(idx, "LYS")] = TYPICAL_PKA["LYS"]
                runs.append((tuple(seq), ph, pk))
    # boundary: pH == pKa is the deprotonated side (ph >= value)
    for t in ("ASP", "CYS", "HIS"):
        seq, idx = layout(t, "M")
        runs.append((tuple(seq), "7.00", {(idx, t): "7.00"}))
    return runs


SWEEP_PEPTIDES = [
    ("ALA", "ASP", "GLU", "HIS", "CYS", "TYR", "LYS", "ARG", "ALA"),
    ("LYS", "ALA", "CYS"),
    ("CYS", "GLU", "LYS"),
    ("ASP", "TYR", "HIS", "GLU"),
]


def sweep(ctx, probe, seq, ff, phs, real=False, opts=()):
    if real:
        rows = "real"
    else:
        pk = {(i, t): TYPICAL_PKA[t] for i, t in enumerate(seq) if t in TYPICAL_PKA}
        pk[(0, "N+")] = TYPICAL_PKA["N+"]
        pk[(len(seq) - 1, "C-")] = TYPICAL_PKA["C-"]
        rows = make_rows(seq, pk)
    name = label_of(seq)
    prev = None
    for ph in phs:
        obs = judge_run(ctx, probe, seq, ff, ph, rows, "sweep", "parser", opts)
        ctx.count("sweep:runs")
        if obs["exc"] is not None:
            prev = None
            continue
        if prev is not None and obs["charge"] > prev[1] + 1e-3:
            # diagnose: a residue unassigned in either run because of a titration patch
            sig = {"defect": "charge-increases", "ff": ff}
            for o in (obs, prev[2]):
                for c_, s_, _a in o["missing"]:
                    res = next(x for x in o["residues"] if x["seq"] == s_ and x["chain"] == c_)
                    tp = [p for p in res["patches"] if p in TITR_PATCHES]
                    l = probe.lost(ff, res["ffname"])
                    if tp and (l is None or l):
                        sig = {"defect": "unsupported-state-applied", "ff": ff, "group": res["name"], "patch": tp[-1], "pos": res["pos"], "effect": "charge-increases"}
            c = case_of(seq, ff, ph, [], real)
            c.update({"kind": "sweep" if not isinstance(seq, Struct) else "struct-sweep", "ph_lo": prev[0], "ph_hi": ph, "real": real, "opts": list(opts)})
            ctx.fail(sig, f"{ff} {name}: total charge rises from {prev[1]:.3f} at pH {prev[0]} to {obs['charge']:.3f} at pH {ph}", c)
        prev = (ph, obs["charge"], obs)


def check_rows_to_dict(ctx, runs_seen):
    """main.py: rows -> dict, as captured at the call of apply_pka_values, vs dict_of_rows."""
    held = True
    uniq = {}
    for rows, cap in runs_seen:
        k = json.dumps([(r["res_name"], r["res_num"], r["chain_id"], r["group_label"], r["_dec"]) for r in rows])
        uniq.setdefault(k, (rows, cap))
    terms, exp = [], []
    for rows, cap in uniq.values():
        lit = core.coq_list([f"(mkpkarow {core.coq_string(r['res_name'])} {core.coq_Z(r['res_num'])} {core.coq_string(r['chain_id'])} {core.coq_string(r['group_label'])} {qx(r['_val'])})" for r in rows])
        terms.append(f"show_dict {lit}")
        exp.append("|".join(f"{k}={Fraction(float(v)).numerator}/{Fraction(float(v)).denominator}" for k, v in cap.items()))
    if not terms:
        return True
    try:
        res = core.run_cases("C06r", HEADER, terms, chunk=60)
    except core.CoqEvalError as e:
        ctx.broke("correspondence-broken", "rows->dict: model evaluation failed", str(e))
        return False
    for (rows, cap), m, x in zip(uniq.values(), res, exp):
        ctx.cov["correspondence_cases"] += 1
        ctx.count("rows->dict")
        if m != x:
            held = False
            ctx.cov["correspondence_disagreements"] += 1
            if sum(b["kind"] == "correspondence-broken" for b in ctx.broken) < 4:
                ctx.broke("correspondence-broken", "Model.Titration.dict_of_rows vs the dict main.non_trivial passes to apply_pka_values", f"impl={x!r} model={m!r}", {"kind": "rows", "rows": [[r["res_name"], r["res_num"], r["chain_id"], r["group_label"], r["_dec"]] for r in rows]})
    return held


def check_propka_labels(ctx):
    """Real PROPKA runs on builder peptides with plain, 4-digit and negative residue
    numbers: (i) the label layout used by the stub rows is DERIVED from these rows
    (field widths solved from the observed labels), (ii) Model.Titration.propka_label
    must give the same strings."""
    global LABEL_W
    from harness import builder as B

    base = ["LYS", "ASP", "HIS", "CYS", "TYR", "GLU", "ARG"]
    obs = []
    for seq in (mkseq(base, 1, "A"), mkseq(base, 996, "B"), mkseq(base[:4], -102, "A")):
        r = B.run_pdb2pqr(peptide_pdb(seq), ["--ff=PARSE", "--titration-state-method=propka", "--with-ph=7.0"], workdir=ctx.scratch_dir() / "propka")
        if r["exc"] is not None or r["result"] is None:
            ctx.broke("correspondence-broken", "real PROPKA run on a builder peptide failed", f"{label_of(seq)}: {r['exc']!r}")
            return False
        for row in r["result"][1]:
            lab = row["group_label"]
            rtype = lab[:3].strip() if lab[:2] in ("N+", "C-") else row["res_name"]
            obs.append((rtype, int(row["res_num"]), row["chain_id"], lab, row["res_name"]))
    sols = [(w1, w2, w3) for w1 in range(1, 7) for w2 in range(1, 9) for w3 in range(1, 5)
            if all(f"{t:<{w1}s}{n:>{w2}d}{c:>{w3}s}" == lab for t, n, c, lab, _ in obs)]
    ok = True
    if len(sols) != 1:
        ok = False
        ctx.broke("correspondence-broken", "PROPKA group labels do not follow one fixed-width layout", f"solutions {sols}; labels {[o[3] for o in obs][:12]}")
    else:
        LABEL_W = sols[0]
    terms = [f"propka_label {core.coq_string(t)} {core.coq_Z(n)} {core.coq_string(c)}" for t, n, c, _l, _r in obs]
    try:
        res = core.run_cases("C06l", HEADER, terms, chunk=60)
    except core.CoqEvalError as e:
        ctx.broke("correspondence-broken", "propka_label: model evaluation failed", str(e))
        return False
    for m, o in zip(res, obs):
        ctx.cov["correspondence_cases"] += 1
        if m != o[3]:
            ok = False
            ctx.cov["correspondence_disagreements"] += 1
            ctx.broke("correspondence-broken", "Model.Titration.propka_label vs PROPKA's Group.label", f"impl={o[3]!r} model={m!r}")
    kinds = sorted({o[0] if o[0] in ("N+", "C-") else "side" for o in obs})
    ctx.count("propka:real-rows", len(obs))
    ctx.notes.append(f"real PROPKA rows: {len(obs)} groups, label widths {LABEL_W}, e.g. {[o[3] for o in obs if o[1] >= 1000 or o[1] < 0][:3]}")
    if "N+" not in kinds or "C-" not in kinds:
        ok = False
        ctx.broke("correspondence-broken", "real PROPKA no longer reports N+/C- groups", str(kinds))
    return ok


def corpus_cases():
    d = core.CORPUS / "C06"
    out = []
    if d.exists():
        for f in sorted(d.glob("*.json")):
            out.append(json.loads(f.read_text()))
    return out


def run_case(ctx, probe, case):
    """Execute one stored/replayed case; failures are reported through ctx.fail."""
    def tally():
        # F11 (terminus rows) is reproduced by any run that carries N+/C- rows; it is not what these cases are about
        skip = "C06-F11" if case.get("expect") == "passes" else None
        return len(ctx.failures) + sum(v for k, v in ctx.known_hits.items() if k != skip)

    before = tally()
    run_case_(ctx, probe, case)
    after = tally()
    if case.get("expect") == "passes" and after != before:
        ctx.notes.append(f"regression case of a fixed finding fails again: {case.get('regression_of')}")
    if case.get("expect") == "fails" and after == before:
        ctx.broke("correspondence-broken", f"refutation witness of {case.get('witness_of')} no longer fails on the real code: the model (decide / dict_of_rows) is out of date",
                  json.dumps(case), case)


def run_case_(ctx, probe, case):
    if case["kind"] in ("e2e", "sweep"):
        seq = mkseq(case["seq"], case.get("start", 1), case.get("chain", "A"), case.get("icode", ""))
    elif case["kind"] in ("struct", "struct-sweep"):
        seq = structures()[case["name"]]
    if case["kind"] in ("e2e", "struct"):
        if case.get("real"):
            rows = "real"
        elif case["kind"] == "e2e":
            rows = make_rows(seq, {(i, g): v for i, g, v in case["pkas"]})
        else:
            rows = [{"res_num": n, "ins_code": " ", "res_name": rn, "chain_id": c, "group_label": propka_label_py(g if g in ("N+", "C-") else rn, n, c),
                     "group_type": g, "pKa": float(v), "model_pKa": float(v), "buried": 0.0, "coupled_group": None, "_dec": v, "_group": g, "_val": float(v)} for rn, n, c, g, v in case["rows"]]
        obs = judge_run(ctx, probe, seq, case["ff"], case["ph"], rows, "case", case.get("entry", "parser"), tuple(case.get("opts", ())))
        if case.get("expect") == "passes" and obs["exc"] is None:
            # regression of a repaired finding: all atoms kept, default state kept, warning logged
            for i, g, _v in case["pkas"]:
                res = obs["residues"][i]
                key = key_side(res["name"], res["seq"], res["chain"])
                okr = (not [m for m in obs["missing"] if m[1] == res["seq"]] and observed_protonated(g, res) == DEFAULT_PROT[g]
                       and not [p for p in res["patches"] if p in OWN_PATCH.values()] and any(key in w for w in obs["warnings"]))
                ctx.evaluated(("regression", case.get("regression_of")), True)
                if not okr:
                    ctx.fail({"defect": "regression-of-fixed-finding", "ff": case["ff"], "group": g, "pos": res["pos"]},
                             f"regression case {case.get('regression_of')}: residue {res['name']} {res['seq']} is {res['ffname']} patches {res['patches']}, missing {obs['missing'][:3]}, warnings {obs['warnings'][:2]}", case)
    elif case["kind"] in ("sweep", "struct-sweep"):
        sweep(ctx, probe, seq, case["ff"], [case["ph_lo"], case["ph_hi"]], real=bool(case.get("real")), opts=tuple(case.get("opts", ())))
    elif case["kind"] == "witness-keys":
        # Coq witness of C06_key_collision_refuted on the real function
        from harness import builder as B

        s = B.setup_biomolecule(peptide_pdb(("ASP", "ASP")))
        bio = s["biomolecule"]
        for r in bio.residues:
            r.res_seq, r.chain_id = 10, "A"
        real = real_decisions(bio, "parse", "7.00", [("ASP 10 A", "9.00")])
        ctx.evaluated("witness-keys", True)
        if real[0] != [(0, "ASH")]:
            ctx.broke("correspondence-broken", "witness of C06_key_collision_refuted no longer behaves as the model says", repr(real), case)
        else:
            ctx.count("witness:key-collision-confirmed")


# --------------------------------------------------------------------------
# the check


def run(ctx):
    silence()
    ctx.cov["rule"] = (
        "decision level (exhaustive): 7 force-field names (6 built-ins + a user name) x 4 chain positions x 9 residue types (the 7 titratable, "
        "ALA, PRO) x 22 combinations of (N+, C-, side-chain) keys each absent / pKa above pH / equal / below, on the real apply_pka_values; "
        "random key cases (numbering, chain labels incl. blank, duplicate keys, malformed and stray keys); every reachable patch "
        "combination really applied and named. end to end (stubbed run_propka rows incl. N+/C- rows in PROPKA's layout): every side group x "
        "4 positions x 2 sides x 6 force fields, termini at 3 pH values, pH == pKa, pH sweeps of multi-group peptides; peptides numbered "
        "-105.., -2.., 997.., 9995.. and with an insertion code, chains A/B/C, with stub rows in PROPKA's own label layout (derived from real "
        "rows each run) and with PROPKA itself; PROPKA sweeps of a two-chain structure, a disulfide pair (bridged CYS must stay CYX) and a "
        "peptide with residues pre-named ASH/LYN/CYM/HIP/GLH/TYM; pH and pKa BOTH at full float resolution (pH = pKa +- k ulp, +-1e-12, "
        "+-1e-6, +-4e-3, +-4.9e-3, +-5.1e-3, +-0.3, random within 5e-3; pKa values with many decimals), the pH as text in 13 spellings, "
        "through three entry points (builder parser path, pdb2pqr.main.run_pdb2pqr, main_driver(Namespace)); the cell runs and one sweep "
        "also draw the other options that reach non_trivial with the titration (--noopt, --nodebump, both, --drop-water, --ffout, without "
        "--keep-chain, --neutraln/--neutralc for PARSE; internal residues always with defaults AND --noopt); every titratable group on the "
        "finished model must carry exactly the hydrogens of one of its states (counted before --ffout renaming); a titrated run that aborts "
        "while the untitrated run with the same options succeeds is a failure (condition run-lost); every run also checks that "
        "the float reaching apply_pka_values equals float(requested text); oracle (state decided by pKa vs the REQUESTED pH) = "
        "chemistry of the atoms present + direct look-ups in pdb2pqr's loaded force field. A group evaluation is non-trivial when "
        "pH vs pKa asks for the non-default state; distinct by (force field, group, position, side)"
    )
    gen_ok = regenerate(ctx)
    ok = core.proof_stage(ctx, "C06", THEOREMS, ALLOWED_AXIOMS) if gen_ok else False
    if not gen_ok:
        ctx.obligations.extend(THEOREMS)

    t_proof = ctx.elapsed()
    # ---- correspondence
    dec_ok, first_bad = check_decisions(ctx)
    t_dec = ctx.elapsed()
    name_ok = check_naming(ctx)
    lab_ok = check_propka_labels(ctx)
    corr_ok = dec_ok and name_ok and lab_ok
    t_corr = ctx.elapsed()

    # ---- search on the implementation
    probe = Probe()
    for c in corpus_cases():
        ctx.count("corpus")
        run_case(ctx, probe, c)
    seen = []
    runs = cell_runs(ctx)
    hot = not (ok and corr_ok)
    kopt = 0
    for ff in FFS6:
        for seq, ph, pk in runs:
            rows = make_rows(seq, pk)
            # internal residues: defaults AND --noopt AND a rotating option set; terminal ones: the rotating set (defaults included)
            kopt += 1
            rot = OPTSETS[kopt % len(OPTSETS)]
            internal = len(seq) == 3 and any(i == 1 and g not in ("N+", "C-") for (i, g) in pk)
            optsets = [(), ("--noopt",), rot] if internal else [rot]
            if ctx.thorough or hot:
                optsets = OPTSETS
            for opts in dict.fromkeys(optsets):
                obs = judge_run(ctx, probe, seq, ff, ph, rows, "cell", "parser", opts)
                ctx.count("cells:runs")
                ctx.count("options:" + (" ".join(opts) or "default"))
                if obs["cap"]:
                    seen.append((rows, obs["cap"]["dict"]))
                    if obs["cap"]["ff"] != ff.lower():
                        ctx.broke("correspondence-broken", "force-field name seen by apply_pka_values (ff_of_args)", f"--ff={ff} -> {obs['cap']['ff']!r}")
    # residue numbers over the whole PDB range, chain ids, an insertion code: stub rows in PROPKA's layout and PROPKA itself
    numbering = [mkseq(["ALA", "ASP", "HIS", "LYS", "ALA"], st, ch, ic) for st, ch, ic in ((-105, "A", ""), (-2, "B", ""), (997, "A", ""), (9995, "C", ""), (5, "A", "A"))]
    for seq in numbering:
        pk = {(1, "ASP"): "3.80", (2, "HIS"): "6.50", (3, "LYS"): "10.50", (0, "N+"): "8.00", (4, "C-"): "3.20"}
        for ff in (("AMBER", "PARSE", "CHARMM") if not (ctx.thorough or hot) else FFS6):
            for ph in ("2.00", "12.00"):
                rows = make_rows(seq, pk)
                obs = judge_run(ctx, probe, seq, ff, ph, rows, "numbering")
                ctx.count("numbering:stub-runs")
                if obs["cap"]:
                    seen.append((rows, obs["cap"]["dict"]))
        for ph in ("2.00", "12.00"):
            judge_run(ctx, probe, seq, "PARSE", ph, "real", "numbering-real")
            ctx.count("numbering:real-propka-runs")
    # pH AND pKa at full float resolution (pKa +- k ulp, +-1e-12, +-1e-6, +-4e-3, +-4.9e-3, +-5.1e-3, +-0.3, random within
    # 5e-3), the pH as text in several spellings, through the three entry points that carry the pH
    k = 0
    quick_pick = (0, 1, 2, 9, 10, 11, 12, 13, 14, 19)
    for t, pks in FULL_RES_PKA.items():
        sq, idx = layout(t, "M")
        sq = mkseq(sq)
        for pk in (pks if (ctx.thorough or hot or t in ("ASP", "GLU")) else pks[:1]):
            phs = near_values(float(pk), ctx.rng)
            if not (ctx.thorough or hot):
                phs = [phs[i] for i in quick_pick if i < len(phs)]
            rows = make_rows(sq, {(idx, t): pk})
            for ph in phs:
                entry = ENTRIES[k % 3]
                k += 1
                for ff in (("PARSE", "AMBER") if k % 4 == 0 else ("PARSE",)):
                    obs = judge_run(ctx, probe, sq, ff, ph, rows, "resolution", entry)
                    ctx.count(f"resolution:{entry}")
                    if obs["cap"]:
                        seen.append((rows, obs["cap"]["dict"]))
    sq, idx = layout("HIS", "M")
    sq = mkseq(sq)
    spell = {"7.0": ("7", "7.0", "7.000001", "6.999999", "07.00", "7e0", "+7.0", "0", "14", "14.0"), "1.0": ("1e0", "0.1e1", "1.0000000000000002"),
             "7.5": ("07.50", "7.5e0", "7.4999999999999991", "+7.25")}
    for pk, texts in spell.items():
        rows = make_rows(sq, {(idx, "HIS"): pk})
        for n, text in enumerate(texts):
            for entry in (("parser", "run_pdb2pqr") if (ctx.thorough or hot) else (("parser", "run_pdb2pqr")[n % 2],)):
                judge_run(ctx, probe, sq, "PARSE", text, rows, "spelling", entry)
                ctx.count("resolution:spellings")
    # mixed structures with PROPKA itself: two chains, a disulfide, residues pre-named in a variant state
    for st in structures().values():
        for ff in (("AMBER", "PARSE") if not (ctx.thorough or hot) else FFS6):
            sweep(ctx, probe, st, ff, ["1.00", "5.00", "7.50", "9.50", "11.50", "13.50"] if not ctx.thorough else [f"{x / 2:.2f}" for x in range(0, 29)], real=True)
    # a pKa table that claims a bridged cysteine titrates: it must stay CYX
    ds = structures()["disulfide"]
    for ff in ("AMBER", "PARSE"):
        rows = [{"res_num": 2, "ins_code": " ", "res_name": "CYS", "chain_id": "A", "group_label": propka_label_py("CYS", 2, "A"), "group_type": "CYS",
                 "pKa": 8.0, "model_pKa": 8.0, "buried": 0.0, "coupled_group": None, "_dec": "8.00", "_group": "CYS", "_val": 8.0}]
        judge_run(ctx, probe, ds, ff, "12.00", rows, "bridge")
    phs_q = ["0.00", "3.50", "4.20", "5.50", "7.50", "9.50", "11.50", "14.00"]
    phs_t = [f"{x / 4:.2f}" for x in range(0, 57)]
    peptides = list(SWEEP_PEPTIDES[:2])
    if ctx.thorough or hot:
        peptides = list(SWEEP_PEPTIDES)
        for _ in range(12 if ctx.thorough else 6):
            peptides.append(mkseq([ctx.rng.choice(TITRATABLE + ["ALA", "SER", "PRO", "GLY"]) for _ in range(ctx.rng.randint(2, 6))],
                                  ctx.rng.choice([1, 1, -3, 998, 5000]), ctx.rng.choice(["A", "B", "Z"])))
    for seq in peptides:
        for ff in FFS6:
            sweep(ctx, probe, seq, ff, phs_t if ctx.thorough else phs_q)
    for ff in (("PARSE", "CHARMM") if not (ctx.thorough or hot) else FFS6):  # the same sweep without hydrogen optimisation / debumping
        sweep(ctx, probe, peptides[0], ff, phs_t if ctx.thorough else phs_q, opts=("--noopt", "--nodebump"))
    t_e2e = ctx.elapsed()
    rows_ok = check_rows_to_dict(ctx, seen)
    corr_ok = corr_ok and rows_ok
    ctx.notes.append(f"wall: generate+proof {t_proof:.0f}s, decision table {t_dec - t_proof:.0f}s, naming+labels {t_corr - t_dec:.0f}s, end-to-end {t_e2e - t_corr:.0f}s")
    if ctx.thorough:
        real_propka_sweep(ctx, probe)

    ctx.sample({"e2e_cell": {"seq": list(runs[6][0]), "ff": "AMBER", "ph": runs[6][1], "rows": [[r["res_name"], r["res_num"], r["group_label"], r["_dec"]] for r in make_rows(runs[6][0], runs[6][2])],
                             "observed": {k: v for k, v in e2e(ctx, runs[6][0], "AMBER", runs[6][1], make_rows(runs[6][0], runs[6][2])).items() if k in ("charge", "missing", "warnings", "exc")}}})
    ctx.sample({"obligation": "C06_never_dropped_exact: forall ff t pos s, In ff six_ffs -> In pos proper_positions -> safe_cell (lostf ff) ff t pos s = negb (f10_cell ff t pos s)"})
    ctx.cov["exhaustive"] = True
    ctx.trusted += [
        "generators gen/ff_tables.py, gen/topology.py, gen/titration.py (tables regenerated from the repo on this run; formal-charge table hand-written chemistry)",
        "hand model Model/Titration.v: decide/keys/dict tied by exhaustive differential execution against Biomolecule.apply_pka_values; naming tied to aa.py set_state by the generated table and by real patch application",
        "stub for main.run_propka (row layout validated against one real PROPKA run); PROPKA itself is an oracle",
        "end-to-end oracle: atoms present in the written PQR, direct Forcefield.get_params look-ups, textbook protonation chemistry",
    ]
    ctx.assumptions += [
        "pH and pKa are finite floats; the model compares rationals (two-decimal values are used in the differential runs, incl. pH == pKa)",
        "one-residue chains (N+C) are outside the proved statements (they lose OXT in every state); they are covered by the exhaustive correspondence and the end-to-end search",
        "residue keys are (name, number, chain): residues differing only in insertion code collide (C06_key_collision_refuted, explored, not counted as a finding)",
    ]


def real_propka_sweep(ctx, probe):
    """Thorough tier: real PROPKA on a stored structure over pH 0..14: nothing
    dropped because of titration, total charge non-increasing."""
    from harness import builder as B

    pdb = core.REPO / "tests" / "data" / "1A1P.pdb"
    if not pdb.exists():
        ctx.notes.append("1A1P.pdb not found: real PROPKA sweep skipped")
        return
    text = pdb.read_text()
    for ff in ("PARSE", "AMBER"):
        base = B.run_pdb2pqr(text, [f"--ff={ff}", "--noopt"], workdir=ctx.scratch_dir() / "real")
        bmiss = set()
        if base["result"] is not None:
            bmiss = {(a.residue.res_seq, a.residue.chain_id, a.name) for a in base["result"][0]}
        prev = None
        for ph in range(0, 15):
            r = B.run_pdb2pqr(text, [f"--ff={ff}", "--noopt", "--titration-state-method=propka", f"--with-ph={ph}"], workdir=ctx.scratch_dir() / "real")
            ctx.count("real-propka:runs")
            case = {"kind": "real", "pdb": "1A1P.pdb", "ff": ff, "ph": ph}
            ctx.evaluated(("real", ff, ph), True)
            if r["exc"] is not None or r["result"] is None:
                ctx.fail({"defect": "run-aborted", "ff": ff, "input": "1A1P"}, f"1A1P {ff} pH {ph}: {r['exc']!r}", case)
                prev = None
                continue
            missed, _df, bio = r["result"]
            extra = {}
            for a in missed:
                k = (a.residue.res_seq, a.residue.chain_id, a.name)
                if k not in bmiss:
                    extra.setdefault(id(a.residue), (a.residue, []))[1].append(a.name)
            for res, names in extra.values():
                tp = [p for p in res.patches if p in TITR_PATCHES]
                l = probe.lost(ff, res.ffname)
                if tp and (l is None or l):
                    sig = {"defect": "unsupported-state-applied", "ff": ff, "group": res.name, "patch": tp[-1], "pos": pos_of(res), "effect": "residue-unassigned"}
                else:
                    sig = {"defect": "atoms-dropped", "ff": ff, "residue": res.name, "pos": pos_of(res), "state": res.ffname}
                ctx.fail(sig, f"1A1P {ff} pH {ph}: {res} ({res.ffname}) loses {names[:4]}", case)
            q = sum(a["charge"] for a in B.parse_pqr(r["pqr_text"]))
            if prev is not None and q > prev[1] + 1e-3 and not extra:
                ctx.fail({"defect": "charge-increases", "ff": ff, "input": "1A1P"}, f"1A1P {ff}: charge {prev[1]:.3f} at pH {prev[0]} -> {q:.3f} at pH {ph}", case)
            prev = (ph, q)


def replay(ctx, data):
    silence()
    case = data.get("case")
    if not case and data.get("kind") in ("e2e", "sweep", "witness-keys"):
        case = data  # a corpus file
    if not case:
        print("replay: this file names a proof/correspondence obligation, not an input:", data.get("no_longer_checks"))
        return 1
    if case.get("kind") in ("decision", "keys", "naming", "rows"):
        print("replay: correspondence case", json.dumps(case)[:400], "- re-run ./check C06 to compare with the model")
        return 1
    if case.get("kind") == "real":
        print("replay: real PROPKA case; run pdb2pqr on tests/data/1A1P.pdb with", case)
        return 1
    probe = Probe()
    run_case(ctx, probe, case)
    for f in ctx.failures:
        print("replay: FAILS:", f["what"])
    for k, n in ctx.known_hits.items():
        print(f"replay: known finding {k} reproduced {n}x (not counted)")
    if not ctx.failures:
        print("replay: passes")
    return 1 if ctx.failures else 0
