"""C08 - the PQR file is a faithful, re-readable serialisation of the model."""

import argparse
import json
import re
from decimal import ROUND_HALF_EVEN, Decimal
from fractions import Fraction
import math

from harness import core

META = {
    "id": "C08",
    "level": "proof",
    "technique": (
        "Coq proofs over a string-level model of Atom.get_pqr_string / print_biomolecule_atoms / "
        "print_pqr re-spacing / Atom.from_pqr_line / read_pqr (+ column read-back), exact string "
        "correspondence with the implementation, refutation witnesses replayed on the real code"
    ),
    "level_text": (
        "PARTIAL with refutations. Proved for ALL atoms (no bounds, induction over strings/lists): within the "
        "column capacities (guard fixed_ok: serial<=5 chars, resSeq<=4, coordinates<=8, charge<=8, radius<=7, "
        "names<=4, chain/iCode<=1) slicing the default-layout line at the writer's columns returns every field; "
        "under the same capacities, with non-empty names and a chain id / insertion code that is not a digit "
        "(guard ws_ok), pdb2pqr's own reader applied to the --whitespace line returns the atom incl. chain id "
        "(--keep-chain) next to a 4-character resSeq and the insertion code (the repaired C08-F4/F5: print_pqr "
        "now puts a blank at every field boundary); both lifted to whole atom lists (serial = position, order "
        "kept, TER/END dropped by --whitespace) for PDB and mmCIF input (the '#' trailer is skipped by the "
        "reader: repaired C08-F7). The full statement over the property's quantifier is REFUTED by the model "
        "with witnesses (serial>=100000, resSeq>=10000, coordinate beyond 8 columns - format limits in both "
        "layouts; digit chain id read as resSeq, digit insertion code read as x - ambiguities of the token "
        "grammar), each replayed on the real code and listed as known findings. Model tied to the code by "
        "exact string equality of formatted lines, re-spaced lines, written files and parse results on "
        "boundary-heavy generated atoms, plus an independent write/read-back oracle on the real code."
    ),
    "level_note": (
        "Trusted: Coq kernel+vm_compute; Python's binary->decimal rounding of '%.3f'/'%.4f' (numbers enter the "
        "model as the already rounded integer + sign, computed with decimal); float()/int() modelled for ASCII "
        "tokens (exponent/underscore/inf/nan spellings are recognised but not evaluated); nan/inf coordinates "
        "not modelled; the hand model itself (tied by differential execution)."
    ),
    "design_ref": "DESIGN.md 4 C08, 5 F7",
}

THEOREMS = [
    "C08_fixed_roundtrip_partial",
    "C08_fixed_file_roundtrip_partial",
    "C08_fixed_serial_refuted",
    "C08_fixed_res_seq_refuted",
    "C08_fixed_coord_refuted",
    "C08_ws_roundtrip_partial",
    "C08_ws_guard",
    "C08_ws_file_roundtrip_partial",
    "C08_ws_chain_res_seq_roundtrip",
    "C08_ws_ins_code_roundtrip",
    "C08_ws_repaired_witnesses",
    "C08_ws_digit_chain_refuted",
    "C08_ws_digit_ins_refuted",
    "C08_chainflag_only_col22",
    "C08_respace_keeps_numeric_tokens",
    "C08_respace_keeps_numeric_tokens_wide",
    "C08_serial_is_position",
    "C08_order_preserved",
    "C08_ws_file_lines",
    "C08_nonvacuous",
]
ALLOWED_AXIOMS = []

HEADER = (
    "From Coq Require Import String List ZArith NArith.\n"
    "From PV Require Import Lib.Strings Lib.Decimal Model.PqrFormat.\n"
    "Import ListNotations.\nOpen Scope string_scope.\n"
)

FIELDS = ["type", "serial", "name", "res_name", "chain_id", "res_seq", "ins_code", "x", "y", "z", "ffcharge", "radius"]

# --------------------------------------------------------------------------
# atoms: python dicts <-> pdb2pqr Atom <-> Coq term


def mk_atom(d):
    from pdb2pqr.structures import Atom

    a = Atom()
    a.alt_loc = ""
    for k in FIELDS:
        setattr(a, k, d[k])
    return a


def fx(v, places):
    """(neg, magnitude in 10^-places units) exactly as '%.<places>f' rounds v."""
    q = Decimal(1).scaleb(-places)
    mag = int(abs(Decimal(v)).quantize(q, rounding=ROUND_HALF_EVEN).scaleb(places))
    return (math.copysign(1.0, v) < 0, mag)


def coq_fx(v, places):
    neg, mag = fx(v, places)
    return f"(mkfx {'true' if neg else 'false'} {mag}%N)"


def coq_ofx(v, places):
    return "None" if v is None else f"(Some {coq_fx(v, places)})"


def coq_atom(d):
    return (
        f"(mkatom {core.coq_string_bytes(d['type'])} {core.coq_Z(d['serial'])} {core.coq_string_bytes(d['name'])} "
        f"{core.coq_string_bytes(d['res_name'])} {core.coq_string_bytes(d['chain_id'])} {core.coq_Z(d['res_seq'])} "
        f"{core.coq_string_bytes(d['ins_code'])} {coq_fx(d['x'], 3)} {coq_fx(d['y'], 3)} {coq_fx(d['z'], 3)} "
        f"{coq_ofx(d['ffcharge'], 4)} {coq_ofx(d['radius'], 4)})"
    )


def coq_bool(b):
    return "true" if b else "false"


BASE = dict(type="ATOM", serial=1, name="CA", res_name="ALA", chain_id="A", res_seq=12, ins_code="", x=1.0, y=-2.5, z=3.125, ffcharge=-0.5, radius=1.8)


def variant(**kw):
    d = dict(BASE)
    d.update(kw)
    return d


# --------------------------------------------------------------------------
# generation (boundary heavy)

SERIALS = [1, 2, 9, 10, 99, 100, 999, 1000, 9999, 10000, 12345, 99998, 99999, 100000, 100001, 123456, 999999, 1000000, 9999999]
SERIALS_OUT = [0, -1, -999, -9999, -10000, 10000000]
RESSEQS = [-9999, -1000, -999, -998, -100, -99, -10, -9, -1, 0, 1, 9, 10, 99, 100, 999, 1000, 1001, 9998, 9999, 10000, 10001, 99999]
COORDS = [
    "0", "-0.0", "-0.0001", "-0.0004", "0.0004", "0.0005", "-0.0005", "0.0015", "0.0025", "1.0005", "9.9995", "99.9995",
    "999.999", "999.9995", "9999.999", "9999.9994", "9999.9995", "10000", "10000.123", "12345.678", "99999.999",
    "-9.9995", "-99.999", "-99.9995", "-999.999", "-999.9994", "-999.9995", "-1000", "-1000.123", "-9999.999",
    "-99999.999", "0.123", "-45.678", "100.5", "-100.5", "1e-7", "-1e-7",
]
CHARGES = ["0", "-0.0", "-0.00004", "-0.00005", "0.00005", "0.41", "-0.834", "1", "-1", "9.9999", "-9.9999", "-9.99994", None]
CHARGES_OUT = ["-9.99995", "-10", "10", "-10.5", "99.9999", "99.99995", "-99.9999", "100", "-100", "999.9999", "1000", "-1000.5"]
RADII = ["0", "1.8", "1.4870", "0.00005", "2.0", "9.9999", "9.99994", None]
RADII_OUT = ["9.99995", "10", "10.5", "99.9999", "99.99995", "100", "1234.5"]
ALPHA = "ABCDEFGHIJKLMNOPQRSTUVWXYZabcxyz0123456789'*+-_"
NAMES = ["N", "CA", "C", "O", "CB", "HA", "H", "OXT", "HD11", "HG21", "1HB", "2HD1", "O5'", "H5''", "C1*", "F", "L", "P", "FE", "CL", "FLIP", "LIP", "HF", "HB2P", "PILF", "HD1F", "FHD1", "Na+", "ZN", "O1P"]
NAMES_OUT = ["", "FHD11", "HD11F", "HD11FLIP", "FLIPHD11", "LFHD1PI", "FLIPFLIP", "ABCDE", "ABCDEFGH", "PHD11", "FLIPA", "C A", "FFFFF", "FLIPF"]
RESNAMES = ["A", "DA", "ALA", "HOH", "WAT", "LIG", "NALA", "CGLU", "HIP", "RA5", "G", "1PE", "Na+"]
RESNAMES_OUT = ["", "ABCDE", "NEUTRAL", "A B"]
CHAINS = ["", "A", "B", "z", "1", "9", "0", "-", "+", "_", "*"]
CHAINS_OUT = ["AB", "A1", "12"]
INS = ["", "", "", "A", "B", "Z", "1", "a"]
INS_OUT = ["AB", "ABCD"]


def rand_name(rng, lo, hi):
    return "".join(rng.choice(ALPHA) for _ in range(rng.randint(lo, hi)))


def rand_coord(rng):
    r = rng.random()
    if r < 0.55:
        return float(rng.choice(COORDS))
    if r < 0.8:
        return round(rng.uniform(-999, 9999), rng.choice([1, 2, 3, 4, 6]))
    if r < 0.9:
        return rng.uniform(-99999.999, 99999.999)
    e = rng.choice([10, 100, 1000, 10000])
    return rng.choice([1, -1]) * (e - rng.choice([0.0004, 0.0005, 0.0006, 0.001, 0]))


def gen_atom(rng, inside):
    """inside=True: stays within the property's quantifier (see in_quantifier)."""
    d = {}
    d["type"] = rng.choice(["ATOM", "ATOM", "HETATM"])
    d["serial"] = rng.choice(SERIALS if inside or rng.random() < 0.8 else SERIALS_OUT) if rng.random() < 0.8 else rng.randint(1, 9999999)
    d["name"] = rng.choice(NAMES) if rng.random() < 0.6 else rand_name(rng, 1, 4)
    d["res_name"] = rng.choice(RESNAMES) if rng.random() < 0.7 else rand_name(rng, 1, 4)
    d["chain_id"] = rng.choice(CHAINS) if rng.random() < 0.85 else rng.choice(ALPHA)
    d["res_seq"] = rng.choice(RESSEQS) if rng.random() < 0.8 else rng.randint(-9999, 99999)
    d["ins_code"] = rng.choice(INS)
    d["x"], d["y"], d["z"] = rand_coord(rng), rand_coord(rng), rand_coord(rng)
    c = rng.choice(CHARGES) if rng.random() < 0.7 else f"{rng.uniform(-2, 2):.{rng.choice([2, 4, 5, 7])}f}"
    d["ffcharge"] = None if c is None else float(c)
    r = rng.choice(RADII) if rng.random() < 0.7 else f"{rng.uniform(0, 3):.{rng.choice([2, 4, 5, 7])}f}"
    d["radius"] = None if r is None else float(r)
    if not inside:
        k = rng.random()
        if k < 0.15:
            d["name"] = rng.choice(NAMES_OUT)
        elif k < 0.25:
            d["res_name"] = rng.choice(RESNAMES_OUT)
        elif k < 0.33:
            d["chain_id"] = rng.choice(CHAINS_OUT)
        elif k < 0.40:
            d["ins_code"] = rng.choice(INS_OUT)
        elif k < 0.55:
            d["ffcharge"] = float(rng.choice(CHARGES_OUT))
        elif k < 0.70:
            d["radius"] = float(rng.choice(RADII_OUT))
        elif k < 0.78:
            d[rng.choice("xyz")] = rng.choice([1, -1]) * rng.choice([100000.0, 123456.789, 999999.9996, 1e7, 1e12])
    return d


def single_boundary_atoms():
    """Every field alone at width-1 / width / width+1 on an otherwise plain atom."""
    out = []
    for s in SERIALS:
        out.append(variant(serial=s))
    for r in RESSEQS:
        out.append(variant(res_seq=r))
        out.append(variant(res_seq=r, chain_id=""))
    for c in COORDS:
        for k in "xyz":
            out.append(variant(**{k: float(c)}))
    for q in CHARGES:
        out.append(variant(ffcharge=None if q is None else float(q)))
    for r in RADII:
        out.append(variant(radius=None if r is None else float(r)))
    for n in NAMES:
        out.append(variant(name=n))
        out.append(variant(name=n, res_name="NALA"))
    for n in RESNAMES:
        out.append(variant(res_name=n))
    for c in CHAINS:
        out.append(variant(chain_id=c))
        out.append(variant(chain_id=c, res_seq=-999))
    for i in INS:
        out.append(variant(ins_code=i))
        out.append(variant(ins_code=i, res_seq=9999, type="HETATM"))
    out.append(variant(type="HETATM", serial=99999, name="HD11", res_name="LIG1", chain_id="Z", res_seq=-999, ins_code="X", x=-999.999, y=9999.999, z=-0.0, ffcharge=-99.9999, radius=99.9999))
    return out


def outside_atoms():
    out = []
    for s in SERIALS_OUT:
        out.append(variant(serial=s))
    for n in NAMES_OUT:
        out.append(variant(name=n))
    for n in RESNAMES_OUT:
        out.append(variant(res_name=n))
    for c in CHAINS_OUT:
        out.append(variant(chain_id=c))
    for i in INS_OUT:
        out.append(variant(ins_code=i))
    for q in CHARGES_OUT:
        out.append(variant(ffcharge=float(q)))
        out.append(variant(ffcharge=float(q), z=-999.999))
    for r in RADII_OUT:
        out.append(variant(radius=float(r)))
    return out


def in_quantifier(d):
    def tok(s, lo, hi):
        return lo <= len(s) <= hi and not any(c.isspace() for c in s)

    return (
        d["type"] in ("ATOM", "HETATM")
        and 1 <= d["serial"] <= 9999999
        and tok(d["name"], 1, 4)
        and tok(d["res_name"], 1, 4)
        and tok(d["chain_id"], 0, 1)
        and -9999 <= d["res_seq"] <= 99999
        and tok(d["ins_code"], 0, 1)
        and all(fx(d[k], 3)[1] <= 99999999 for k in "xyz")
        and (d["ffcharge"] is None or fx(d["ffcharge"], 4)[1] <= 99999)
        and (d["radius"] is None or (fx(d["radius"], 4)[1] <= 99999 and not fx(d["radius"], 4)[0]))
    )


# --------------------------------------------------------------------------
# implementation drivers


def impl_line(d, cf):
    return mk_atom(d).get_pqr_string(chainflag=cf)


def impl_print_pqr(ctx, lines, whitespace, is_cif=False):
    """main.print_pqr on the given pqr_lines -> file text."""
    from pdb2pqr import main as pmain

    path = ctx.scratch_dir() / "out.pqr"
    ns = argparse.Namespace(output_pqr=str(path), whitespace=whitespace)
    pmain.print_pqr(ns, lines, [], [], is_cif)
    return path.read_text()


def canon_float(v):
    return v


def impl_parse(line):
    """Atom.from_pqr_line -> comparable tuple."""
    from pdb2pqr.structures import Atom

    try:
        a = Atom.from_pqr_line(line)
    except ValueError:
        return "ValueError"
    except IndexError:
        return "IndexError"
    if a is None:
        return "NONE"
    return impl_tuple(a)


def impl_tuple(a):
    return ("ATOM", a.type, a.serial, a.name, a.res_name, a.chain_id, a.res_seq, a.ins_code, a.x, a.y, a.z, a.charge, a.radius)


PF_RE = re.compile(r"^(-?)(\d+)e-(\d+)$")


def pf_to_float(s):
    m = PF_RE.match(s)
    if not m:
        raise ValueError(f"bad pfloat {s!r}")
    fr = Fraction(int(m.group(2)), 10 ** int(m.group(3)))
    v = float(fr)
    return -v if m.group(1) else v


def model_parse(s):
    """show_presult string -> the tuple impl_parse returns."""
    if s in ("NONE", "ValueError", "IndexError", "UNSUPPORTED"):
        return s
    if not s.startswith("ATOM:"):
        return ("?", s)
    p = s[5:].split("|")
    if len(p) != 12:
        return ("?", s)

    def opt(x):
        return None if x == "N" else x[2:]

    return ("ATOM", p[0], int(p[1]), p[2], p[3], opt(p[4]), int(p[5]), opt(p[6]), *[pf_to_float(x) for x in p[7:12]])


def same_parse(a, b):
    if isinstance(a, str) or isinstance(b, str):
        return a == b
    if len(a) != len(b) or a[:8] != b[:8]:
        return False
    return all(x == y for x, y in zip(a[8:], b[8:]))


COLS = {"type": (0, 6), "serial": (6, 11), "name": (12, 16), "res_name": (16, 20), "chain_id": (21, 22), "res_seq": (22, 26), "ins_code": (26, 27), "x": (30, 38), "y": (38, 46), "z": (46, 54), "ffcharge": (54, 62), "radius": (62, 69)}
PLAIN = re.compile(r"^[+-]?(\d+\.?\d*|\.\d+)$")
PLAIN_INT = re.compile(r"^[+-]?\d+$")


def slice_line(line):
    """Model-independent column reader of the default layout (writer's columns)."""
    out = {}
    for k, (a, b) in COLS.items():
        out[k] = line[a:b].strip()
    return out


def show_sliced(s):
    """Render slice_line's result the way Model.show_fatom does."""

    def oi(t):
        return str(int(t)) if PLAIN_INT.match(t) else ("ERR" if not re.match(r"^[+-]?\d+(_\d+)*$", t) else str(int(t)))

    def of(t):
        if not PLAIN.match(t):
            return "ERR"
        neg = t.startswith("-")
        body = t.lstrip("+-")
        ip, _, fp = body.partition(".")
        return f"{'-' if neg else ''}{int(ip + fp)}e-{len(fp)}"

    return "|".join([s["type"], oi(s["serial"]), s["name"], s["res_name"], s["chain_id"], oi(s["res_seq"]), s["ins_code"], of(s["x"]), of(s["y"]), of(s["z"]), of(s["ffcharge"]), of(s["radius"])])


# --------------------------------------------------------------------------
# independent oracle: compare what was read back with the atom


def expected_values(d, keep_chain):
    return {
        "type": d["type"],
        "serial": d["serial"],
        "name": d["name"],
        "res_name": d["res_name"],
        "chain_id": d["chain_id"] if keep_chain else "",
        "res_seq": d["res_seq"],
        "ins_code": d["ins_code"],
        "x": d["x"],
        "y": d["y"],
        "z": d["z"],
        "ffcharge": 0.0 if d["ffcharge"] is None else d["ffcharge"],
        "radius": 0.0 if d["radius"] is None else d["radius"],
    }


TOL = {"x": 0.0005, "y": 0.0005, "z": 0.0005, "ffcharge": 0.00005, "radius": 0.00005}


def field_ok(k, want, got):
    """got is a string (column slice / token) or an already parsed value."""
    try:
        if k in ("serial", "res_seq"):
            return int(got) == want
        if k in TOL:
            return abs(float(got) - want) <= TOL[k] * (1 + 1e-9) + 1e-12
    except (ValueError, TypeError):
        return False
    return got == want


def causes(d, keep_chain, whitespace, line=None):
    """The defect classes that explain a failed read-back of this atom (no
    model involved): list of (explained fields, signature).  Capacity classes
    follow from the atom's VALUES; the fusion classes (repaired C08-F4/F5, kept
    so that a regression is reported under its own signature) need the fused
    token to be present in the written line."""
    out = []
    site = "Atom.get_common_string_rep"
    if len(str(d["serial"])) > 5:
        out.append(({"serial"}, {"site": site, "field": "serial", "condition": "overflow-5-columns"}))
    if len(str(d["res_seq"])) > 4:
        out.append(({"res_seq"}, {"site": site, "field": "res_seq", "condition": "overflow-4-columns"}))
    for k in "xyz":
        neg, mag = fx(d[k], 3)
        if (neg and mag >= 1000000) or (not neg and mag >= 10000000):
            out.append(({k}, {"site": site, "field": "coordinate", "condition": "overflow-8-columns"}))
    if whitespace and line is not None:
        toks = line.split()
        rsf = str(d["res_seq"]).rjust(4)[:4].strip()
        chain = d["chain_id"][:1] if keep_chain else ""
        if chain != "" and len(toks) > 4 and toks[4] != chain and toks[4].startswith(chain + rsf):
            out.append(({"*"}, {"site": "main.print_pqr", "field": "chain_id+res_seq", "condition": "whitespace-fused"}))
        if d["ins_code"] != "" and any(t.endswith(rsf + d["ins_code"]) for t in toks[4:6]):
            out.append(({"*"}, {"site": "main.print_pqr", "field": "res_seq+ins_code", "condition": "whitespace-fused"}))
    return out


def digit_chain(d, keep_chain):
    return keep_chain and PLAIN_INT.match(d["chain_id"]) is not None


def numeric_ins(d):
    """The insertion code is a token float() accepts (one character: a digit)."""
    try:
        float(d["ins_code"])
        return d["ins_code"] != ""
    except ValueError:
        return False


def check_default(d, keep_chain, line):
    """Column read-back of one default-layout line. -> list of (signature, what)."""
    want = expected_values(d, keep_chain)
    got = slice_line(line.rstrip("\n"))
    bad = {k for k in want if not field_ok(k, want[k], got[k])}
    if len(line.rstrip("\n")) != 69:
        bad.add("line-length")
    return explain(bad, causes(d, keep_chain, False), "default-layout", f"line={line!r}")


def explain(bad, cs, site, detail):
    res = []
    left = set(bad)
    for fields, sig in cs:
        if "*" in fields and left:
            res.append((sig, f"{sig['field']} {sig['condition']}: {detail}"))
            left = set()
        elif fields & left:
            res.append((sig, f"{sig['field']} {sig['condition']}: {detail}"))
            left -= fields
    for k in sorted(left):
        res.append(({"site": site, "field": k, "condition": "mismatch"}, f"field {k} not recovered: {detail}"))
    return res


def check_ws_tokens(d, keep_chain, line):
    """Plain split() of one --whitespace line."""
    want = expected_values(d, keep_chain)
    order = ["type", "serial", "name", "res_name"] + (["chain_id"] if keep_chain and d["chain_id"] != "" else []) + ["res_seq"] + (["ins_code"] if d["ins_code"] != "" else []) + ["x", "y", "z", "ffcharge", "radius"]
    toks = line.split()
    if len(toks) != len(order):
        bad = {"token-count"}
    else:
        bad = {k for k, t in zip(order, toks) if not field_ok(k, want[k], t)}
    return explain(bad, causes(d, keep_chain, True, line), "whitespace-layout/split", f"line={line!r}")


def check_ws_reader(d, keep_chain, parsed, line):
    """pdb2pqr's own reader on one --whitespace line (parsed = impl_parse tuple)."""
    want = expected_values(d, keep_chain)
    cs = causes(d, keep_chain, True, line)
    if digit_chain(d, keep_chain):
        cs = cs + [({"*"}, {"site": "Atom.from_pqr_line", "field": "chain_id", "condition": "numeric-chain-read-as-res_seq"})]
    if numeric_ins(d):
        cs = cs + [({"*"}, {"site": "Atom.from_pqr_line", "field": "ins_code", "condition": "numeric-ins-code-read-as-x"})]
    if isinstance(parsed, str):
        bad = {"raises-" + parsed}
    else:
        got = dict(zip(["type", "serial", "name", "res_name", "chain_id", "res_seq", "ins_code", "x", "y", "z", "ffcharge", "radius"], parsed[1:]))
        got["chain_id"] = got["chain_id"] or ""
        got["ins_code"] = got["ins_code"] or ""
        bad = {k for k in want if not field_ok(k, want[k], got[k])}
    return explain(bad, cs, "whitespace-layout/from_pqr_line", f"line={line!r} read={parsed!r}")


def oracle_atom(ctx, d, lines):
    """lines: {(cf, ws): text of the atom's line}. Runs all read-backs; returns failures."""
    fails = []
    for cf in (False, True):
        fails += [(s, w, {"layout": "default", "keep_chain": cf}) for s, w in check_default(d, cf, lines[(cf, False)])]
        wl = lines[(cf, True)]
        fails += [(s, w, {"layout": "whitespace", "keep_chain": cf}) for s, w in check_ws_tokens(d, cf, wl)]
        fails += [(s, w, {"layout": "whitespace", "keep_chain": cf}) for s, w in check_ws_reader(d, cf, impl_parse(wl), wl)]
    return fails


class LinesNotOnePerAtom(RuntimeError):
    pass


def real_lines(ctx, atoms):
    """For each atom the four real lines, through get_pqr_string and main.print_pqr."""
    res = [dict() for _ in atoms]
    for cf in (False, True):
        raw = [impl_line(d, cf) + "\n" for d in atoms]
        for ws in (False, True):
            text = impl_print_pqr(ctx, raw, ws)
            got = text.split("\n")
            if got and got[-1] == "":
                got.pop()
            if len(got) != len(atoms):
                # main.print_pqr must write one line per atom record: find the atoms whose own line is dropped or
                # multiplied (each fed alone) and report them as failing inputs before giving up on this batch
                nrep = 0
                for d, ln in zip(atoms, raw):
                    one = impl_print_pqr(ctx, [ln], ws).split("\n")
                    if one and one[-1] == "":
                        one.pop()
                    if len(one) != 1:
                        nrep += 1
                        if nrep <= 3:
                            ctx.fail({"site": "main.print_pqr", "condition": "atom-line-dropped" if not one else "atom-line-multiplied", "layout": "whitespace" if ws else "default", "record": d.get("type")},
                                     f"print_pqr wrote {len(one)} lines for the atom line {ln!r} (keep_chain={cf}, whitespace={ws})", {"atom": d, "print_lines": True, "keep_chain": cf, "whitespace": ws})
                raise LinesNotOnePerAtom(f"print_pqr wrote {len(got)} lines for {len(atoms)} atoms (ws={ws}); {nrep} atoms fail alone")
            for r, l in zip(res, got):
                r[(cf, ws)] = l + "\n"
    return res


def class_key(d):
    def clen(v):
        return len(f"{v:.3f}")

    return (
        d["type"], len(str(d["serial"])), len(d["name"]), len(d["res_name"]), d["chain_id"] == "", d["chain_id"].isdigit(),
        len(str(d["res_seq"])), d["ins_code"] == "", clen(d["x"]), clen(d["y"]), clen(d["z"]),
        None if d["ffcharge"] is None else len(f"{d['ffcharge']:.4f}"), None if d["radius"] is None else len(f"{d['radius']:.4f}"),
    )


# --------------------------------------------------------------------------
# refutation witnesses of Properties/C08.v, replayed on the real code

BASE_READ = ("ATOM", "ATOM", 1, "CA", "ALA", None, 12, None, 1.0, -2.5, 3.125, -0.5, 1.8)


def rd(**kw):
    """impl_parse tuple of the base atom with some fields replaced."""
    names = ["", "type", "serial", "name", "res_name", "chain_id", "res_seq", "ins_code", "x", "y", "z", "charge", "radius"]
    return tuple(kw.get(n, v) for n, v in zip(names, BASE_READ))


WITNESSES = [
    # (theorem, atom, in_quantifier, observation on the real code that the theorem states)
    # -- refutations (known findings that stay)
    ("C08_fixed_serial_refuted", variant(serial=100000), True, lambda L, P: L[(False, False)] == "ATOM  10000  CA  ALA    12       1.000  -2.500   3.125 -0.5000 1.8000\n" and slice_line(L[(False, False)])["serial"] == "10000"),
    ("C08_fixed_res_seq_refuted", variant(res_seq=10000), True, lambda L, P: slice_line(L[(False, False)])["res_seq"] == "1000"),
    ("C08_fixed_coord_refuted(+)", variant(x=10000.123), True, lambda L, P: slice_line(L[(False, False)])["x"] == "10000.12"),
    ("C08_fixed_coord_refuted(-)", variant(x=-1000.123), True, lambda L, P: slice_line(L[(False, False)])["x"] == "-1000.12"),
    ("C08_ws_digit_chain_refuted", variant(chain_id="1"), True, lambda L, P: not isinstance(P[(True, True)], str) and P[(True, True)][5] is None and P[(True, True)][6] == 1 and P[(True, True)][8] == 12.0 and P[(True, True)][12] == -0.5),
    ("C08_ws_digit_ins_refuted", variant(ins_code="1"), True, lambda L, P: L[(False, True)].split() == ["ATOM", "1", "CA", "ALA", "12", "1", "1.000", "-2.500", "3.125", "-0.5000", "1.8000"] and P[(False, True)] == rd(x=1.0, y=1.0, z=-2.5, charge=3.125, radius=-0.5)),
    # -- repaired defects: the former refutation witnesses must round-trip (C08_ws_repaired_witnesses)
    ("C08_ws_repaired_witnesses(F4 chain+resSeq)", variant(res_seq=1000), True, lambda L, P: L[(True, True)] == "ATOM       1  CA   ALA A 1000        1.000   -2.500    3.125  -0.5000  1.8000\n" and P[(True, True)] == rd(chain_id="A", res_seq=1000) and P[(False, True)] == rd(res_seq=1000)),
    ("C08_ws_repaired_witnesses(F5 resSeq+iCode)", variant(ins_code="B"), True, lambda L, P: L[(False, True)] == "ATOM       1  CA   ALA     12 B      1.000   -2.500    3.125  -0.5000  1.8000\n" and L[(True, True)] == "ATOM       1  CA   ALA A   12 B      1.000   -2.500    3.125  -0.5000  1.8000\n" and P[(False, True)] == rd(ins_code="B") and P[(True, True)] == rd(chain_id="A", ins_code="B")),
    ("C08_ws_repaired_witnesses(z|charge)", variant(ffcharge=-10.5), False, lambda L, P: L[(False, True)].split() == ["ATOM", "1", "CA", "ALA", "12", "1.000", "-2.500", "3.125", "-10.5000", "1.8000"] and P[(False, True)] == rd(charge=-10.5)),
    ("C08_ws_repaired_witnesses(charge|radius)", variant(radius=10.5), False, lambda L, P: L[(False, True)].split() == ["ATOM", "1", "CA", "ALA", "12", "1.000", "-2.500", "3.125", "-0.5000", "10.5000"] and P[(False, True)] == rd(radius=10.5)),
    ("C08_nonvacuous(edge_atom_ws4)", variant(type="HETATM", serial=99999, name="HD11", res_name="LIG1", chain_id="Z", res_seq=-999, ins_code="X", x=-999.999, y=9999.999, z=-0.0, ffcharge=-9.9999, radius=9.9999), True, lambda L, P: P[(True, True)][1:8] == ("HETATM", 99999, "HD11", "LIG1", "Z", -999, "X") and P[(False, True)][5:8] == (None, -999, "X")),
]


def replay_cif_witness(ctx):
    """C08_ws_repaired_witnesses, last part (repaired C08-F7): the --whitespace file
    of mmCIF input is the atom line + '#', and io.read_pqr returns the atom."""
    import io as _io

    from pdb2pqr import io as pio

    lines = pio.print_biomolecule_atoms([mk_atom(BASE)], False)
    text = impl_print_pqr(ctx, lines, True, True)
    want = "ATOM       1  CA   ALA     12        1.000   -2.500    3.125  -0.5000  1.8000\n#\n"
    try:
        got = [impl_tuple(a) for a in pio.read_pqr(_io.StringIO(text))]
    except (ValueError, IndexError) as e:
        got = type(e).__name__
    return text == want and got == [BASE_READ], f"text={text!r} read={got!r}"


# --------------------------------------------------------------------------
# token and malformed-line streams

INT_TOKS = ["0", "7", "-7", "+7", "007", "-0", "1_000", "1__0", "_1", "1_", "+", "-", "_", "--1", "+-1", "1.0", "1e3", "0x10", "12B", "A12", "A", "1-2", "9999999999999999999999", "-_1", "1_2_3", "+1_0"]
FLOAT_TOKS = ["1.000", "-2.500", "0.0", "-0.000", ".5", "5.", "-.5", "+.5", ".", "-", "+", "1e5", "1E-3", "1.e5", ".e5", "e5", "1e", "1e+", "1e+5", "1_0.5", "1._5", "1_.5", "1.5_0", "1__0.0", "inf", "-inf", "+Infinity", "iNf", "nan", "-NAN", "nane", "infinit", "1.0.0", "1,0", "0x1p3", "12B", "B", "A1000", "3.125-10.5000", "-0.500010.5000", "--1.0", "1-", "1e5.0", "1e_5", "00012.50", "+00.0"]
JUNK = INT_TOKS + FLOAT_TOKS + ["ATOM", "HETATM", "ATOM12345", "HETATM123456", "ATOMX", "ATO", "HETATMX1", "REMARK", "TER", "END", "HEADER", "JRNL", "CA", "ALA", "A", "1", "12", "-5", "1.5", "2.25", "-3.125", "0.5000", "1.8000", "#", "#1", "A#"]


def gen_line(rng):
    """A line for Atom.from_pqr_line: mostly well-formed PQR token lists with
    perturbations, plus junk."""
    r = rng.random()
    toks = [rng.choice(["ATOM", "HETATM"]), str(rng.choice([1, 42, 99999, 100000])), rng.choice(NAMES), rng.choice(RESNAMES)]
    if rng.random() < 0.5:
        toks.append(rng.choice(["A", "B", "1", "-", "+", "_", "A1", "1_0", "+5"]))
    toks.append(str(rng.choice([1, -5, 1000, 12])))
    if rng.random() < 0.25:
        toks.append(rng.choice(["A", "B", "1", "e", "inf", "nan", "1e5", "E", "-", ".", "1_0", "5.", "x1"]))
    toks += [f"{rng.uniform(-99, 99):.3f}" for _ in range(3)] + [f"{rng.uniform(-1, 1):.4f}", f"{rng.uniform(0, 3):.4f}"]
    if r < 0.35:
        pass
    elif r < 0.5:
        toks = toks[: rng.randint(0, len(toks))]
    elif r < 0.65:
        toks[rng.randrange(len(toks))] = rng.choice(JUNK)
    elif r < 0.75:
        toks.insert(rng.randrange(len(toks) + 1), rng.choice(JUNK))
    elif r < 0.85:
        toks = [toks[0] + toks[1]] + toks[2:] if len(toks) > 1 else toks
    elif r < 0.93:
        toks = [rng.choice(JUNK) for _ in range(rng.randint(0, 12))]
    else:
        toks = [rng.choice(["REMARK", "TER", "END", "HEADER", "TITLE", "COMPND", "SOURCE", "KEYWDS", "EXPDTA", "AUTHOR", "REVDAT", "JRNL", "REMARKS", "remark", "#", "#", "#REMARK", "##"])] + toks[1:]
    sep = [" ", "  ", "\t", "   "]
    line = rng.choice(["", "", " "]) + "".join(t + rng.choice(sep) for t in toks)
    return line.rstrip(" \t") + rng.choice(["\n", "\n", "", " \n", "\r\n"]) if rng.random() < 0.9 else line


def py_token_class(t):
    try:
        i = str(int(t))
    except ValueError:
        i = "ERR"
    try:
        f = float(t)
        if PLAIN.match(t):
            f = ("NUM", f)
        else:
            f = "UNSUP"
    except ValueError:
        f = "NOT"
    return i, f


# --------------------------------------------------------------------------


def corr_atoms(ctx, atoms):
    """Exact equality model vs implementation for the given atoms. Returns
    (n_disagreements, real lines per atom)."""
    real = real_lines(ctx, atoms)
    terms = [f"show_atom_case {coq_atom(d)}" for d in atoms]
    res = core.run_cases("C08a", HEADER, terms, chunk=120)
    bad = 0
    for d, L, m in zip(atoms, real, res):
        ctx.cov["correspondence_cases"] += 1
        parts = m.split("@@")
        why = None
        if len(parts) != 8:
            why = f"model output has {len(parts)} parts"
        else:
            mf, mt, mwf, mwt, pf_, pt_, rf, rt = parts
            checks = [
                ("pqr_string false vs Atom.get_pqr_string(chainflag=False)", mf + "\n", L[(False, False)]),
                ("pqr_string true vs Atom.get_pqr_string(chainflag=True)", mt + "\n", L[(True, False)]),
                ("ws_line false vs main.print_pqr --whitespace", mwf, L[(False, True)]),
                ("ws_line true vs main.print_pqr --whitespace --keep-chain", mwt, L[(True, True)]),
                ("read_fixed (cf=false) vs column slicer", rf, show_sliced(slice_line(L[(False, False)].rstrip("\n")))),
                ("read_fixed (cf=true) vs column slicer", rt, show_sliced(slice_line(L[(True, False)].rstrip("\n")))),
            ]
            for what, a, b in checks:
                if a != b:
                    why = f"{what}: model={a!r} impl={b!r}"
                    break
            if why is None:
                for what, ms, key in (("from_pqr_line (ws, cf=false)", pf_, (False, True)), ("from_pqr_line (ws, cf=true)", pt_, (True, True))):
                    mp, ip = model_parse(ms), impl_parse(L[key])
                    if mp == "UNSUPPORTED":
                        ctx.count("corr:unsupported-float-spelling")
                        continue
                    if not same_parse(mp, ip):
                        why = f"{what} vs Atom.from_pqr_line: model={mp!r} impl={ip!r}"
                        break
        if why:
            bad += 1
            ctx.cov["correspondence_disagreements"] += 1
            if len([b for b in ctx.broken if b["kind"] == "correspondence-broken"]) < 4:
                ctx.broke("correspondence-broken", "Model.PqrFormat vs structures.Atom/main.print_pqr", why, {"atom": d})
    return bad, real


def corr_files(ctx, n):
    """print_biomolecule_atoms + print_pqr + read_pqr on atom lists, all flag combinations."""
    import io as _io

    from pdb2pqr import io as pio

    rng = ctx.rng
    cases = []
    for k in range(n):
        m = rng.choice([0, 1, 2, 3, 5, 8])
        atoms = []
        chain = rng.choice(["A", "", "B"])
        for i in range(m):
            if rng.random() < 0.3:
                chain = rng.choice(["A", "B", "", "C", "1"])
            d = gen_atom(rng, inside=rng.random() < 0.8)
            d["chain_id"] = chain
            atoms.append(d)
        cases.append((atoms, bool(k & 1), bool(k & 2), bool(k & 4)))
    terms = [f"show_file_case {coq_bool(cf)} {coq_bool(ws)} {coq_bool(cif)} {core.coq_list([coq_atom(d) for d in atoms])}" for atoms, cf, ws, cif in cases]
    res = core.run_cases("C08f", HEADER, terms, chunk=40)
    bad = 0
    for (atoms, cf, ws, cif), m in zip(cases, res):
        ctx.cov["correspondence_cases"] += 1
        ctx.count(f"file:cf={int(cf)},ws={int(ws)},cif={int(cif)}")
        objs = [mk_atom(d) for d in atoms]
        lines = pio.print_biomolecule_atoms(objs, cf)
        text = impl_print_pqr(ctx, lines, ws, cif)
        try:
            rd = pio.read_pqr(_io.StringIO(text))
            rd = [("ATOM", a.type, a.serial, a.name, a.res_name, a.chain_id, a.res_seq, a.ins_code, a.x, a.y, a.z, a.charge, a.radius) for a in rd]
        except ValueError:
            rd = "ValueError"
        except IndexError:
            rd = "IndexError"
        parts = m.split("@@")
        why = None
        if len(parts) != 3:
            why = f"model output has {len(parts)} parts"
        elif parts[0] != "".join(lines):
            why = f"print_atoms vs io.print_biomolecule_atoms: model={parts[0]!r} impl={''.join(lines)!r}"
        elif parts[1] != text:
            why = f"print_pqr vs main.print_pqr: model={parts[1]!r} impl={text!r}"
        else:
            if parts[2] in ("ValueError", "IndexError", "UNSUPPORTED"):
                mr = parts[2]
            else:
                mr = [model_parse(x) for x in parts[2].split("\n")] if parts[2] else []
            if mr == "UNSUPPORTED":
                ctx.count("corr:unsupported-float-spelling")
            elif isinstance(mr, str) or isinstance(rd, str):
                if mr != rd:
                    why = f"read_pqr: model={mr!r} impl={rd!r}"
            elif len(mr) != len(rd) or not all(same_parse(a, b) for a, b in zip(mr, rd)):
                why = f"read_pqr vs io.read_pqr: model={mr!r} impl={rd!r}"
        if why:
            bad += 1
            ctx.cov["correspondence_disagreements"] += 1
            if len([b for b in ctx.broken if b["kind"] == "correspondence-broken"]) < 4:
                ctx.broke("correspondence-broken", "Model.PqrFormat.print_atoms/print_pqr/read_pqr vs io/main", why, {"atoms": atoms, "cf": cf, "ws": ws, "cif": cif})
    return bad


def corr_lines(ctx, n):
    """Atom.from_pqr_line on well-formed and malformed lines; int()/float() token classes."""
    rng = ctx.rng
    lines = [gen_line(rng) for _ in range(n)]
    lines += ["#\n", "#", " # \n", "# comment 1 2\n", "#ATOM 1 CA ALA 1 1.0 2.0 3.0 0.5 1.5\n", "ATOM# 1\n", "A#\n",
              "ATOM 1 CA ALA A 1000 1.0 2.0 3.0 0.5 1.5\n", "ATOM 1 CA ALA A -999 B 1.0 2.0 3.0 0.5 1.5\n", "ATOM 1 CA ALA 12 B 1.0 2.0 3.0 0.5 1.5\n",
              "ATOM 1 CA ALA 12 1 1.0 2.0 3.0 0.5 1.5\n", "ATOM 1 CA ALA 1 12 1.0 2.0 3.0 0.5 1.5\n"]
    lines += ["", "\n", "   \n", "TER\n", "END", "ATOM\n", "HETATM 1\n", "ATOM 1 CA ALA 1 1.0 2.0 3.0 0.5 1.5\n", "ATOM 1 CA ALA 1 1.0 2.0 3.0 0.5 1.5 extra tokens\n",
              "ATOM 1 CA ALA A 1 B 1.0 2.0 3.0 0.5 1.5\n", "ATOM12345 CA ALA 1 1.0 2.0 3.0 0.5 1.5\n", "HETATM12345 CA ALA 1 1.0 2.0 3.0 0.5 1.5\n",
              "ATOM 1 CA ALA 1 1.0 2.0 3.0 0.5\n", "ATOM 1 CA ALA 1 2 3 4 5 6\n", "ATOM 1 CA ALA 1 1 2 3 4 5 6\n", "ATOM x CA ALA 1 1.0 2.0 3.0 0.5 1.5\n"]
    terms = [f"show_presult (from_pqr_line {core.coq_string_bytes(l)})" for l in lines]
    toks = sorted(set(INT_TOKS + FLOAT_TOKS + JUNK))
    terms += [f"show_token {core.coq_string_bytes(t)}" for t in toks]
    res = core.run_cases("C08l", HEADER, terms, chunk=300)
    bad = 0
    for l, m in zip(lines, res[: len(lines)]):
        ctx.cov["correspondence_cases"] += 1
        mp, ip = model_parse(m), impl_parse(l)
        ctx.count("line:" + (ip if isinstance(ip, str) else "atom"))
        if mp == "UNSUPPORTED":
            ctx.count("corr:unsupported-float-spelling")
            continue
        if not same_parse(mp, ip):
            bad += 1
            ctx.cov["correspondence_disagreements"] += 1
            if len([b for b in ctx.broken if b["kind"] == "correspondence-broken"]) < 4:
                ctx.broke("correspondence-broken", "Model.PqrFormat.from_pqr_line vs Atom.from_pqr_line", f"line={l!r} model={mp!r} impl={ip!r}", {"line": l})
    for t, m in zip(toks, res[len(lines) :]):
        ctx.cov["correspondence_cases"] += 1
        mi, _, mf = m.partition("/")
        pi, pf_ = py_token_class(t)
        okf = (mf == pf_) if isinstance(pf_, str) else (PF_RE.match(mf) is not None and pf_to_float(mf) == pf_[1])
        if mi != pi or not okf:
            bad += 1
            ctx.cov["correspondence_disagreements"] += 1
            if len([b for b in ctx.broken if b["kind"] == "correspondence-broken"]) < 4:
                ctx.broke("correspondence-broken", "Model.PqrFormat.py_int/py_float vs int()/float()", f"token={t!r} model={m!r} python=({pi!r},{pf_!r})", {"token": t})
    return bad


def load_corpus():
    out = []
    d = core.CORPUS / "C08"
    if d.exists():
        for f in sorted(d.glob("*.json")):
            for c in json.loads(f.read_text())["atoms"]:
                out.append({k: c[k] for k in FIELDS})
    return out


def replay_witnesses(ctx):
    """Each refutation witness of Properties/C08.v must behave on the real code
    exactly as the theorem states (and, inside the quantifier, fail the oracle)."""
    atoms = [w[1] for w in WITNESSES]
    real = real_lines(ctx, atoms)
    for (thm, d, inq, obs), L in zip(WITNESSES, real):
        P = {k: impl_parse(v) for k, v in L.items() if k[1]}
        ok = False
        try:
            ok = bool(obs(L, P))
        except Exception as e:  # noqa
            ok = False
        ctx.count("witness-replayed")
        if not ok:
            ctx.broke("correspondence-broken", f"witness of {thm} does not behave on the real code as the theorem states", f"atom={d!r} lines={L!r} parsed={P!r}", {"atom": d})
        if inq != in_quantifier(d):
            ctx.broke("harness-error", f"witness of {thm}: in_quantifier mismatch", str(d))
    ok, detail = replay_cif_witness(ctx)
    ctx.count("witness-replayed")
    if not ok:
        ctx.broke("correspondence-broken", "witness of C08_ws_repaired_witnesses ('#' trailer of mmCIF input) does not behave on the real code as the theorem states", detail, {"atom": BASE, "is_cif": True})


def judgeable(d):
    """The oracle's domain: in_quantifier with the charge / radius bound relaxed to
    the capacity of their columns (8 / 7 characters: 'whatever the magnitude of
    numbers'; |q| >= 10 and r >= 10 are written and read back exactly)."""
    if not in_quantifier(dict(d, ffcharge=None, radius=None)):
        return False
    q, r = d["ffcharge"], d["radius"]
    return (q is None or len(f"{q:.4f}") <= 8) and (r is None or (len(f"{r:.4f}") <= 7 and not fx(r, 4)[0]))


def search(ctx, atoms, real=None):
    """Independent write/read-back oracle on the real code."""
    if real is None:
        real = real_lines(ctx, atoms)
    nfail = 0
    for d, L in zip(atoms, real):
        inq = judgeable(d)
        ctx.count("search:in-quantifier" if inq else "search:outside-quantifier(skipped)")
        if not inq:
            continue
        ctx.evaluated(class_key(d), True, n=4)
        for sig, what, cfg in oracle_atom(ctx, d, L):
            if ctx.fail(sig, what, {"atom": d, **cfg}):
                nfail += 1
    return nfail


def expected_shape(atoms):
    """Record kinds of the default-layout file, from the INPUT: an atom line per
    atom, TER before an atom whose chain differs from the previous atom's, TER + END
    at the end."""
    out = []
    for i, d in enumerate(atoms):
        if i and d["chain_id"] != atoms[i - 1]["chain_id"]:
            out.append("TER")
        out.append("A")
    return out + ["TER", "END"]


def file_structure_oracle(ctx, atoms, objs, lines, text, cf, ws):
    """TER/END placement; psize's PQR reader on the written file; the --pdb-output
    writer (print_biomolecule_atoms(pdbfile=True)) read back by its columns."""
    from pdb2pqr import io as pio
    from pdb2pqr import psize as ppsize

    case = {"atoms": atoms, "keep_chain": cf, "whitespace": ws}
    recs = text.split("\n")
    if recs and recs[-1] == "":
        recs.pop()
    shape = ["A" if (r[:4] == "ATOM" or r[:6] == "HETATM") else r.strip() for r in recs]
    want = [k for k in expected_shape(atoms) if k == "A"] if ws else expected_shape(atoms)
    if shape != want:
        ctx.fail({"site": "io.print_biomolecule_atoms/main.print_pqr", "field": "TER/END records", "condition": "not at the chain changes of the input"}, f"records {shape} expected {want}", case)
    clean = [d for d in atoms if judgeable(d) and not causes(d, cf, False)]
    if len(clean) == len(atoms) and atoms:
        ps = ppsize.Psize()
        try:
            ps.parse_lines(text.splitlines(keepends=True))
            n = ps.gotatom + ps.gothet
            q = sum((d["ffcharge"] or 0.0) for d in atoms)
            rad = [d["radius"] or 0.0 for d in atoms]
            lo = [min(d[k] - r for d, r in zip(atoms, rad)) for k in "xyz"]
            hi = [max(d[k] + r for d, r in zip(atoms, rad)) for k in "xyz"]
            tol = 0.00056
            bad = n != len(atoms) or abs(ps.charge - q) > 0.00005 * len(atoms) + 1e-9
            bad = bad or any(a is None or abs(a - b) > tol for a, b in zip(list(ps.minlen) + list(ps.maxlen), lo + hi))
            detail = f"psize read {n} atoms charge {ps.charge} box {ps.minlen}..{ps.maxlen}; written {len(atoms)} atoms charge {q} box {lo}..{hi}"
        except (ValueError, IndexError) as e:
            bad, detail = True, f"psize.parse_lines raises {type(e).__name__}: {e}"
        ctx.evaluated(("psize-reader", len(atoms), cf, ws), True)
        ctx.count("psize-reader:files" + (":bad" if bad else ""))
        if bad:
            ctx.fail({"site": "psize.Psize.parse_lines", "field": "own PQR output", "condition": "numbers not recovered", "layout": "whitespace" if ws else "default"}, detail, case)
    if not ws:
        pobjs = [mk_atom(d) for d in atoms]
        for a in pobjs:
            a.occupancy, a.temp_factor, a.seg_id, a.element, a.charge = 1.0, 0.0, "", "", ""
        # Atom.get_pdb_string always prints the chain id (chainflag=True), whatever --keep-chain says
        plines = [l for l in pio.print_biomolecule_atoms(pobjs, cf, True) if l[:4] == "ATOM" or l[:6] == "HETATM"]
        ctx.evaluated(("pdb-writer", len(atoms), cf), True)
        if len(plines) != len(atoms):
            ctx.fail({"site": "io.print_biomolecule_atoms(pdbfile=True)", "field": "line-count", "condition": "atom lines lost or added"}, f"{len(plines)} lines for {len(atoms)} atoms", case)
        else:
            for i, (d, l) in enumerate(zip(atoms, plines)):
                d = dict(d, serial=i + 1)
                want_v = expected_values(d, True)
                gotv = slice_line(l.rstrip("\n"))
                badk = {k for k in ("type", "serial", "name", "res_name", "chain_id", "res_seq", "ins_code", "x", "y", "z") if not field_ok(k, want_v[k], gotv[k])}
                for sig, what in explain(badk, causes(d, True, False), "pdb-output-layout", f"line={l!r}"):
                    ctx.fail(sig, what, {"atom": d, "layout": "pdb-output", "keep_chain": cf})


HISTORY_SCRIPT = r"""
import json, sys, os, tempfile, argparse
from harness.props import c08
from pdb2pqr import io as pio, main as pmain
job = json.load(sys.stdin)
out = []
for atoms, cf, ws, cif in job:
    lines = pio.print_biomolecule_atoms([c08.mk_atom(d) for d in atoms], cf)
    f = tempfile.mktemp()
    pmain.print_pqr(argparse.Namespace(output_pqr=f, whitespace=ws), lines, [], [], cif)
    text = open(f).read(); os.unlink(f)
    out.append([text, [repr(c08.impl_parse(l)) for l in text.splitlines(keepends=True)]])
json.dump(out, sys.stdout)
"""


def search_history(ctx):
    """Process history: the same atom list written / read twice, with other lists
    (also failing ones) in between, on the same Atom objects, and in a fresh
    process - the file text and what the reader returns must be identical."""
    import subprocess
    import sys

    from pdb2pqr import io as pio

    rng = ctx.rng

    def mklist(n, inside):
        out, chain = [], rng.choice(["A", "", "1"])
        for _ in range(n):
            if rng.random() < 0.3:
                chain = rng.choice(["A", "B", "", "1"])
            d = gen_atom(rng, inside=inside)
            d["chain_id"] = chain
            out.append(d)
        return out

    def write(objs, cf, ws, cif):
        return impl_print_pqr(ctx, pio.print_biomolecule_atoms(objs, cf), ws, cif)

    def read(text):
        return [repr(impl_parse(l)) for l in text.splitlines(keepends=True)]

    lists = [mklist(6, True), mklist(5, False), [variant(res_seq=1000, ins_code="B"), variant(chain_id="B", serial=7)], mklist(4, True)]
    job, first = [], []
    for atoms in lists:
        for cf in (False, True):
            for ws in (False, True):
                cif = rng.random() < 0.3
                job.append((atoms, cf, ws, cif))
    sig = {"site": "process-history", "field": "", "condition": "result depends on earlier calls in the process"}
    objs_of = {id(a): [mk_atom(d) for d in a] for a in lists}
    for atoms, cf, ws, cif in job:
        t = write([mk_atom(d) for d in atoms], cf, ws, cif)
        first.append((t, read(t)))
    # again, in another order, on Atom objects that have been printed before (serials rewritten), readers re-run
    order = list(range(len(job)))
    rng.shuffle(order)
    for rnd in range(2):
        for i in order:
            atoms, cf, ws, cif = job[i]
            t = write(objs_of[id(atoms)], cf, ws, cif)
            r = read(t)
            ctx.evaluated(("history", i, rnd), True)
            if t != first[i][0]:
                ctx.fail(dict(sig, field="written file"), f"call {rnd + 2} wrote {t[:200]!r}, the first call {first[i][0][:200]!r}", {"atoms": atoms, "keep_chain": cf, "whitespace": ws, "is_cif": cif, "history": True})
            elif r != first[i][1]:
                ctx.fail(dict(sig, field="reader result"), f"call {rnd + 2} read {r[:3]}, the first call {first[i][1][:3]}", {"atoms": atoms, "keep_chain": cf, "whitespace": ws, "is_cif": cif, "history": True})
        order.reverse()
    # fresh process
    try:
        p = subprocess.run([sys.executable, "-c", HISTORY_SCRIPT], input=json.dumps(job), capture_output=True, text=True, timeout=120, cwd=str(core.VERIF))
        fresh = json.loads(p.stdout)
    except Exception as e:  # noqa
        ctx.broke("harness-error", "fresh-process run for the history search failed", f"{type(e).__name__}: {e} {locals().get('p') and p.stderr[-400:]}")
        return
    for i, ((atoms, cf, ws, cif), (t, r)) in enumerate(zip(job, fresh)):
        ctx.evaluated(("history-fresh", i), True)
        if t != first[i][0] or r != first[i][1]:
            ctx.fail(dict(sig, field="fresh process vs this process"), f"fresh process wrote/read {t[:160]!r} {r[:2]}; this process {first[i][0][:160]!r} {first[i][1][:2]}", {"atoms": atoms, "keep_chain": cf, "whitespace": ws, "is_cif": cif, "history": True})


CLI_SEQS = [["ALA", "GLY"], ["SER", "LYS", "ASP"], ["GLY", "HIS", "CYS"], ["THR", "GLU"]]


def search_cli(ctx, n):
    """Option lattice through the real CLI path (main.run_pdb2pqr): random
    --ff/--ffout/--whitespace/--keep-chain/--include-header/--pdb-output/
    --apbs-input/--noopt/--nodebump on small built peptides whose numbering,
    chain id, insertion code and position exercise the column boundaries.  The
    PQR file is read back and compared with the RETURNED biomolecule's atoms;
    options that must not touch the PQR atom records (--pdb-output,
    --apbs-input, --include-header) are toggled and the records compared."""
    import io as _io

    from harness import builder
    from pdb2pqr import io as pio
    from pdb2pqr import main as pmain

    rng = ctx.rng
    tmp = ctx.scratch_dir()
    for k in range(n):
        seq = rng.choice(CLI_SEQS)
        chain = rng.choice(["A", "B", "", "1", "z"])
        start = rng.choice([1, -5, -100, 98, 998, 9998])
        start = min(start, 9999 - len(seq) + 1)  # the PDB input format has four columns for the residue number
        icode = rng.choice(["", "", "B"])
        origin = rng.choice([(0.0, 0.0, 0.0), (-960.0, 9950.0, -0.5), (123.456, -78.901, 999.5)])
        atoms = builder.build_peptide(seq, chain=chain or "A", start=start, icode=icode, origin=origin)
        if chain == "":
            atoms = builder.set_chain(atoms, "")
        text = builder.to_pdb(atoms)
        inp = tmp / f"cli{k}.pdb"
        inp.write_text(text)
        ff = rng.choice(["AMBER", "PARSE", "CHARMM", "SWANSON"])
        opts = [f"--ff={ff}", "--log-level=CRITICAL"]
        if rng.random() < 0.5:
            opts.append("--ffout=" + rng.choice(["AMBER", "CHARMM", "PARSE"]))
        ws, cf = rng.random() < 0.5, rng.random() < 0.6
        opts += (["--whitespace"] if ws else []) + (["--keep-chain"] if cf else [])
        opts += [o for o in ("--noopt", "--nodebump", "--drop-water") if rng.random() < 0.5]
        extras = [o for o in ("--include-header", "PDBOUT", "APBS") if rng.random() < 0.6] or ["--include-header"]
        case = {"cli": True, "pdb": text, "options": opts, "extras": extras}
        outs = []
        for j, ex in enumerate(([], extras)):
            outp = tmp / f"cli{k}_{j}.pqr"
            exo = [f"--pdb-output={tmp / f'cli{k}_{j}.out.pdb'}" if e == "PDBOUT" else ("--apbs-input=" + str(tmp / f"cli{k}_{j}.in") if e == "APBS" else e) for e in ex]
            try:
                res = pmain.run_pdb2pqr(opts + exo + [str(inp), str(outp)])
                outs.append((outp.read_text(), res[2]))
            except BaseException as e:  # noqa
                if isinstance(e, KeyboardInterrupt):
                    raise
                outs.append((None, f"{type(e).__name__}: {e}"))
        ctx.evaluated(("cli", tuple(seq), chain, start, icode, origin[0], ff, ws, cf, tuple(extras)), True)
        ctx.count("cli:" + ("ws" if ws else "fixed") + ("+chain" if cf else ""))
        (t0, b0), (t1, b1) = outs
        if t0 is None or t1 is None:
            if (t0 is None) != (t1 is None):
                ctx.fail({"site": "main.main_driver", "field": "run", "condition": "outcome depends on --include-header/--pdb-output/--apbs-input"}, f"without extras: {b0 if t0 is None else 'ok'}; with {extras}: {b1 if t1 is None else 'ok'}", case)
            else:
                ctx.count("cli:run-raised(both)")
            continue
        if t0 != t1:
            ctx.fail({"site": "main.main_driver", "field": "PQR file", "condition": "changed by --include-header/--pdb-output/--apbs-input"}, f"with {extras}: {t1[:300]!r} without: {t0[:300]!r}", case)
        for ex in extras:
            f = tmp / (f"cli{k}_1.out.pdb" if ex == "PDBOUT" else f"cli{k}_1.in")
            if ex != "--include-header" and not (f.exists() and f.stat().st_size > 0):
                ctx.fail({"site": "main.main_driver", "field": ex, "condition": "requested output not written"}, str(f), case)
        got = [l for l in t0.split("\n") if l[:4] == "ATOM" or l[:6] == "HETATM"]
        model = b0.atoms
        if len(got) != len(model):
            ctx.fail({"site": "main.main_driver", "field": "line-count", "condition": "atom lines differ from the returned biomolecule"}, f"{len(got)} atom lines, {len(model)} atoms returned", case)
            continue
        for i, (a, line) in enumerate(zip(model, got)):
            d = {"type": a.type, "serial": i + 1, "name": a.name, "res_name": a.res_name, "chain_id": a.chain_id or "", "res_seq": a.res_seq, "ins_code": a.ins_code or "", "x": a.x, "y": a.y, "z": a.z, "ffcharge": a.ffcharge, "radius": a.radius}
            line += "\n"
            fl = check_default(d, cf, line) if not ws else check_ws_tokens(d, cf, line) + check_ws_reader(d, cf, impl_parse(line), line)
            for sig, what in fl:
                ctx.fail(sig, what, {"atom": d, "layout": "whitespace" if ws else "default", "keep_chain": cf, "via": "main.run_pdb2pqr " + " ".join(opts)})
        if ws:
            try:
                if len(pio.read_pqr(_io.StringIO(t0))) != len(model) and not any(numeric_ins({"ins_code": a.ins_code or ""}) for a in model):
                    ctx.fail({"site": "io.read_pqr", "field": "atom-count", "condition": "atoms lost"}, "read_pqr of the CLI output", case)
            except (ValueError, IndexError):
                pass  # classified per line above


def search_pipeline(ctx, nfiles):
    """Same oracle through io.print_biomolecule_atoms (serial = position, TER
    lines) and main.print_pqr, file level; includes one file whose serials
    pass 100000."""
    import io as _io

    from pdb2pqr import io as pio

    rng = ctx.rng
    jobs = []
    for k in range(nfiles):
        atoms = []
        chain = "A"
        for i in range(rng.choice([1, 3, 10, 30])):
            if rng.random() < 0.15:
                chain = rng.choice(["A", "B", "C", ""])
            d = gen_atom(rng, inside=True)
            d["chain_id"] = chain
            atoms.append(d)
        jobs.append(atoms)
    # a plain two-chain file (TER line inside): the mmCIF-input branch below always sees a file whose body is readable
    jobs.insert(0, [variant(name="N", res_seq=1000), variant(), variant(chain_id="B", res_seq=-100, name="O")])
    big = [variant(name=rng.choice(NAMES), res_seq=(i // 10) % 9000 + 1, x=(i % 977) * 0.731 - 300, chain_id="") for i in range(100003)]
    jobs.append(big)
    for atoms in jobs:
        isbig = len(atoms) > 1000
        for cf in (False, True):
            for ws in (False, True):
                if isbig and cf:
                    continue
                objs = [mk_atom(d) for d in atoms]
                lines = pio.print_biomolecule_atoms(objs, cf)
                text = impl_print_pqr(ctx, lines, ws)
                got = [l for l in text.split("\n") if l[:4] == "ATOM" or l[:6] == "HETATM"]
                ctx.evaluated(("file", len(atoms), cf, ws), True)
                if not isbig:
                    file_structure_oracle(ctx, atoms, objs, lines, text, cf, ws)
                if len(got) != len(atoms):
                    ctx.fail({"site": "main.print_pqr", "field": "line-count", "condition": "atom lines lost or added"}, f"{len(got)} atom lines for {len(atoms)} atoms", {"atoms": atoms[:50], "keep_chain": cf, "whitespace": ws})
                    continue
                idx = range(len(atoms)) if not isbig else list(range(0, 50)) + list(range(99990, len(atoms)))
                for i in idx:
                    d = dict(atoms[i])
                    d["serial"] = objs[i].serial  # print_biomolecule_atoms renumbers the model's atoms
                    line = got[i] + "\n"
                    if not ws:
                        fl = check_default(d, cf, line)
                    else:
                        fl = check_ws_tokens(d, cf, line) + check_ws_reader(d, cf, impl_parse(line), line)
                    for sig, what in fl:
                        ctx.fail(sig, what, {"atom": d, "layout": "whitespace" if ws else "default", "keep_chain": cf, "via": "print_biomolecule_atoms"})
                if ws and not isbig and len(atoms) <= 3:
                    # mmCIF input: same lines, is_cif=True appends '#'
                    tcif = impl_print_pqr(ctx, lines, ws, True)
                    ctx.evaluated(("file-cif", len(atoms), cf), True)
                    try:
                        rcif = pio.read_pqr(_io.StringIO(tcif))
                        if tcif != text + "#\n":
                            ctx.fail({"site": "main.print_pqr", "field": "cif-file", "condition": "not the atom lines + '#'"}, f"is_cif=True wrote {tcif[-80:]!r}", {"atoms": atoms, "keep_chain": cf, "is_cif": True})
                        elif all(not numeric_ins(a) for a in atoms) and len(rcif) != len(atoms):
                            ctx.fail({"site": "io.read_pqr", "field": "atom-count", "condition": "atoms lost"}, f"read {len(rcif)} of {len(atoms)} (mmCIF input)", {"atoms": atoms, "keep_chain": cf, "is_cif": True})
                    except (ValueError, IndexError) as e:
                        body_ok = True
                        try:
                            pio.read_pqr(_io.StringIO(text))
                        except (ValueError, IndexError):
                            body_ok = False
                        if tcif == text + "#\n" and body_ok:
                            ctx.fail({"site": "main.print_pqr", "field": "trailing-#", "condition": "cif-input-own-reader-raises"}, f"io.read_pqr raises {type(e).__name__} on the '#' trailer of a CIF-derived PQR", {"atoms": atoms, "keep_chain": cf, "is_cif": True})
                if ws and not isbig:
                    # io.read_pqr on the whole file must not lose atoms silently
                    try:
                        rd = pio.read_pqr(_io.StringIO(text))
                        if len(rd) != len(atoms):
                            ctx.fail({"site": "io.read_pqr", "field": "atom-count", "condition": "atoms lost"}, f"read {len(rd)} of {len(atoms)}", {"atoms": atoms, "keep_chain": cf})
                    except (ValueError, IndexError):
                        pass  # the per-line oracle above has classified the offending line


def run(ctx):
    ctx.cov["rule"] = (
        "atoms = every field alone at width-1/width/width+1 on a plain atom (serial, resSeq, x/y/z, charge, radius, "
        "1-4 char names incl. FLIP-letter names, chain ''/letter/digit/sign, iCode) + random combinations of the "
        "boundary pools + an outside-the-quantifier stream (long names/chains/iCodes, huge charge/radius) for "
        "correspondence only; each atom is rendered by the real code in all 4 --whitespace x --keep-chain "
        "combinations; search evaluations = (atom, combination) inside the quantifier, distinct by the tuple of "
        "rendered field widths / chain class / iCode presence; plus atom lists through print_biomolecule_atoms "
        "(TER lines, serial=position, one 100003-atom file) and a malformed-line stream for from_pqr_line"
    )
    ok = core.proof_stage(ctx, "C08", THEOREMS, ALLOWED_AXIOMS)
    rng = ctx.rng
    scale = 8 if ctx.thorough else 1
    atoms = load_corpus() + single_boundary_atoms() + outside_atoms()
    atoms += [gen_atom(rng, inside=True) for _ in range(500 * scale)]
    atoms += [gen_atom(rng, inside=False) for _ in range(200 * scale)]
    for d in atoms:
        ctx.count("atoms:in-quantifier" if in_quantifier(d) else "atoms:outside-quantifier")
    corr_broken = False
    real = None
    try:
        bad, real = corr_atoms(ctx, atoms)
        bad += corr_files(ctx, 64 * scale)
        bad += corr_lines(ctx, 400 * scale)
        corr_broken = bad > 0
        replay_witnesses(ctx)
    except core.CoqEvalError as e:
        corr_broken = True
        ctx.broke("correspondence-broken", "model evaluation failed", str(e))
    except LinesNotOnePerAtom as e:
        corr_broken = True
        ctx.broke("correspondence-broken", "main.print_pqr does not write one line per atom record (failing atoms reported separately)", str(e))
        atoms = [w[1] for w in WITNESSES][:0]  # the per-atom oracles need one line per atom: skip them for this batch
    corr_broken = corr_broken or any(b["kind"] == "correspondence-broken" for b in ctx.broken)
    # independent oracle on the real code
    search(ctx, atoms + [w[1] for w in WITNESSES])
    search_pipeline(ctx, 12 * scale)
    search_history(ctx)
    search_cli(ctx, 4 * scale)
    if not ok or corr_broken:
        extra = [gen_atom(rng, inside=True) for _ in range(6000)]
        for b in ctx.broken:
            c = b.get("case") or {}
            if isinstance(c, dict) and "atom" in c:
                extra.insert(0, c["atom"])
        search(ctx, extra)
    d0 = atoms[3]
    ctx.sample({"atom": d0, "default": impl_line(d0, True), "whitespace": impl_print_pqr(ctx, [impl_line(d0, True) + "\n"], True)})
    w4 = variant(res_seq=1000, ins_code="B")
    ctx.sample({"atom (chain A, resSeq 1000, iCode B)": w4, "whitespace_keep_chain_line": impl_print_pqr(ctx, [impl_line(w4, True) + "\n"], True), "own_reader": str(impl_parse(impl_print_pqr(ctx, [impl_line(w4, True) + "\n"], True)))})
    ctx.sample({"obligation": "C08_ws_roundtrip_partial: forall cf a, ws_ok cf a = true -> from_pqr_line (ws_line cf a) = PAtom (expected_ws cf a); ws_ok = fixed_ok (column capacities) + non-empty names + chain id / insertion code not a digit"})
    ctx.trusted += [
        "oracle: Python's binary->decimal rounding in '%.3f'/'%.4f' (the harness hands the model the rounded magnitude and the sign, computed with decimal.quantize ROUND_HALF_EVEN)",
        "modelled, not verified: Atom.get_common_string_rep/get_pqr_string/from_pqr_line, io.print_biomolecule_atoms/read_pqr, main.print_pqr (hand model Model/PqrFormat.v, tied by exact string/parse equality on generated cases)",
        "float()/int() modelled for ASCII tokens; values of exponent/underscore/inf/nan spellings are not computed (reported UNSUPPORTED and skipped)",
        "the search oracle (column slicer, split(), tolerances 0.0005 A / 0.00005) is independent of the model",
    ]
    ctx.assumptions += [
        "all strings ASCII; str.split/strip whitespace = ASCII whitespace",
        "coordinates, charges, radii are finite floats (nan/inf not modelled)",
        "quantifier made concrete as: serial 1..9999999, resSeq -9999..99999, names 1-4 blank-free chars, chain/iCode 0-1 chars, |coordinate| <= 99999.999, |charge| < 10, 0 <= radius < 10",
        "one non-empty chunk written by print_pqr = one line of the file (holds when no field contains a newline)",
    ]
    # composition with C07's ingest model: `pdb2pqr --clean` end to end (Properties/E2E_Clean.v), compared
    # byte for byte with the file the real CLI path writes
    from harness.props import e2e_clean

    e2e_clean.run_extra(ctx)


def replay(ctx, data):
    from harness.props import e2e_clean

    r = e2e_clean.replay_extra(ctx, data)
    if r is not None:
        return r
    case = data["case"]
    if "atoms" in case and case.get("is_cif"):
        import io as _io

        from pdb2pqr import io as pio

        atoms = [{k: a[k] for k in FIELDS} for a in case["atoms"]]
        lines = pio.print_biomolecule_atoms([mk_atom(d) for d in atoms], bool(case.get("keep_chain")))
        text = impl_print_pqr(ctx, lines, True, True)
        print(f"replay: --whitespace file for mmCIF input: {text!r}")
        try:
            got = pio.read_pqr(_io.StringIO(text))
        except (ValueError, IndexError) as e:
            print(f"replay: FAILS io.read_pqr raises {type(e).__name__}: {e}")
            return 1
        print(f"replay: io.read_pqr returns {len(got)} atoms for {len(atoms)} written")
        return 0 if len(got) == len(atoms) else 1
    if case.get("print_lines"):
        d = case["atom"]
        ln = impl_line(d, bool(case.get("keep_chain"))) + "\n"
        one = impl_print_pqr(ctx, [ln], bool(case.get("whitespace"))).split("\n")
        if one and one[-1] == "":
            one.pop()
        print(f"replay: print_pqr writes {len(one)} line(s) for {ln!r} ->", "FAILS" if len(one) != 1 else "passes")
        return 0 if len(one) == 1 else 1
    if "atom" not in case:
        print("replay: no atom in case (proof/correspondence break):", str(data.get("no_longer_checks"))[:300])
        return 1
    d = case["atom"]
    L = real_lines(ctx, [d])[0]
    fails = oracle_atom(ctx, d, L)
    for k, v in sorted(L.items()):
        print(f"replay: keep_chain={k[0]} whitespace={k[1]}: {v!r}")
    want = data.get("signature")
    hit = [f for f in fails if want is None or f[0] == want]
    for s, w, cfg in fails:
        print("replay: FAILS", s, cfg)
    if not fails:
        print("replay: passes")
    return 1 if hit or (fails and want is None) else 0
