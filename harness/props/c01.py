"""C01 - assigned charges and radii are exactly the selected force field's parameters."""

import json
import re
import subprocess
import sys
from decimal import Decimal

from harness import core

META = {
    "id": "C01",
    "level": "proof",
    "technique": "Coq proof (invariant induction over the rule fold) about a model of forcefield.py regenerated tables from the DAT/.names texts on every run; vm_compute table-equality obligations against pdb2pqr's loaded maps; differential runs on random user force fields and end-to-end lookups",
    "level_text": (
        "Proved for ALL parameter files and ALL .names rule lists: every entry of the force-field map is one data row of the DAT file "
        "(never defaulted, never charge from one row and radius from another); apply_force_field gives every atom exactly "
        "lookup(ffname, name) or reports it unassigned, and hits+misses partition the atoms. For each of the six built-in force "
        "fields a generated obligation (vm_compute) shows that the model run on the two file TEXTS equals the map pdb2pqr's loader "
        "builds (~10^4 entries each), so a change to forcefield.py or to a data file that alters any entry breaks a proof obligation. "
        "End-to-end runs compare every written atom's charge/radius with the model's lookup."
    ),
    "level_note": (
        "Trusted: Coq kernel+vm_compute; the generator gen/ff_tables.py (independent DAT/XML readers; Python re for regex matching over the "
        "closed name universe; name interning); float(text) parsing (checked: repr round trip to the file's decimal); XML SAX chunking "
        "of text nodes (files with entities/CDATA are rejected). Modelled, not verified: forcefield.py, Biomolecule.apply_force_field."
    ),
    "design_ref": "DESIGN.md 4 C01",
}

FFS = ["AMBER", "CHARMM", "PARSE", "PEOEPB", "SWANSON", "TYL06"]
THEOREMS = [
    "C01_build_sound",
    "C01_build_frame",
    "C01_assign_hit_exact",
    "C01_assign_miss_exact",
    "C01_assign_partition",
    "C01_same_map_lookup",
] + [f"C01_table_eq_{f}" for f in FFS] + ["C01_nonvacuous"]

SCALE = 8


def regenerate(ctx, only="ff_tables,topology"):
    p = subprocess.run([sys.executable, str(core.VERIF / "gen" / "all.py"), "--only", only], capture_output=True, text=True, env={**__import__("os").environ, "VERIF_REPO": str(core.REPO)})
    if p.returncode != 0:
        ctx.broke("generator-broken", "gen/all.py (tables from /repo)", (p.stdout + p.stderr)[-2000:])
        return False
    return True


# ---- random user force fields ------------------------------------------------

REGEX_SHAPES = [
    lambda rng, names: rng.choice(names),
    lambda rng, names: "[NC]?" + rng.choice(names) + "$",
    lambda rng, names: "N...$",
    lambda rng, names: "C...$",
    lambda rng, names: "[NC]?(?!" + rng.choice(names) + "$)...$",
    lambda rng, names: "...",
    lambda rng, names: "(N|C)?" + rng.choice(names)[:2] + ".",
    lambda rng, names: "NEUTRAL-[NC]" + rng.choice(names),
]


def gen_user_ff(rng, defnames):
    """(dat_text, names_text) in the documented formats."""
    base = rng.sample([n for n in defnames if len(n) == 3], 6) + rng.sample(defnames, 4)
    extra = ["XAA", "LIG", "ZN2"]
    dat_res = rng.sample(base, rng.randint(3, 7)) + rng.sample(extra, rng.randint(0, 2))
    atoms = ["N", "CA", "C", "O", "CB", "H", "HA", "H1", "H2", "H3", "OXT", "HB1", "HB2", "HB3", "OW", "HW", "SG", "HG"]
    lines = ["# user parameters"]
    for r in dat_res:
        for a in rng.sample(atoms, rng.randint(2, 6)):
            q = Decimal(rng.randint(-9999, 9999)) / Decimal(10000)
            rad = Decimal(rng.randint(0, 25000)) / Decimal(10000)
            grp = rng.choice(["", "\tCT", " X"])
            lines.append(f"{r}\t{a}\t{q}\t{rad}{grp}")
        if rng.random() < 0.2:  # duplicate row: later wins
            lines.append(f"{r}\t{rng.choice(atoms)}\t0.1234\t1.5000")
        if rng.random() < 0.1:
            lines.append("")
    names = ["<?xml version='1.0'?>", "<patches>"]
    for _ in range(rng.randint(0, 6)):
        rx = rng.choice(REGEX_SHAPES)(rng, base)
        names.append(" <residue>")
        names.append(f"  <name>{rx}</name>")
        r = rng.random()
        if r < 0.45:
            names.append(f"  <useresname>{rng.choice(dat_res if rng.random() < 0.9 else base)}</useresname>")
        elif r < 0.6 and "(" in rx and "(?!" not in rx:
            names.append(f"  <useresname>$group{rng.choice(['', 'X'])}</useresname>")
        for _ in range(rng.randint(0, 3)):
            a, u = rng.choice(atoms), rng.choice(atoms)
            names.append(f"  <atom><name>{a}</name><useatomname>{u}</useatomname></atom>")
        names.append(" </residue>")
    names.append("</patches>")
    return "\n".join(lines) + "\n", "\n".join(names) + "\n"


def user_case(ctx, k, definition, gen):
    d = ctx.scratch_dir()
    dat, names = gen_user_ff(ctx.rng, list(definition.map.keys()))
    (d / f"u{k}.DAT").write_text(dat)
    (d / f"u{k}.names").write_text(names)
    # implementation
    try:
        dump, nres = gen.impl_dump(None, definition, str(d / f"u{k}.DAT"), str(d / f"u{k}.names"))
        impl = "ok"
    except KeyError:
        dump, nres, impl = [], 0, "keyerror"
    except Exception as e:  # other exception classes are outside the model: count, skip
        return None, f"impl-{type(e).__name__}", dat, names
    rows, rules = gen.tables(None, definition, d / f"u{k}.DAT", d / f"u{k}.names")
    # local interning
    ids = {}

    def I(n):
        return ids.setdefault(n, len(ids) + 1)

    class L:
        def __call__(self, n):
            return I(n)

    term = f"check_user\n {gen.coq_rows(rows, L())}\n {gen.coq_rules(rules, L())}\n {gen.coq_dump(dump, L())}\n {nres}%nat"
    return term, impl, dat, names


def history_cases(ctx, definition, gen, n):
    """Load HISTORIES in one process: the same parameter-file PATH is loaded again with another .names file,
    then with other content, then with the first pair again (what a notebook / service / `run_pdb2pqr` called
    several times does).  Two oracles: (a) each load's dump is a model case like any other (appended to the
    correspondence batch); (b) model-independent: the dump of a load inside the history must equal the dump of
    the same two texts written to paths that were never loaded before (the selected force field is a function of
    the selected files' content, not of what was loaded earlier)."""
    from common import GenError

    d = ctx.scratch_dir()
    terms, impls, raw = [], [], []

    def load(dat_path, names_path):
        try:
            dump, nres = gen.impl_dump(None, definition, str(dat_path), str(names_path))
            return "ok", dump, nres
        except KeyError:
            return "keyerror", [], 0
        except Exception as e:  # outside the model
            return f"impl-{type(e).__name__}", None, 0

    def term_of(dat_path, names_path, dump, nres):
        rows, rules = gen.tables(None, definition, dat_path, names_path)
        ids = {}
        L = lambda nm: ids.setdefault(nm, len(ids) + 1)  # noqa: E731
        return f"check_user\n {gen.coq_rows(rows, L)}\n {gen.coq_rules(rules, L)}\n {gen.coq_dump(dump, L)}\n {nres}%nat"

    for k in range(n):
        names_pool = list(definition.map.keys())
        datA, namesA = gen_user_ff(ctx.rng, names_pool)
        datB, namesB = gen_user_ff(ctx.rng, names_pool)
        if ctx.rng.random() < 0.5:  # a names file that differs from A only by dropped sections / aliases
            secs = namesA.split(" <residue>")
            if len(secs) > 2:
                drop = ctx.rng.randrange(1, len(secs))
                cut = secs[:drop] + secs[drop + 1 :]
                namesB = " <residue>".join(cut)
                if "</patches>" not in namesB:
                    namesB += "</patches>\n"
        P = d / f"h{k}.DAT"
        steps = [("A", datA, "a", namesA), ("A", datA, "b", namesB), ("B", datB, "b", namesB), ("A", datA, "a", namesA)]
        hist = []
        for j, (dl, dat, nl, nm) in enumerate(steps):
            P.write_text(dat)
            N = d / f"h{k}{nl}.names"
            N.write_text(nm)
            impl, dump, nres = load(P, N)
            hist.append(f"{dl}+{nl}")
            ctx.count(f"history:step{j}:{impl}")
            if dump is None:
                continue
            # (b) same texts, fresh paths
            FP, FN = d / f"h{k}_fresh{j}.DAT", d / f"h{k}_fresh{j}.names"
            FP.write_text(dat)
            FN.write_text(nm)
            fimpl, fdump, fnres = load(FP, FN)
            ctx.evaluated(("history", core.sha(dat + nm), j), j > 0)
            if (fimpl, fdump, fnres) != (impl, dump, nres):
                ds, fs = set(dump or []), set(fdump or [])
                ex = sorted(ds ^ fs)[:3]
                ctx.fail(
                    {"site": "forcefield.Forcefield", "condition": "load-depends-on-earlier-loads-in-the-process"},
                    f"user force field history {hist} on one parameter-file path: load {j} gives {impl}/{len(dump or [])} entries, the same texts on never-loaded paths give {fimpl}/{len(fdump or [])}; differing entries e.g. {ex}",
                    {"history": [{"dat": s[1], "names": s[3]} for s in steps[: j + 1]], "step": j, "dat": dat, "names": nm},
                )
            # (a) model case
            try:
                terms.append(term_of(P, N, dump, nres))
                impls.append(impl)
                raw.append((dat, nm))
            except GenError:
                ctx.count("history:generator-refused")
            for f in (FP, FN):
                f.unlink()
    return terms, impls, raw


# ---- end-to-end -----------------------------------------------------------------

E2E_QUICK = [("1AJJ.pdb", []), ("1A1P.pdb", []), ("cterm_hid.pdb", []), ("5vav_cyclic_peptide.pdb", [])]
E2E_THOROUGH = E2E_QUICK + [("1BX8.pdb", []), ("1K1I.pdb", []), ("1AFS.pdb", ["--noopt"]), ("1US0.pdb", ["--noopt", "--nodebump"])]


def e2e_run(ctx, pdb, ff, extra):
    """Run the real pipeline; return per-atom records + PQR lines."""
    from pdb2pqr import aa, biomolecule as pbio, main as pmain, na

    d = ctx.scratch_dir()
    out = d / "e.pqr"
    src = pdb if str(pdb).startswith("/") else core.REPO / "tests" / "data" / pdb
    args = pmain.build_main_parser().parse_args([f"--ff={ff}", *extra, str(src), str(out)])
    cap = {}
    orig = pbio.Biomolecule.apply_force_field

    def wrapped(self, ff_):
        hits, misses = orig(self, ff_)
        recs = []
        groups = []
        for residue in self.residues:
            lname = residue.ffname if isinstance(residue, (aa.Amino, aa.WAT, na.Nucleic)) else residue.name
            groups.append((lname, [id(a) for a in residue.atoms]))
            for atom in residue.atoms:
                recs.append((id(atom), lname, atom.name, str(residue)))
        cap["recs"] = recs
        cap["groups"] = groups
        cap["hits"] = [(id(a), a.ffcharge, a.radius) for a in hits]
        cap["misses"] = [id(a) for a in misses]
        return hits, misses

    pbio.Biomolecule.apply_force_field = wrapped
    try:
        missed, _, bio = pmain.main_driver(args)
        err = None
    except BaseException as e:  # noqa
        err = f"{type(e).__name__}: {e}"
        missed = []
    finally:
        pbio.Biomolecule.apply_force_field = orig
    lines = []
    if out.exists():
        lines = [l for l in out.read_text().splitlines() if l.startswith(("ATOM", "HETATM"))]
    for f in d.glob("e.*"):
        f.unlink()
    cap["lines"] = lines
    cap["err"] = err
    cap["missed_final"] = [id(a) for a in (missed or [])]
    return cap


def state_variant_runs(ctx, thorough):
    """Builder tripeptides covering the 20 residues + named variants at N / internal / C positions
    (c02.triple_cases) through the real pipeline; atoms are keyed by the state name the residue SHOULD
    have (c02.expected_states: the harness' own naming table), so a residue that is looked up under
    another state's name shows up as wrong parameters."""
    from harness.props import c02 as C2

    cases = C2.triple_cases(ctx.rng, FFS, ctx.rng.randrange(0, 7))
    if not thorough:
        cases = [c for k, c in enumerate(cases) if k % 5 == ctx.seed % 5]
    # nucleic-acid strands (5'/internal/3' states), waters, multi-chain, hidden chain end, cyclic, no-OXT inputs
    extra = C2.other_cases(ctx.rng, thorough)
    cases += extra if thorough else [c for k, c in enumerate(extra) if k % 3 == ctx.seed % 3]
    out = []
    d = ctx.scratch_dir()
    for k, case in enumerate(cases):
        try:
            text, expect = C2.pdb_text(case["spec"], ter=case.get("ter", True))
        except Exception as e:  # builder trouble: count, do not judge
            ctx.count(f"state-run:skipped-{type(e).__name__}")
            continue
        f = d / f"state_{k}.pdb"
        f.write_text(text)
        cap = e2e_run(ctx, str(f), case["ff"], case.get("opts", []))
        f.unlink()
        sp0 = case["spec"][0]
        label = "builder:" + "-".join(sp0["segments"][0] if "segments" in sp0 else sp0.get("seq", ["?"]))
        ctx.count(f"state-run:{case['ff']}")
        if "groups" not in cap or len(cap["groups"]) != len(expect):
            ctx.count("state-run:no-assignment-or-residue-count")
            continue
        exp_groups, relabel = [], {}
        for e, (obs, ids) in zip(expect, cap["groups"]):
            es = C2.expected_states(e, case.get("opts", []), case["ff"])
            if es is None:
                continue
            names_, _ = es
            lname = obs if obs in names_ else names_[0]
            if obs not in names_:
                ctx.count("state-run:observed-name-differs-from-expected")
            exp_groups.append((lname, ids))
            for i in ids:
                relabel[i] = lname
        cap["recs"] = [(i, relabel[i], a, r) for i, _, a, r in cap["recs"] if i in relabel]
        cap["exp_groups"] = exp_groups
        cap["state_run"] = True
        cap["case"] = case
        out.append((label, case["ff"], case.get("opts", []), cap))
    return out


def userff_runs(ctx, thorough):
    """--userff/--usernames end to end: a built-in DAT file with ALL rows of one or two state-qualified
    residue names removed (names the structure really uses, chosen from the base run). Metamorphic oracle,
    independent of the model: atoms of residues whose state name was removed must be unassigned in the
    user run (never written with defaulted or borrowed parameters); every other atom keeps the base
    run's parameters."""
    from harness.props import c02 as C2
    from pdb2pqr import forcefield as pff

    sys.path.insert(0, str(core.VERIF / "gen"))
    from common import load_definition

    d = ctx.scratch_dir()
    dat_dir = core.REPO / "pdb2pqr" / "dat"
    bases = FFS if thorough else ["AMBER", "PARSE"]
    n_per = 6 if thorough else 4
    for base in bases:
        dat_txt = (dat_dir / f"{base}.DAT").read_text()
        names_file = dat_dir / f"{base}.names"
        cases = [c for c in C2.triple_cases(ctx.rng, [base], ctx.rng.randrange(0, 7)) if not c.get("opts")]
        for case in ctx.rng.sample(cases, min(n_per, len(cases))):
            try:
                text, _ = C2.pdb_text(case["spec"], ter=case.get("ter", True))
            except Exception as e:  # builder trouble
                ctx.count(f"userff-run:skipped-{type(e).__name__}")
                continue
            f = d / "u.pdb"
            f.write_text(text)
            cap0 = e2e_run(ctx, str(f), base, [])
            if "groups" not in cap0:
                ctx.count("userff-run:base-run-no-assignment")
                continue
            used = [l for l, _ in cap0["groups"]]
            rows_of = {}
            for ln in dat_txt.splitlines():
                w = ln.split()
                if w and not ln.startswith("#"):
                    rows_of.setdefault(w[0], 0)
                    rows_of[w[0]] += 1
            cand = sorted({u for u in used if u in rows_of})
            if not cand:
                continue
            K = set(ctx.rng.sample(cand, min(len(cand), ctx.rng.choice([1, 1, 2]))))
            udat = d / "user.dat"
            udat.write_text("\n".join(ln for ln in dat_txt.splitlines() if not (ln.split() and ln.split()[0] in K)) + "\n")
            try:  # a .names rule may legitimately re-create a removed name from another residue: then it is not "missing"
                ffu = pff.Forcefield(base, load_definition(), str(udat), str(names_file))
                ffb = pff.Forcefield(base, load_definition(), None, None)
                K = {k for k in K if ffu.get_residue(k) is None}
            except Exception as e:  # noqa
                ctx.count(f"userff-run:user-ff-rejected-{type(e).__name__}")
                continue
            if not K:
                ctx.count("userff-run:removed-name-recreated-by-names-file")
                continue
            cap1 = e2e_run(ctx, str(f), base, [f"--userff={udat}", f"--usernames={names_file}"])
            f.unlink()
            if "groups" not in cap1 or len(cap1["groups"]) != len(cap0["groups"]):
                ctx.count("userff-run:user-run-no-assignment")
                continue
            ctx.count(f"userff-run:{base}")
            h0 = {i: (q, r) for i, q, r in cap0["hits"]}
            h1 = {i: (q, r) for i, q, r in cap1["hits"]}
            n0 = {i: a for i, _, a, _ in cap0["recs"]}
            n1 = {i: a for i, _, a, _ in cap1["recs"]}
            label = "builder:" + "-".join(case["spec"][0]["segments"][0])
            casedict = {"pdb": {"label": label, "builder_spec": case["spec"], "ter": case.get("ter", True)}, "ff": base, "removed": sorted(K), "extra": ["--userff=<base DAT without the removed residue names>", "--usernames=<base names file>"]}
            for (l0, ids0), (l1, ids1) in zip(cap0["groups"], cap1["groups"]):
                by0 = {n0[i]: h0.get(i) for i in ids0}
                by1 = {n1[i]: h1.get(i) for i in ids1}
                if l0 in K:
                    ctx.evaluated(f"userff:{base}:{l0}", True)
                    bad = {a: v for a, v in by1.items() if v is not None}
                    if bad:
                        a, v = sorted(bad.items())[0]
                        ctx.fail({"site": "Biomolecule.apply_force_field", "condition": "parameters-for-a-residue-the-user-force-field-lacks", "ff": "user:" + base}, f"{label} with {base} minus {sorted(K)}: residue in state {l0} has no entry in the user force field, but {len(bad)} of its atoms were written with parameters, e.g. {a} -> {v} (looked up as {l1})", dict(casedict, residue=l0, atom=a, got=list(v)))
                else:
                    # a .names rule may DERIVE l0 from a removed residue (PARSE builds NHID from HID): such a residue
                    # legitimately changes with the removal; only residues whose own entries are untouched are judged
                    if any(ffu.get_params(l0, a) != ffb.get_params(l0, a) for a in by1):
                        ctx.count("userff-run:residue-derived-from-removed-name")
                        continue
                    ctx.evaluated(f"userff:{base}:{l0}:kept", False)
                    diff = {a: (by0.get(a), v) for a, v in by1.items() if by0.get(a) != v}
                    if diff:
                        a, v = sorted(diff.items())[0]
                        ctx.fail({"site": "Biomolecule.apply_force_field", "condition": "other-residue-changed-by-removing-a-residue-from-the-user-force-field", "ff": "user:" + base}, f"{label} with {base} minus {sorted(K)}: residue {l0} atom {a} {v[0]} -> {v[1]}", dict(casedict, residue=l0, atom=a))


def names_only_pair(ctx, src, base, names_text):
    """the two runs of the names-only relation: (--ff=B --usernames=U) and (--ff=B --userff=<verbatim copy of B.DAT>
    --usernames=U).  The selected force field is a function of the selected files' content, so both must assign
    the same parameters to every atom and leave the same atoms unassigned."""
    d = ctx.scratch_dir()
    U = d / "only.names"
    U.write_text(names_text)
    D = d / "copy.dat"
    D.write_text((core.REPO / "pdb2pqr" / "dat" / f"{base}.DAT").read_text())
    capx = e2e_run(ctx, src, base, [f"--usernames={U}"])
    capy = e2e_run(ctx, src, base, [f"--userff={D}", f"--usernames={U}"])
    return capx, capy


def names_only_diff(capx, capy):
    """None, or a description of the first difference between the two runs"""
    if ("groups" in capx) != ("groups" in capy):
        return f"one run assigned parameters, the other did not: {capx.get('err')} / {capy.get('err')}"
    if "groups" not in capx:
        return None
    if len(capx["groups"]) != len(capy["groups"]):
        return f"{len(capx['groups'])} vs {len(capy['groups'])} residues"
    hx = {i: (q, r) for i, q, r in capx["hits"]}
    hy = {i: (q, r) for i, q, r in capy["hits"]}
    nx = {i: a for i, _, a, _ in capx["recs"]}
    ny = {i: a for i, _, a, _ in capy["recs"]}
    rx = {i: r for i, _, _, r in capx["recs"]}
    for (lx, idsx), (ly, idsy) in zip(capx["groups"], capy["groups"]):
        bx = {nx[i]: hx.get(i) for i in idsx}
        by = {ny[i]: hy.get(i) for i in idsy}
        if lx != ly or bx != by:
            a = sorted(set(bx) | set(by), key=lambda k: (bx.get(k) == by.get(k), k))[0]
            return f"residue {rx[idsx[0]] if idsx else '?'} looked up as {lx} / {ly}: atom {a} gets {bx.get(a, 'absent')} with --usernames alone, {by.get(a, 'absent')} with the same names file and a verbatim copy of the built-in parameter file"
    return None


def names_only_runs(ctx, thorough):
    """--usernames WITHOUT --userff (legal: check_files accepts it, Forcefield honours it): a built-in names file with
    one or two <residue> sections removed, on structures that use the removed mapping."""
    import re as _re

    from harness.props import c02 as C2

    bases = FFS if thorough else [ctx.rng.choice(FFS), "AMBER"]
    for base in dict.fromkeys(bases):
        txt = (core.REPO / "pdb2pqr" / "dat" / f"{base}.names").read_text()
        secs = list(_re.finditer(r"[ \t]*<residue>.*?</residue>[ \t]*\n?", txt, _re.S))
        if not secs:
            continue
        inputs = [("1AJJ.pdb", None)]
        cases = [c for c in C2.triple_cases(ctx.rng, [base], ctx.rng.randrange(0, 7)) if not c.get("opts")]
        for case in ctx.rng.sample(cases, min(3 if thorough else 1, len(cases))):
            inputs.append(("builder", case))
        for label, case in inputs:
            d = ctx.scratch_dir()
            if case is None:
                src = str(core.REPO / "tests" / "data" / label)
                pdbref = label
            else:
                try:
                    text, _ = C2.pdb_text(case["spec"], ter=case.get("ter", True))
                except Exception as e:  # builder trouble
                    ctx.count(f"names-only:skipped-{type(e).__name__}")
                    continue
                f = d / "n.pdb"
                f.write_text(text)
                src = str(f)
                pdbref = {"label": "builder:" + "-".join(case["spec"][0]["segments"][0]), "builder_spec": case["spec"], "ter": case.get("ter", True)}
            capz = e2e_run(ctx, src, base, [])
            want, tries, judged = (3 if thorough else 2), 0, 0
            wat = [m for m in secs if _re.search(r"<name>\s*(WAT|HOH)", m.group(0))]
            order = list(secs)
            ctx.rng.shuffle(order)
            if case is None and wat:  # the water mapping: a whole-residue change that keeps the total integral
                order = wat[:1] + order
            for m0 in order:
                if judged >= want or tries >= (10 if thorough else 6):
                    break
                tries += 1
                drop = [m0] + ([ctx.rng.choice(secs)] if ctx.rng.random() < 0.2 else [])
                names_text = txt
                for m in sorted(set(drop), key=lambda m: -m.start()):
                    names_text = names_text[: m.start()] + names_text[m.end() :]
                capx, capy = names_only_pair(ctx, src, base, names_text)
                matters = names_only_diff(capy, capz) is not None
                ctx.count(f"names-only:{base}:{'mapping-matters' if matters else 'mapping-unused'}")
                ctx.evaluated(("names-only", base, core.sha(names_text), str(label)), matters)
                judged += 1 if matters else 0
                why = names_only_diff(capx, capy)
                if why:
                    ctx.fail(
                        {"site": "main.non_trivial/forcefield.Forcefield", "condition": "user-names-file-not-honoured-without-userff", "ff": base},
                        f"{pdbref if isinstance(pdbref, str) else pdbref['label']} --ff={base} --usernames=<{base}.names minus {len(set(drop))} section(s)>: {why}",
                        {"pdb": pdbref, "ff": base, "names_only": names_text},
                    )


def fmt4(scaled):
    """'%.4f' of a scaled-by-1e8 exact decimal, as Python formats the float."""
    return f"{float(Decimal(scaled) / (Decimal(10) ** SCALE)):.4f}"


def run(ctx):
    sys.path.insert(0, str(core.VERIF / "gen"))
    ctx.cov["rule"] = (
        "random user DAT/.names pairs (regex shapes of the built-ins: literals, [NC]?...$, groups with $group, negative look-ahead; "
        "cumulative sections; alias chains; duplicate rows) compared model vs Forcefield().map; end-to-end runs (structures x 6 force "
        "fields) comparing every atom's parameters with the model lookup. Non-trivial = a user case with >= 1 rule that changes the map, "
        "or a distinct (force field, lookup name, atom name) triple actually looked up end-to-end"
    )
    gen_ok = regenerate(ctx)
    ok = core.proof_stage(ctx, "C01", THEOREMS, [], extra_targets=["Model/ForceFieldExec.vo"]) if gen_ok else False
    if not gen_ok:
        ctx.obligations.extend(THEOREMS)
    import ff_tables as gen
    from common import GenError, load_definition

    definition = load_definition()
    names = json.loads((core.GEN / "names.json").read_text())

    # --- (ii) random user force fields
    n = 1500 if ctx.thorough else 150
    terms, impls, raw = [], [], []
    skipped = 0
    for k in range(n):
        try:
            term, impl, dat, nm = user_case(ctx, k, definition, gen)
        except GenError:  # generator refuses the file: count
            skipped += 1
            ctx.count("user-ff:generator-refused")
            continue
        if term is None:
            skipped += 1
            ctx.count(f"user-ff:{impl}")
            continue
        terms.append(term)
        impls.append(impl)
        raw.append((dat, nm))
    # load histories on one path (same DAT path with another .names file, then other content, then the first pair again)
    ht, hi, hr = history_cases(ctx, definition, gen, 60 if ctx.thorough else 12)
    terms += ht
    impls += hi
    raw += hr
    header = "From Coq Require Import ZArith List PArith String.\nFrom PV Require Import Model.ForceField Model.ForceFieldExec.\nImport ListNotations.\n"
    corr_broken = False
    try:
        res = core.run_cases("C01u", header, terms, chunk=25)
    except core.CoqEvalError as e:
        res = None
        corr_broken = True
        ctx.broke("correspondence-broken", "user force field: model evaluation failed", str(e))
    if res is not None:
        for impl, got, (dat, nm) in zip(impls, res, raw):
            ctx.cov["correspondence_cases"] += 1
            ctx.count(f"user-ff:impl-{impl}")
            ctx.evaluated(("user", core.sha(dat + nm)), "<atom>" in nm or "<useresname>" in nm)
            if got != impl:
                ctx.cov["correspondence_disagreements"] += 1
                corr_broken = True
                if sum(b["kind"] == "correspondence-broken" for b in ctx.broken) < 3:
                    ctx.broke("correspondence-broken", "Model.ForceField.build vs forcefield.Forcefield on a user DAT/.names pair", f"impl={impl} model={got}", {"dat": dat, "names": nm})
        ctx.sample({"user_dat": raw[0][0][:400], "user_names": raw[0][1][:600], "impl": impls[0], "model": res[0]})

    # --- (iii) end-to-end lookups
    inputs = E2E_THOROUGH if (ctx.thorough or not ok or corr_broken) else E2E_QUICK
    pairs_by_ff = {}
    runs = []
    for pdb, extra in inputs:
        for ff in FFS:
            cap = e2e_run(ctx, pdb, ff, extra)
            runs.append((pdb, ff, extra, cap))
            if "recs" in cap:
                for _, lname, aname, _ in cap["recs"]:
                    pairs_by_ff.setdefault(ff, set()).add((lname, aname))
    # (iii-b) every residue type / named protonation variant / chain position: the parameters must be those of
    # the state the residue is IN (name, position, terminus options), whatever name the code looked up.  The expected
    # state name comes from the harness' own table (c02.expected_states), not from residue.ffname.
    state_runs = state_variant_runs(ctx, thorough=(ctx.thorough or not ok or corr_broken))
    for label, ff, extra, cap in state_runs:
        runs.append((label, ff, extra, cap))
        if "recs" in cap:
            for _, lname, aname, _ in cap["recs"]:
                pairs_by_ff.setdefault(ff, set()).add((lname, aname))
    userff_runs(ctx, thorough=(ctx.thorough or not ok or corr_broken))
    names_only_runs(ctx, thorough=(ctx.thorough or not ok or corr_broken))
    # model lookups, one Coq evaluation per force field
    expected = {}
    for ff, pairs in pairs_by_ff.items():
        pl = sorted(pairs)
        known_pairs = [(r, a) for r, a in pl if r in names and a in names]
        for r, a in pl:
            if (r, a) not in known_pairs:
                expected[(ff, r, a)] = None  # a name the tables never mention cannot have an entry
        term = f"show_lookups FF_{ff}.built {core.coq_list([f'({names[r]}%positive, {names[a]}%positive)' for r, a in known_pairs])}"
        hdr = header + f"From PV Require Generated.FF_{ff}.\n"
        try:
            out = core.run_cases(f"C01e{ff}", hdr, [term], timeout=600)[0]
        except core.CoqEvalError as e:
            ctx.broke("correspondence-broken", f"end-to-end lookups for {ff}: model evaluation failed", str(e))
            continue
        vals = out.split(";") if known_pairs else []
        for (r, a), v in zip(known_pairs, vals):
            if v == "-":
                expected[(ff, r, a)] = None
            else:
                q, rad, _, _ = v.split(" ")
                expected[(ff, r, a)] = (int(q), int(rad))
    for pdb, ff, extra, cap in runs:
        pdbref = {"label": pdb, "builder_spec": cap["case"]["spec"], "ter": cap["case"].get("ter", True)} if cap.get("state_run") else pdb
        if "recs" not in cap:
            ctx.notes.append(f"{pdb} {ff}: run ended before parameter assignment: {cap['err']}")
            continue
        if cap.get("state_run"):
            # judge a residue only if its EXPECTED state has an entry for every atom it ended with
            keep = set()
            for lname, ids in cap["exp_groups"]:
                names_ = {i: a for i, l, a, _ in cap["recs"] if i in set(ids)}
                keep.update(ids)  # atoms without an entry under the expected state must be unassigned, not borrowed
                if all(expected.get((ff, lname, names_[i])) is not None for i in ids):
                    ctx.count("state-run:residues-judged")
                else:
                    ctx.count("state-run:residues-not-fully-parameterised")
            cap["recs"] = [r for r in cap["recs"] if r[0] in keep]
            cap["hits"] = [h for h in cap["hits"] if h[0] in keep]
            cap["lines"] = []  # line positions no longer correspond after filtering
            if not cap["recs"]:
                continue
        if (ff, *cap["recs"][0][1:3]) not in expected and ff not in pairs_by_ff:
            continue
        hits = {i: (q, r) for i, q, r in cap["hits"]}
        misses = set(cap["misses"])
        order = [i for i, _, _ in cap["hits"]]
        line_of = {i: cap["lines"][k] for k, i in enumerate(order)} if len(cap["lines"]) == len(order) else {}
        if cap["err"] is None and not cap.get("state_run") and len(cap["lines"]) != len(order):
            ctx.fail({"site": "main.non_trivial/print", "condition": "line-count", "ff": ff}, f"{pdb} {ff}: {len(order)} matched atoms but {len(cap['lines'])} PQR atom lines", {"pdb": pdbref, "ff": ff, "extra": extra})
        seen = set()
        for i, lname, aname, rstr in cap["recs"]:
            key = (ff, lname, aname)
            if key not in expected:
                continue
            exp = expected[key]
            ctx.evaluated(f"{ff}:{lname}:{aname}", True)
            inhit, inmiss = i in hits, i in misses
            if i in seen or (inhit and inmiss) or not (inhit or inmiss):
                ctx.fail({"site": "Biomolecule.apply_force_field", "condition": "not-partition", "ff": ff}, f"{pdb} {ff}: atom {rstr} {aname} in hits={inhit} misses={inmiss}", {"pdb": pdbref, "ff": ff, "extra": extra, "atom": [rstr, aname]})
            seen.add(i)
            if exp is None:
                if inhit:
                    ctx.fail({"site": "Biomolecule.apply_force_field", "condition": "parameters-without-entry", "ff": ff}, f"{pdb} {ff}: {lname}.{aname} has no force-field entry but was written with {hits[i]}", {"pdb": pdbref, "ff": ff, "extra": extra, "atom": [rstr, lname, aname]})
            else:
                if not inhit:
                    ctx.fail({"site": "Biomolecule.apply_force_field", "condition": "entry-but-unassigned", "ff": ff}, f"{pdb} {ff}: {lname}.{aname} has an entry but was reported unassigned", {"pdb": pdbref, "ff": ff, "extra": extra, "atom": [rstr, lname, aname]})
                else:
                    q, r = hits[i]
                    eq = float(Decimal(exp[0]) / Decimal(10) ** SCALE)
                    er = float(Decimal(exp[1]) / Decimal(10) ** SCALE)
                    if q != eq or r != er:
                        ctx.fail({"site": "Biomolecule.apply_force_field", "condition": "wrong-parameters", "ff": ff}, f"{pdb} {ff}: {lname}.{aname} got ({q}, {r}), force field says ({eq}, {er})", {"pdb": pdbref, "ff": ff, "extra": extra, "atom": [rstr, lname, aname], "got": [q, r], "expected": [eq, er]})
                    ln = line_of.get(i)
                    if ln is not None:
                        toks = ln[54:].split()
                        # the sign of a zero ("-0.0000" in the DAT text) is not part of the value
                        if len(toks) < 2 or toks[0].replace("-0.0000", "0.0000") != fmt4(exp[0]) or toks[1].replace("-0.0000", "0.0000") != fmt4(exp[1]):
                            ctx.fail({"site": "io.print_biomolecule_atoms", "condition": "printed-parameters-differ", "ff": ff}, f"{pdb} {ff}: PQR line for {lname}.{aname} prints {toks[:2]}, expected {fmt4(exp[0])} {fmt4(exp[1])}", {"pdb": pdbref, "ff": ff, "extra": extra, "line": ln})
        ctx.count(f"e2e:{ff}:atoms", len(cap["recs"]))
        ctx.count(f"e2e:{ff}:unassigned", len(misses))
    if runs and "recs" in runs[0][3]:
        c = runs[0][3]
        ctx.sample({"e2e_run": runs[0][0], "ff": runs[0][1], "atoms": len(c["recs"]), "unassigned": len(c["misses"]), "first_line": c["lines"][0] if c["lines"] else None})
    ctx.trusted += [
        "generator gen/ff_tables.py: DAT/.names readers, Python re for regex rows over the closed universe, name interning (names.json)",
        "float(text) of DAT values (checked to round-trip to the file's decimal text)",
        "modelled, not verified: forcefield.ForcefieldHandler/Forcefield, Biomolecule.apply_force_field",
    ]
    ctx.assumptions += ["on the bundled structures the residue's observed ffname is taken as its final state; on the builder tripeptides (every residue type and named variant at N/internal/C) the expected state name comes from the harness' own table, so a residue looked up under another state's name is reported", f"user-ff cases the generator or loader rejects outright are skipped ({skipped} this run)"]
    # composition of the C07 (ingest), C02 (state names), C01 (assign) and C08 (print) models: `pdb2pqr
    # --assign-only` end to end (Properties/E2E_Assign.v), compared byte for byte with the real CLI path
    from harness.props import e2e_assign

    e2e_assign.run_extra(ctx)


def replay(ctx, data):
    from harness.props import e2e_assign

    r = e2e_assign.replay_extra(ctx, data)
    if r is not None:
        return r
    case = data["case"]
    if "names_only" in case:
        if isinstance(case["pdb"], dict):
            from harness.props import c02 as C2

            text, _ = C2.pdb_text(case["pdb"]["builder_spec"], ter=case["pdb"].get("ter", True))
            f = ctx.scratch_dir() / "replay.pdb"
            f.write_text(text)
            src = str(f)
        else:
            src = str(core.REPO / "tests" / "data" / case["pdb"])
        why = names_only_diff(*names_only_pair(ctx, src, case["ff"], case["names_only"]))
        print("replay: --usernames alone vs the same names file with a verbatim copy of the built-in parameter file ->", "FAILS: " + why if why else "passes")
        ctx.cleanup()
        return 1 if why else 0
    if "history" in case:  # re-play the load history on one path, compare the last load with never-loaded paths
        sys.path.insert(0, str(core.VERIF / "gen"))
        import ff_tables as gen
        from common import load_definition

        definition = load_definition()
        d = ctx.scratch_dir()

        def load(dp, np_):
            try:
                return gen.impl_dump(None, definition, str(dp), str(np_))
            except Exception as e:  # noqa
                return type(e).__name__

        P = d / "h.DAT"
        last = None
        for j, st in enumerate(case["history"]):
            P.write_text(st["dat"])
            N = d / f"h{core.sha(st['names'])[:8]}.names"
            N.write_text(st["names"])
            last = load(P, N)
        FP, FN = d / "fresh.DAT", d / "fresh.names"
        FP.write_text(case["dat"])
        FN.write_text(case["names"])
        fresh = load(FP, FN)
        bad = last != fresh
        print("replay: history of", len(case["history"]), "loads on one path; last load", "DIFFERS from" if bad else "equals", "the same texts on never-loaded paths ->", "FAILS" if bad else "passes")
        ctx.cleanup()
        return 1 if bad else 0
    if "dat" in case:
        print("replay: user force field case; re-run ./check C01 with the same seed to reproduce")
        return 1
    if isinstance(case["pdb"], dict):  # a builder structure: rebuild it, look the atom up again
        from harness.props import c02 as C2

        text, _ = C2.pdb_text(case["pdb"]["builder_spec"], ter=case["pdb"].get("ter", True))
        f = ctx.scratch_dir() / "replay.pdb"
        f.write_text(text)
        cap = e2e_run(ctx, str(f), case["ff"], case.get("extra", []))
        got = None
        if "recs" in cap and case.get("atom"):
            hits = {i: (q, r) for i, q, r in cap["hits"]}
            for i, _, aname, rstr in cap["recs"]:
                if rstr == case["atom"][0] and aname == case["atom"][-1]:
                    got = hits.get(i)
        bad = got is not None and case.get("expected") is not None and list(got) != list(case["expected"])
        print("replay:", case["pdb"]["label"], case["ff"], case.get("extra"), "atom", case.get("atom"), "got", got, "force field says", case.get("expected"), "->", "FAILS" if bad else "passes")
        ctx.cleanup()
        return 1 if bad else 0
    cap = e2e_run(ctx, case["pdb"], case["ff"], case.get("extra", []))
    print("replay: re-ran", case["pdb"], case["ff"], "->", cap.get("err") or f"{len(cap.get('lines', []))} lines; compare with", case.get("atom"))
    return 1
