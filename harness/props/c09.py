"""C09 - formatting and naming options never change the computed model.

Proof side (coq/Properties/C09.v):
  * generic noninterference theorem over stage lists (Model/Pipeline.v) + the boolean
    obligation on the stage table GENERATED from the current pdb2pqr/main.py
    (gen/stages.py -> coq/Generated/Stages.v, regenerated on every run);
  * order facts of the generated table (--ffout renaming after parameters and the
    charge guard, before print_pqr);
  * drop_water / apply_name_scheme list lemmas;
  * printing-side string theorems over C08's model of the writer (what --keep-chain,
    renaming and --whitespace can change in a line / in the line sequence).
Tie (validates the trusted translator): real runs under a recording proxy around the
  argparse.Namespace + a line tracer on the driver frames: every observed args.<attr>
  read must be in the generated syn_reads of the stage (or `if` test) it happened in,
  stages run in the generated order, and every stage the table does not call Compute
  leaves (coordinates, charges, radii, atom order[, names]) untouched.
Search (model independent, real code only): the 2^6 lattice of the six format options,
  --drop-water vs pre-deleted input, --neutraln/--neutralc charge shifts.
"""

import importlib.util
import itertools
import json
import math
import os
import sys
from pathlib import Path

from harness import core

META = {
    "id": "C09",
    "level": "proof",
    "technique": (
        "Coq proof of noninterference for a generic staged-pipeline model, instantiated by a boolean obligation "
        "(vm_compute) on the stage/option-read table that a Python-ast translator regenerates from main.py on every "
        "run; Coq proofs over C08's string model for the print-time options; the translator is validated by a "
        "recording Namespace proxy + driver line tracer on real runs; metamorphic search on the real code"
    ),
    "level_text": (
        "Proved for ALL stage lists satisfying the obligation and ALL option stores agreeing outside {whitespace, "
        "keep_chain, include_header, pdb_output, apbs_input, ffout}: the compute stages fail together or yield the "
        "same state, and complete runs end with equal (coordinates, charges, radii, atom order); the obligation and "
        "the order facts (renaming after apply_force_field and the charge guard, before print_pqr) hold for the table "
        "generated from the current main.py. Proved for ALL atoms/atom lists over the writer's string model: "
        "--keep-chain changes column 22 only, renaming columns 13-20 only, the numeric tokens of the --whitespace line "
        "are the numeric column slices of the plain line - stated under the explicit capacity guard num_ok (every "
        "numeric field fits its columns with a separating blank: |coordinate| <= 9999.999 / >= -999.999, charge > -10, "
        "radius < 10); atoms outside that guard are covered by run pairs only (structures straddling x = -1000 and "
        "y = +10000 in the option lattice) -, line i is atom i with "
        "serial i+1 under every option combination. Proved for ALL record lists: drop_water is exactly deletion of the "
        "water records and commutes with any line-wise parser (its two hypotheses about the parser are checked on the "
        "real pdb reader + main.drop_water for every generated record kind). Proved over C02's model of set_termini/"
        "set_state and the state tables generated from dat/ (PARSE): the flags change the terminus state of N-/C-flagged "
        "residues only (never NPRO, never an unflagged residue); a residue that is both ends of its chain is never "
        "changed by --neutralc and goes N->NEUTRAL-N under --neutraln only (per-flag attribution, name level and in the "
        "generated table; its charges are not fully parameterised in PARSE, so its charge shift is explored by runs on "
        "one- and two-residue chains only), and for ALL residue lists in which every residue is "
        "unchanged or a terminus going N->NEUTRAL-N / C->NEUTRAL-C (NEUTRAL-CPRO excluded) the exact total charge moves "
        "by -1 per neutralised N-terminus and +1 per neutralised C-terminus. NOT proved, explored on the real code only: "
        "that each stage really is a function of the options the translator lists (trusted translator, cross-checked by "
        "the proxy/tracer on real runs), the 2^6 option lattice x force fields x builder structures, --drop-water "
        "end-to-end (every water spelling: HOH/WAT x ATOM/HETATM x position, alt-locs, insertion codes, companions), and "
        "the neutral-termini statement end-to-end incl. coordinates (all 20 residue types at both termini, PARSE)."
    ),
    "level_note": (
        "Trusted: Coq kernel+vm_compute; gen/stages.py (Python-ast dataflow: name-based call resolution, constant "
        "propagation of literal arguments, KIND_TABLE classifying print_*/apply_name_scheme as non-Compute) - its "
        "syn_reads are checked against observed reads, its kinds against before/after snapshots of the biomolecule, "
        "its effective `reads` (syn_reads minus reads = reads the translator calls ineffective) only by the "
        "metamorphic runs; C08's string model of the writer (tied to the code by C08's check); the neutral-termini "
        "theorems rest on C02's hand model of set_termini/set_state (tied by C02's check and, here, by comparing every "
        "residue's ffname between the runs) and on gen/ff_tables.py + gen/states.py."
    ),
    "design_ref": "DESIGN.md 4 C09",
}

THEOREMS = [
    "C09_format_noninterference",
    "C09_generated_obligation",
    "C09_generated_noninterference",
    "C09_ffout_after_params",
    "C09_name_scheme_touches_names_only",
    "C09_drop_water_is_deletion",
    "C09_drop_water_app",
    "C09_drop_water_commutes",
    "C09_nonvacuous",
    "C09_chainflag_only_col22",
    "C09_rename_only_name_columns",
    "C09_respace_keeps_numeric_tokens",
    "C09_whitespace_options_keep_numeric_tokens",
    "C09_serial_is_position",
    "C09_order_preserved",
    "C09_print_options_keep_numbers",
    "C09_print_nonvacuous",
    "C09_neutral_only_termini",
    "C09_neutral_internal_untouched",
    "C09_neutral_npro_unchanged",
    "C09_neutral_rows_match_prefix",
    "C09_neutral_shift",
    "C09_neutral_changes_only_termini",
    "C09_neutral_internal_unchanged",
    "C09_neutral_nonvacuous",
    "C09_neutral_both_ends_attribution",
    "C09_neutral_both_ends_same_parameters",
]
# theorems whose statement mentions the generated table
GENERATED_THEOREMS = ["C09_generated_obligation", "C09_generated_noninterference", "C09_ffout_after_params", "C09_neutral_rows_match_prefix", "C09_neutral_shift", "C09_neutral_changes_only_termini", "C09_neutral_internal_unchanged", "C09_neutral_nonvacuous"]
ALLOWED_AXIOMS = []

FORMAT_OPTS = ["whitespace", "keep_chain", "include_header", "pdb_output", "apbs_input", "ffout"]
FFS = ["AMBER", "CHARMM", "PARSE", "TYL06", "PEOEPB", "SWANSON"]
NA_FFS = ["AMBER", "CHARMM", "TYL06"]  # force fields that parameterise the DNA strand
OPTION_SITE = {
    "whitespace": "main.print_pqr",
    "keep_chain": "io.print_biomolecule_atoms/Atom.get_pqr_string",
    "include_header": "io.print_pqr_header",
    "pdb_output": "main.print_pdb",
    "apbs_input": "io.dump_apbs",
    "ffout": "Biomolecule.apply_name_scheme",
}
DRIVER_FUNCS = ("main_driver", "non_trivial")
FIXED_SEQ = ["LYS", "ASP", "HIS", "CYS", "GLU", "TYR", "ARG"]
STANDARD_AA = "ALA ARG ASN ASP CYS GLN GLU GLY HIS ILE LEU LYS MET PHE PRO SER THR TRP TYR VAL".split()
TITRATABLE = ["ASP", "GLU", "HIS", "CYS", "TYR", "LYS", "ARG"]
WATER_NAMES = ("HOH", "WAT")


# ---------------------------------------------------------------------------
# generator


def load_generator():
    spec = importlib.util.spec_from_file_location("pv_gen_stages", core.VERIF / "gen" / "stages.py")
    mod = importlib.util.module_from_spec(spec)
    sys.modules["pv_gen_stages"] = mod
    spec.loader.exec_module(mod)
    return mod


def regenerate(ctx):
    """Stages.v and the force-field / state tables (FF_*.v, States.v, StatesFF_*.v, used by
    the neutral-termini theorems) from the CURRENT repo. Returns the translator's info dict or None."""
    import subprocess

    p = subprocess.run([sys.executable, str(core.VERIF / "gen" / "all.py"), "--only", "ff_tables,states"], capture_output=True, text=True, env={**os.environ, "VERIF_REPO": str(core.REPO)})
    if p.returncode != 0:
        ctx.broke("generator-broken", "gen/all.py --only ff_tables,states (state tables from the repo's dat/ files)", (p.stdout + p.stderr)[-2000:])
        return None
    try:
        gen = load_generator()
        info, text = gen.generate(core.REPO)
    except Exception as e:  # GenError (fail-closed) or a crash of the translator (e.g. main.py no longer parses)
        ctx.broke("generator-broken", "gen/stages.py aborted (fail-closed): Stages.v not regenerated", f"{type(e).__name__}: {e}")
        return None
    core.write_if_changed(core.GEN / "Stages.v", text)
    info["_coq_text"] = text
    return info


# ---------------------------------------------------------------------------
# PQR parsing (model independent)


def atom_lines(text):
    return [ln for ln in text.splitlines() if ln.startswith(("ATOM", "HETATM"))]


def parse_fixed(line):
    """Default layout: the writer's fixed columns."""
    return {
        "rec": line[0:6].strip(),
        "serial": line[6:11].strip(),
        "name": line[12:16].strip(),
        "resname": line[16:20].strip(),
        "chain": line[21:22].strip(),
        "resseq": line[22:26].strip(),
        "icode": line[26:27].strip(),
        "num": (line[30:38].strip(), line[38:46].strip(), line[46:54].strip(), line[54:62].strip(), line[62:69].strip()),
        "raw_num": line[30:],
    }


def parse_ws(line):
    """--whitespace layout: blank separated; the last five tokens are x y z charge radius,
    the first four record/serial/name/resname, what is between is [chain] resSeq."""
    t = line.split()
    if len(t) < 10:
        raise ValueError(f"--whitespace line with {len(t)} tokens: {line!r}")
    mid = t[4:-5]
    if len(mid) == 1:
        chain, resseq = "", mid[0]
    elif len(mid) == 2:
        chain, resseq = mid
    else:
        raise ValueError(f"--whitespace line with {len(t)} tokens: {line!r}")
    return {"rec": t[0], "serial": t[1], "name": t[2], "resname": t[3], "chain": chain, "resseq": resseq, "icode": "", "num": tuple(t[-5:]), "raw_num": None}


def parse_pqr(text, whitespace):
    f = parse_ws if whitespace else parse_fixed
    return [f(ln) for ln in atom_lines(text)]


NUMF = ("x", "y", "z", "charge", "radius")


def compare_atoms(base, other, *, names_may_differ, chain_shown, chains_allowed, raw=False):
    """First difference between two parsed atom lists as (field, detail) or None."""
    if len(base) != len(other):
        return "atom-count", f"{len(base)} atoms in the base run, {len(other)} with the options"
    for i, (p, q) in enumerate(zip(base, other)):
        if p["num"] != q["num"] or (raw and p["raw_num"] != q["raw_num"]):
            if sorted(a["num"] for a in base) == sorted(a["num"] for a in other):
                return "atom-order", f"atom {i + 1}: base {p['name']} {p['resname']} {p['resseq']} {p['num']} vs {q['name']} {q['resname']} {q['resseq']} {q['num']} (same multiset of numbers)"
            for k, nm in enumerate(NUMF):
                if p["num"][k] != q["num"][k]:
                    fld = "coordinates" if k < 3 else nm
                    return fld, f"atom {i + 1} ({p['name']} {p['resname']} {p['resseq']}): {nm} {p['num'][k]!r} -> {q['num'][k]!r}"
            return "numeric-bytes", f"atom {i + 1}: columns 31.. {p['raw_num']!r} -> {q['raw_num']!r}"
        for k in ("rec", "serial", "resseq"):
            if p[k] != q[k]:
                return k, f"atom {i + 1}: {k} {p[k]!r} -> {q[k]!r}"
        if p["serial"] != str(i + 1):
            return "serial", f"atom {i + 1} has serial {p['serial']}"
        if not names_may_differ and (p["name"], p["resname"]) != (q["name"], q["resname"]):
            return "names", f"atom {i + 1}: {p['name']} {p['resname']} -> {q['name']} {q['resname']} without --ffout"
        if chain_shown:
            if q["chain"] not in chains_allowed:
                return "chain", f"atom {i + 1}: chain column {q['chain']!r} not an input chain id"
        elif q["chain"] != "":
            return "chain", f"atom {i + 1}: chain column {q['chain']!r} without --keep-chain"
    return None


# ---------------------------------------------------------------------------
# structures (scaffolding; builder validated by its own self test)


def _B():
    from harness import builder

    return builder


def struct_fixed():
    import numpy as np

    B = _B()
    pep = B.build_peptide(FIXED_SEQ, chain="A")
    wat = B.waters(3, around=pep, rng=np.random.default_rng(0))
    return {"id": "pep-" + "-".join(FIXED_SEQ) + "@A1+3HOH", "atoms": pep + wat, "pdb": B.to_pdb(pep + wat), "chains": {"A", "W"}, "kind": "peptide"}


def struct_with_h():
    B = _B()
    pep = B.build_peptide(["ALA", "SER", "LYS", "GLY"], chain="A", hydrogens=True)
    return {"id": "pep-ASKG+H", "atoms": pep, "pdb": B.to_pdb(pep), "chains": {"A"}, "kind": "peptide"}


def struct_random_peptide(rng):
    import numpy as np

    B = _B()
    n = rng.randint(5, 7)
    seq = [rng.choice(TITRATABLE) for _ in range(3)] + [rng.choice(STANDARD_AA) for _ in range(n - 3)]
    rng.shuffle(seq)
    chain = rng.choice("ABCXYZ")
    start = rng.choice([1, 7, 42, 118])
    pep = B.build_peptide(seq, chain=chain, start=start)
    nw = rng.randint(1, 3)
    wat = B.waters(nw, around=pep, rng=np.random.default_rng(rng.randrange(1 << 30)), chain="W", start=start + 50)
    return {"id": f"pep-{'-'.join(seq)}@{chain}{start}+{nw}HOH", "atoms": pep + wat, "pdb": B.to_pdb(pep + wat), "chains": {chain, "W"}, "kind": "peptide"}


def struct_dna(rng):
    B = _B()
    n = rng.randint(3, 5)
    seq = [rng.choice("ACGT") for _ in range(n)]
    chain = rng.choice("BDN")
    dna = B.build_strand(seq, chain=chain)
    return {"id": f"dna-{''.join(seq)}@{chain}", "atoms": dna, "pdb": B.to_pdb(dna), "chains": {chain}, "kind": "dna"}


def translate_pdb(text, dx=0.0, dy=0.0, dz=0.0):
    """Shift every ATOM/HETATM record. A shifted value that needs nine characters with three
    decimals (<= -1000.000 or >= 10000.000) is written with two decimals so that the INPUT stays
    inside its eight columns; what the writer makes of such a coordinate is the subject."""
    out = []
    for ln in text.splitlines(keepends=True):
        if ln.startswith(("ATOM", "HETATM")) and len(ln) >= 54:
            vals = (float(ln[30:38]) + dx, float(ln[38:46]) + dy, float(ln[46:54]) + dz)
            flds = []
            for v in vals:
                s = f"{v:8.3f}"
                if len(s) > 8:
                    s = f"{v:8.2f}"
                if len(s) > 8:
                    raise ValueError(f"coordinate {v} does not fit eight columns")
                flds.append(s)
            ln = ln[:30] + "".join(flds) + ln[54:]
        out.append(ln)
    return "".join(out)


def struct_straddling(st, axis):
    """`st` moved so that it straddles x = -1000 (axis 'x') or y = +10000 (axis 'y'): some atoms
    fit the writer's eight coordinate columns, their neighbours need nine."""
    k = "xyz".index(axis)
    cs = [float(ln[30 + 8 * k:38 + 8 * k]) for ln in st["pdb"].splitlines() if ln.startswith(("ATOM", "HETATM"))]
    mid = (min(cs) + max(cs)) / 2.0
    shift = (-1000.0 if axis == "x" else 10000.0) - mid
    text = translate_pdb(st["pdb"], **{"d" + axis: shift})
    return {"id": f"{st['id']}@{axis}{'-1000' if axis == 'x' else '+10000'}", "atoms": st.get("atoms"), "pdb": text, "chains": st["chains"], "kind": st["kind"] + "-9col"}


def struct_cif(st):
    B = _B()
    return {"id": st["id"] + ".cif", "atoms": st["atoms"], "pdb": B.to_cif(st["atoms"]), "chains": st["chains"], "kind": st["kind"], "input_name": "input.cif"}


# ---------------------------------------------------------------------------
# running the real code


def run_real(ctx, text, args, input_name="input.pdb"):
    B = _B()
    wd = ctx.scratch_dir() / "w"
    for extra in ("out.pdb", "out.in"):
        p = wd / extra
        if p.exists():
            p.unlink()
    return B.run_pdb2pqr(text, args, workdir=wd, input_name=input_name)


def option_args(ctx, opts, scheme):
    wd = ctx.scratch_dir() / "w"
    a = []
    if "whitespace" in opts:
        a.append("--whitespace")
    if "keep_chain" in opts:
        a.append("--keep-chain")
    if "include_header" in opts:
        a.append("--include-header")
    if "pdb_output" in opts:
        a.append(f"--pdb-output={wd / 'out.pdb'}")
    if "apbs_input" in opts:
        a.append(f"--apbs-input={wd / 'out.in'}")
    if "ffout" in opts:
        a.append(f"--ffout={scheme}")
    return a


def exc_text(res):
    e = res["exc"]
    if e is None:
        return None
    c = e.__cause__
    return f"{type(e).__name__}: {e}" + (f" <- {type(c).__name__}: {c}" if c is not None else "")


# ---------------------------------------------------------------------------
# tie: recording proxy + driver tracer


class Instrument:
    """Runs main_driver with (a) a Namespace whose attribute loads are logged with the
    driver-level (function, line) they happen under and (b) a line tracer on the driver
    frames that snapshots the biomolecule around every stage."""

    def __init__(self, info):
        from pdb2pqr import main as pmain

        self.pmain = pmain
        self.mainfile = pmain.__file__
        self.universe = set(info["universe"])
        self.stages = info["stages"]
        self.tests = info["tests"]
        self.reads = []
        self.events = []

    def locate(self, func, line):
        st = [s for s in self.stages if s["func"] == func and s["line"] <= line <= s["end_line"]]
        ts = [t for t in self.tests if t["func"] == func and t["line"] <= line <= t["end_line"]]
        return st, ts

    def run(self, ctx, text, args, input_name="input.pdb"):
        import argparse

        inst = self
        reads, events = [], []
        mainfile = self.mainfile
        universe = self.universe

        class RecNS(argparse.Namespace):
            def __getattribute__(self, name):
                if name in universe:
                    f = sys._getframe(1)
                    while f is not None:
                        c = f.f_code
                        if c.co_name in DRIVER_FUNCS and c.co_filename == mainfile:
                            reads.append((c.co_name, f.f_lineno, name))
                            break
                        f = f.f_back
                return object.__getattribute__(self, name)

        def snapshot(frame):
            bio = frame.f_locals.get("biomolecule")
            if bio is None:
                return None
            try:
                atoms = list(bio.atoms)
            except Exception:
                return None
            return (
                [(id(a), a.x, a.y, a.z, a.ffcharge, a.radius) for a in atoms],
                [(a.name, a.res_name) for a in atoms],
            )

        def local(frame, event, arg):
            if event in ("line", "return", "exception"):
                events.append((frame.f_code.co_name, frame.f_lineno, event, snapshot(frame)))
            return local

        def tracer(frame, event, arg):
            c = frame.f_code
            if c.co_name in DRIVER_FUNCS and c.co_filename == mainfile:
                return local
            return None

        orig = self.pmain.main_driver

        def wrapped(ns):
            return orig(RecNS(**vars(ns)))

        self.pmain.main_driver = wrapped
        old = sys.gettrace()
        sys.settrace(tracer)
        try:
            res = run_real(ctx, text, args, input_name)
        finally:
            sys.settrace(old)
            self.pmain.main_driver = orig
        return res, reads, events

    # -- checks on one instrumented run; returns list of (what, detail)
    def check(self, ctx, reads, events):
        problems = []
        # V1: observed reads are in the generated syn_reads of the stage/test they happened under
        seen = set()
        for func, line, attr in reads:
            if (func, line, attr) in seen:
                continue
            seen.add((func, line, attr))
            st, ts = self.locate(func, line)
            ctx.cov["correspondence_cases"] += 1
            if not st and not ts:
                problems.append(("read outside every generated stage", f"args.{attr} read under {func}:{line}, which no stage or test of the generated table covers"))
                continue
            allowed = set()
            for s in st:
                allowed |= set(s["syn_reads"])
            for t in ts:
                allowed |= set(t["syn_reads"])
            if attr not in allowed:
                nm = ", ".join(f"{s['idx']}:{s['name']}" for s in st) or "test " + ts[0]["text"]
                problems.append(("observed option read missing from the generated table", f"args.{attr} read under {func}:{line} (stage {nm}); generated syn_reads there = {sorted(allowed)}"))
                continue
            for s in st:
                if s["kind"] == "Compute" and attr in FORMAT_OPTS:
                    if attr in s["reads"]:
                        problems.append(("Compute stage reads a format option", f"stage {s['idx']}:{s['name']} ({func}:{line}) reads args.{attr} and the table lists it as an effective read"))
                    else:
                        ctx.count(f"tie:ineffective-format-read:{s['name']}:{attr}")
        # V3/V4: stage order and kinds
        cur = None  # (stage, snapshot before)
        last_idx = -1
        for func, line, event, snap in events:
            st, _ = self.locate(func, line)
            s = st[0] if st else None
            if cur is not None and (s is None or s["idx"] != cur[0]["idx"] or event == "return"):
                # the stage cur[0] has finished (snap = state when control reached the next driver line)
                c, before = cur
                if c["kind"] != "Compute" and before is not None and snap is not None:
                    ctx.cov["correspondence_cases"] += 1
                    if before[0] != snap[0]:
                        problems.append(("stage classified non-Compute changes coordinates/charges/radii/order", f"stage {c['idx']}:{c['name']} ({c['kind']}, {c['func']}:{c['line']}) changed the biomolecule's (id, x, y, z, ffcharge, radius) list"))
                    elif c["kind"] != "Rename" and before[1] != snap[1]:
                        problems.append(("stage classified Render/Output/Log changes atom names", f"stage {c['idx']}:{c['name']} ({c['kind']}, {c['func']}:{c['line']}) changed (name, res_name) of some atom"))
                cur = None
            if s is not None and event == "line" and cur is None:
                if s["idx"] < last_idx:
                    problems.append(("stages executed out of the generated order", f"stage {s['idx']}:{s['name']} ran after stage {last_idx}"))
                last_idx = max(last_idx, s["idx"])
                cur = (s, snap)
        return problems


def tie(ctx, info, S0, Sdna):
    """Validate the translator on real runs. Returns True when something broke."""
    inst = Instrument(info)
    wd = ctx.scratch_dir() / "w"
    cif = struct_cif(S0)
    runs = [
        ("all-format-options", S0, ["--ff=AMBER", "--whitespace", "--keep-chain", "--include-header", f"--pdb-output={wd / 'out.pdb'}", f"--apbs-input={wd / 'out.in'}", "--ffout=CHARMM"]),
        ("default", S0, ["--ff=PARSE"]),
        ("clean", S0, ["--clean", "--keep-chain", "--whitespace"]),
        ("ffout=ff", S0, ["--ff=CHARMM", "--ffout=CHARMM", "--keep-chain"]),
        ("assign-only", struct_with_h(), ["--ff=AMBER", "--assign-only", "--ffout=PARSE", "--whitespace"]),
        ("nodebump,noopt,drop-water,neutral", S0, ["--ff=PARSE", "--nodebump", "--noopt", "--drop-water", "--neutraln", "--neutralc"]),
        ("propka", S0, ["--ff=PARSE", "--titration-state-method=propka", "--with-ph=7.0", "--keep-chain", "--whitespace"]),
        ("cif", cif, ["--ff=AMBER", "--include-header", "--whitespace", "--ffout=AMBER"]),
        ("dna", Sdna, ["--ff=AMBER", f"--pdb-output={wd / 'out.pdb'}", f"--apbs-input={wd / 'out.in'}", "--keep-chain"]),
    ]
    broke = False
    nrep = 0
    for label, st, args in runs:
        res, reads, events = inst.run(ctx, st["pdb"], args, st.get("input_name", "input.pdb"))
        ctx.count(f"tie-run:{label}:{'ok' if res['exc'] is None else 'raised'}")
        if res["exc"] is not None:
            ctx.notes.append(f"tie run {label} raised {exc_text(res)}")
        if not reads or not events:
            ctx.broke("correspondence-broken", "recording proxy saw no option reads / no driver line events", f"run {label}: reads={len(reads)} events={len(events)}")
            broke = True
            continue
        ctx.count("tie:observed-reads", len(set(reads)))
        for what, detail in inst.check(ctx, reads, events):
            broke = True
            ctx.cov["correspondence_disagreements"] += 1
            if nrep < 4:
                nrep += 1
                ctx.broke("correspondence-broken", f"gen/stages.py table vs real run: {what}", f"run {label} {args}: {detail}", {"kind": "tie", "label": label, "args": args, "structure": st["id"]})
    return broke


# ---------------------------------------------------------------------------
# search 1: the option lattice


def classify_subset(opts):
    return "+".join(o for o in FORMAT_OPTS if o in opts) or "none"


def lattice_compare(st, base_atoms, res, opts):
    """None, or (field, detail) for the option run `res` against the parsed base run."""
    if res["pqr_text"] is None:
        return "no-output", f"the option run wrote no PQR file ({exc_text(res)})"
    try:
        atoms = parse_pqr(res["pqr_text"], "whitespace" in opts)
    except ValueError as e:
        return "whitespace-token-count", f"{e}; the base run's first atom line is {base_atoms[0]['num'] if base_atoms else None}"
    return compare_atoms(
        base_atoms,
        atoms,
        names_may_differ="ffout" in opts,
        chain_shown="keep_chain" in opts,
        chains_allowed=st["chains"] | {""},
        raw="whitespace" not in opts,
    )


def run_lattice(ctx, st, ff, runs, label, extra_args=()):
    """Base run + one run per (option subset, --ffout scheme) in `runs`.
    Returns the number of violations reported."""
    input_name = st.get("input_name", "input.pdb")
    base = run_real(ctx, st["pdb"], [f"--ff={ff}", *extra_args], input_name)
    if base["pqr_text"] is None:
        ctx.count(f"lattice:base-run-failed:{st['kind']}:{ff}")
        ctx.evaluated(("lattice-base", st["id"], ff), False)
        return 0
    base_atoms = parse_pqr(base["pqr_text"], False)
    nontrivial = len(base_atoms) > 0
    failing = {}
    for opts, scheme in runs:
        args = [f"--ff={ff}", *extra_args] + option_args(ctx, opts, scheme)
        res = run_real(ctx, st["pdb"], args, input_name)
        ctx.count(f"lattice:{label}:{st['kind']}:{ff}:|opts|={len(opts)}")
        ctx.evaluated(("lattice", st["id"], ff, classify_subset(opts), scheme, tuple(extra_args)), nontrivial)
        if res["exc"] is not None and res["pqr_text"] is not None:
            ctx.count(f"lattice:raised-after-pqr-written:{type(res['exc']).__name__}:{'atoms' if nontrivial else 'empty-pqr'}")
        diff = lattice_compare(st, base_atoms, res, opts)
        if diff:
            failing.setdefault(frozenset(opts), (diff, args, scheme))
    if not failing:
        return 0
    # minimal failing subsets (by inclusion) give the signatures
    nviol = 0
    for opts in sorted(failing, key=lambda s: (len(s), classify_subset(s))):
        if any(o < opts for o in failing):
            continue
        (field, detail), args, scheme = failing[opts]
        sig = lattice_sig(opts, extra_args, field)
        case = {"kind": "lattice", "structure": st["id"], "pdb": st["pdb"], "input_name": input_name, "ff": ff, "opts": sorted(opts), "scheme": scheme, "chains": sorted(st["chains"]), "extra_args": list(extra_args), "detail": detail}
        shown = " ".join(a.split("=")[0] for a in args if a.split("=")[0] not in ("--ff", *[e.split("=")[0] for e in extra_args]))
        if ctx.fail(sig, f"adding {shown} (ff {ff}{' ' + ' '.join(extra_args) if extra_args else ''}, {st['id']}) changes the model: {field}: {detail}", case):
            nviol += 1
    return nviol


def lattice_sig(opts, extra_args, field):
    site = "/".join(OPTION_SITE[o] for o in FORMAT_OPTS if o in opts)
    if extra_args:
        site = "+".join(a.split("=")[0].lstrip("-") for a in extra_args) + ":" + site
    return {"site": site, "option": classify_subset(opts), "field": field}


def all_subsets():
    out = []
    for bits in itertools.product([0, 1], repeat=6):
        s = [o for o, b in zip(FORMAT_OPTS, bits) if b]
        if s:
            out.append(s)
    return out


def search_lattice(ctx, structs, high):
    rng = ctx.rng
    S0, Srand, Sdna = structs
    rot = FFS[(ctx.seed + 1) % 6]
    if rot == "PARSE":
        rot = "AMBER"

    def with_schemes(subsets):
        return [(s, rng.choice(FFS) if "ffout" in s else None) for s in subsets]

    plan_full = [(S0, "PARSE"), (S0, rot), (Srand, rng.choice(FFS)), (Sdna, rng.choice(NA_FFS))]
    if high or ctx.thorough:
        plan_full = [(s, ff) for s in (S0, Srand, Sdna) for ff in FFS]
    done = set()
    for st, ff in plan_full:
        done.add((st["id"], ff))
        run_lattice(ctx, st, ff, with_schemes(all_subsets()), "full")
    # every other (structure, force field): one option at a time, all six --ffout schemes, all options on
    for st in (S0, Srand, Sdna):
        for ff in FFS:
            if (st["id"], ff) in done:
                continue
            runs = [([o], None) for o in FORMAT_OPTS if o != "ffout"] + [(["ffout"], s) for s in FFS] + with_schemes([list(FORMAT_OPTS)])
            run_lattice(ctx, st, ff, runs, "single")
    # coordinates that need nine characters (<= -1000.000, >= 10000.000): the writer clips them to eight
    # columns (C08-F3, identical in every option set on the unchanged tree); option sets are compared with
    # each other, never with the input
    for st9, ff in ((struct_straddling(S0, "x"), "PARSE"), (struct_straddling(S0, "y"), rot), (struct_straddling(Srand, "x"), rng.choice(FFS))):
        subs = all_subsets() if (high or ctx.thorough) else [[o] for o in FORMAT_OPTS] + [["whitespace", "keep_chain"], ["whitespace", "ffout"], ["whitespace", "pdb_output", "apbs_input"], list(FORMAT_OPTS)]
        run_lattice(ctx, st9, ff, with_schemes(subs), "9col")
    # CIF input (print_pqr_header_cif, '#' trailer)
    cif = struct_cif(S0)
    subs = all_subsets() if (high or ctx.thorough) else [[o] for o in FORMAT_OPTS] + [list(FORMAT_OPTS)]
    run_lattice(ctx, cif, rng.choice(FFS), with_schemes(subs), "cif")
    if ctx.thorough:
        # real proteins from the repo's test data: each option alone + all on
        for name in ("1AJJ.pdb", "cterm_hid.pdb", "1A1P.pdb"):
            f = core.REPO / "tests" / "data" / name
            if not f.exists():
                f = Path("/repo/tests/data") / name
            if not f.exists():
                continue
            text = f.read_text()
            chains = {ln[21] for ln in text.splitlines() if ln.startswith(("ATOM", "HETATM")) and len(ln) > 21}
            st = {"id": name, "pdb": text, "chains": chains | {""}, "kind": "protein"}
            for ff in ("PARSE", "AMBER"):
                run_lattice(ctx, st, ff, [([o], rng.choice(FFS) if o == "ffout" else None) for o in FORMAT_OPTS] + with_schemes([list(FORMAT_OPTS)]), "protein")
    # PROPKA titration computes on a PDB rendering that is handed args.keep_chain (a read the translator calls ineffective)
    run_lattice(ctx, S0, "PARSE", [(["keep_chain"], None), (["whitespace", "keep_chain"], None), (list(FORMAT_OPTS), "AMBER")], "propka", extra_args=("--titration-state-method=propka", "--with-ph=7.0"))


# ---------------------------------------------------------------------------
# search 2: --drop-water


def delete_water_lines(pdb_text):
    """The input with its waters deleted: every coordinate-bearing record of a residue
    named HOH/WAT removed (decided on the text, columns 18-20)."""
    out = []
    for ln in pdb_text.splitlines(keepends=True):
        if ln[0:6] in ("ATOM  ", "HETATM", "ANISOU", "SIGATM", "SIGUIJ") and ln[17:20] in WATER_NAMES:
            continue
        out.append(ln)
    return "".join(out)


WATER_RECORDS = ("ATOM", "HETATM")
COMPANIONS = ("ANISOU", "SIGATM", "SIGUIJ")
NEAR_MISS_NAMES = ("DOD", "H2O", "TIP", "SOL", "HO")  # water-like names the code does NOT treat as water
WATER_POSITIONS = ("before-protein", "mid-chain", "between-chains", "after-protein")


def _coord_line(rec, serial, name, altloc, resname, chain, resseq, icode, xyz, elem):
    nm = name if len(name) == 4 else " " + name.ljust(3)
    return f"{rec:<6}{serial:>5} {nm}{altloc or ' '}{resname:>3} {chain or ' '}{resseq:>4}{icode or ' '}   {xyz[0]:8.3f}{xyz[1]:8.3f}{xyz[2]:8.3f}  1.00 20.00          {elem:>2}\n"


def _companion_line(rec, serial, name, altloc, resname, chain, resseq, icode, elem):
    nm = name if len(name) == 4 else " " + name.ljust(3)
    head = f"{rec:<6}{serial:>5} {nm}{altloc or ' '}{resname:>3} {chain or ' '}{resseq:>4}{icode or ' '}"
    if rec == "SIGATM":
        return head + f"   {0.012:8.3f}{0.013:8.3f}{0.011:8.3f}  0.00  0.10          {elem:>2}\n"
    return head + f" {1234:7d}{2345:7d}{3456:7d}{12:7d}{-23:7d}{34:7d}      {elem:>2}\n"


def water_lines(w):
    """PDB lines of one water as specified (record kind, names, alt-locs, companions, hydrogens)."""
    out = []
    atoms = [("O", w["xyz"], "O")]
    if w["hydrogens"]:
        x, y, z = w["xyz"]
        atoms += [("H1", (x + 0.757, y + 0.586, z), "H"), ("H2", (x - 0.757, y + 0.586, z), "H")]
    for alt in w["altlocs"]:
        for name, xyz, elem in atoms:
            if alt == "B":
                xyz = (xyz[0] + 0.3, xyz[1], xyz[2] + 0.2)
            out.append(_coord_line(w["record"], 0, name, alt, w["resname"], w["chain"], w["resseq"], w["icode"], xyz, elem))
            for comp in w["companions"]:
                out.append(_companion_line(comp, 0, name, alt, w["resname"], w["chain"], w["resseq"], w["icode"], elem))
    return out


def renumber_serials(lines):
    out, n = [], 0
    for ln in lines:
        rec = ln[0:6]
        if rec in ("ATOM  ", "HETATM"):
            n += 1
            ln = ln[:6] + f"{n:>5}" + ln[11:]
        elif rec in ("ANISOU", "SIGATM", "SIGUIJ"):
            ln = ln[:6] + f"{max(n, 1):>5}" + ln[11:]
        elif rec.startswith("TER"):
            n += 1
            ln = "TER\n"
        out.append(ln)
    return out


def dropwater_structure(ctx, k, must):
    """A peptide pair + a free amino acid written as HETATM + waters in every spelling.
    `must` = list of (resname, record, position) features this structure has to contain."""
    import numpy as np

    B = _B()
    rng = ctx.rng
    seqa = [rng.choice(TITRATABLE), rng.choice(["ALA", "GLY", "SER", "LEU"]), rng.choice(["SER", "THR", "TYR", "ASN"]), rng.choice(["ALA", "VAL", "LYS", "GLU"])]
    seqb = [rng.choice(["ALA", "GLY", "SER"]), rng.choice(TITRATABLE), rng.choice(["ALA", "THR", "GLN"])]
    pa = B.build_peptide(seqa, chain="A")
    pb = B.build_peptide(seqb, chain="B", origin=(0.0, 0.0, 22.0))
    het_name = rng.choice(["MET", "PHE", "LEU"])
    het = B.build_peptide([het_name], chain="L", origin=(0.0, 24.0, 0.0))
    solute = pa + pb + het
    nwat = len(must) + 1
    pts = B.waters(nwat + 1, around=solute, rng=np.random.default_rng(rng.randrange(1 << 30)), min_dist=3.6, near=[a for a in pa if a.name == "O"][1])
    waters = []
    for i in range(nwat):
        if i < len(must):
            resname, record, position = must[i]
        else:
            resname, record, position = rng.choice(WATER_NAMES), rng.choice(WATER_RECORDS), rng.choice(WATER_POSITIONS)
        chain = {"mid-chain": "A"}.get(position, rng.choice(["W", "W", "S", " ", "A" if position == "after-protein" else "X"]))
        waters.append({
            "resname": resname, "record": record, "position": position, "chain": chain,
            "resseq": 501 + 7 * i + k, "icode": rng.choice(["", "", "", "A"]),
            "altlocs": rng.choice([[" "], [" "], ["A"], ["A", "B"]]),
            "hydrogens": rng.random() < 0.3,
            "companions": rng.choice([[], [], ["ANISOU"], ["SIGATM"], ["ANISOU", "SIGATM", "SIGUIJ"]]),
            "xyz": tuple(round(float(v), 3) for v in pts[i].xyz),
        })
    # a water-like residue the code does not know as water: must not be dropped by anyone
    miss = {"resname": rng.choice(NEAR_MISS_NAMES), "record": "HETATM", "position": "after-protein", "chain": "Q", "resseq": 901, "icode": "", "altlocs": [" "], "hydrogens": False, "companions": [], "xyz": tuple(round(float(v), 3) for v in pts[nwat].xyz)}

    def chain_lines(atoms, hetatm=()):
        return [ln + "\n" for ln in B.to_pdb(atoms, ter=False, end=False, hetatm_for=hetatm).splitlines() if ln.startswith(("ATOM", "HETATM"))]

    la, lb, lh = chain_lines(pa), chain_lines(pb), chain_lines(het, (het_name,))
    # mid-chain waters go between residue 2 and 3 of chain A
    cut = next(i for i, ln in enumerate(la) if ln[22:26].strip() == "3")
    by = lambda pos: [ln for w in waters if w["position"] == pos for ln in water_lines(w)]  # noqa: E731
    header = [
        "HEADER    WATER SPELLINGS FOR --DROP-WATER                                      \n",
        "REMARK   2  HOH AND WAT RESIDUES ARE WATER; THIS LINE IS NOT A COORDINATE RECORD\n",
        "SEQADV 1XYZ HOH W  501  UNP  P00000              EXPRESSION TAG                 \n",
        "FORMUL   3  HOH   *6(H2 O)                                                      \n",
    ]
    body = header + by("before-protein") + la[:cut] + by("mid-chain") + la[cut:] + ["TER\n"] + by("between-chains") + lb + ["TER\n"] + lh + by("after-protein") + water_lines(miss) + ["END\n"]
    text = "".join(renumber_serials(body))
    spell = sorted({f"{w['resname']}/{w['record']}/{w['position']}" for w in waters})
    return {
        "id": f"dw{k}-{'-'.join(seqa)}/{'-'.join(seqb)}+{het_name}(HETATM)+" + ",".join(spell) + f"+{miss['resname']}",
        "pdb": text, "het": het_name, "waters": [{kk: vv for kk, vv in w.items()} for w in waters], "near_miss": miss["resname"],
    }


def dropwater_structures(ctx):
    feats = [(n, r, pos) for n in WATER_NAMES for r in WATER_RECORDS for pos in WATER_POSITIONS]  # 16 spellings x positions
    ctx.rng.shuffle(feats)
    nstruct = 4 if not ctx.thorough else 12
    out = []
    for k in range(nstruct):
        must = [feats[(4 * k + j) % len(feats)] for j in range(4)]
        out.append(dropwater_structure(ctx, k, must))
    return out


def real_drop_decisions(text):
    """For every line of `text`: (record objects the real reader makes of it, which of them
    the real main.drop_water removes). Uses the repo's own pdb.read_pdb and main.drop_water."""
    import io as _io

    from pdb2pqr import main as pmain
    from pdb2pqr import pdb as ppdb

    out = []
    for ln in text.splitlines():
        if not ln.strip():
            continue
        recs, _errs = ppdb.read_pdb(_io.StringIO(ln + "\n"))
        kept = pmain.drop_water(list(recs))
        out.append((ln, recs, [not any(r is k for k in kept) for r in recs]))
    return out


def text_water_line(ln):
    """The independent text-level definition: a coordinate record (ATOM/HETATM) of a residue named HOH/WAT."""
    return ln[0:6] in ("ATOM  ", "HETATM") and ln[17:20] in WATER_NAMES


def dropwater_hypotheses(ctx, structs):
    """Tie for C09_drop_water_commutes and for Model.Pipeline.drop_water:
    (H1) water_line l -> every record the real parser makes of l is removed by the real drop_water,
    (H2) not water_line l, l a coordinate record -> none is removed,
    (M)  the Coq model's is_water agrees with the real decision for every record kind seen."""
    seen = {}
    broke = False
    nrep = 0
    for st in structs:
        for ln, recs, dropped in real_drop_decisions(st["pdb"]):
            rec6 = ln[0:6]
            wl = text_water_line(ln)
            for r, d in zip(recs, dropped):
                rtype = r.record_type()
                res = getattr(r, "res_name", "")
                res = res if isinstance(res, str) else ""
                key = (rtype, res)
                if key not in seen:
                    seen[key] = (d, ln)
                ctx.cov["correspondence_cases"] += 1
                bad = None
                if wl and not d:
                    bad = ("H1", f"water coordinate line kept by main.drop_water: {ln!r} (record class {type(r).__name__})")
                elif not wl and rec6 in ("ATOM  ", "HETATM") and d:
                    bad = ("H2", f"non-water coordinate line removed by main.drop_water: {ln!r}")
                if bad:
                    broke = True
                    ctx.cov["correspondence_disagreements"] += 1
                    if nrep < 3:
                        nrep += 1
                        ctx.broke("correspondence-broken", f"hypothesis {bad[0]} of C09_drop_water_commutes fails on the real parser + main.drop_water", bad[1], {"kind": "tie-dropwater", "line": ln})
            if wl and not recs:
                ctx.count("drop-water:tie:water-line-not-parsed")
    # (M) the Coq model's decision for every (record type, residue name) seen
    keys = sorted(seen)
    safe = [k for k in keys if all(32 <= ord(c) <= 126 and c != '"' for c in k[0] + k[1])]
    term = 'String.concat "" (map (fun r => if is_water r then "1" else "0") ' + core.coq_list([f"mk_prec {core.coq_string(a)} {core.coq_string(b)} tt" for a, b in safe]) + ")"
    header = "From Coq Require Import String List.\nFrom PV Require Import Model.Pipeline.\nImport ListNotations.\nOpen Scope string_scope.\n"
    try:
        res = core.run_cases("C09dw", header, [term], chunk=10)[0]
    except core.CoqEvalError as e:
        ctx.broke("correspondence-broken", "Model.Pipeline.is_water could not be evaluated", str(e))
        return True
    for (rtype, resn), bit in zip(safe, res):
        ctx.cov["correspondence_cases"] += 1
        ctx.count(f"drop-water:tie:{rtype}:{resn if resn in WATER_NAMES else ('other' if resn else '-')}:{'dropped' if seen[(rtype, resn)][0] else 'kept'}")
        if (bit == "1") != seen[(rtype, resn)][0]:
            broke = True
            ctx.cov["correspondence_disagreements"] += 1
            ctx.broke("correspondence-broken", "Model.Pipeline.is_water/drop_water vs main.drop_water", f"record type {rtype!r} residue {resn!r}: model says {'dropped' if bit == '1' else 'kept'}, the code {'drops' if seen[(rtype, resn)][0] else 'keeps'} it (line {seen[(rtype, resn)][1]!r})", {"kind": "tie-dropwater", "line": seen[(rtype, resn)][1]})
    return broke


def dropwater_case(ctx, st, ff):
    text = st["pdb"]
    nowat = delete_water_lines(text)
    a = run_real(ctx, text, [f"--ff={ff}", "--drop-water", "--keep-chain"])
    b = run_real(ctx, nowat, [f"--ff={ff}", "--keep-chain"])
    c = run_real(ctx, text, [f"--ff={ff}", "--keep-chain"])
    if b["pqr_text"] is None:
        ctx.count(f"drop-water:reference-run-failed:{ff}")
        ctx.evaluated(("drop-water", st["id"], ff), False)
        return
    nontrivial = c["pqr_text"] is not None and c["pqr_text"] != b["pqr_text"] and len(atom_lines(b["pqr_text"])) > 0
    ctx.evaluated(("drop-water", st["id"], ff), nontrivial)
    ctx.count(f"drop-water:{ff}:{'nontrivial' if nontrivial else 'trivial'}")
    for w in st.get("waters", []):
        ctx.count(f"drop-water:spelling:{w['resname']}/{w['record']}/{w['position']}")
        ctx.count(f"drop-water:attrs:chain={'blank' if w['chain'] == ' ' else ('protein' if w['chain'] in 'AB' else 'own')},icode={'yes' if w['icode'] else 'no'},altloc={''.join(w['altlocs']).strip() or 'none'},H={'yes' if w['hydrogens'] else 'no'},companions={'+'.join(w['companions']) or 'none'}")
    if a["pqr_text"] == b["pqr_text"]:
        return
    # diagnose
    cond = ""
    if a["pqr_text"] is None:
        field, detail = "no-output", f"--drop-water run wrote no PQR ({exc_text(a)})"
    else:
        pa, pb = parse_pqr(a["pqr_text"], False), parse_pqr(b["pqr_text"], False)
        ra = {(x["chain"], x["resseq"], x["resname"]) for x in pa}
        rb = {(x["chain"], x["resseq"], x["resname"]) for x in pb}
        if rb - ra:
            lost = sorted(rb - ra)
            field, detail = "residue-lost", f"--drop-water also removed {lost}"
            field += ":" + ("non-water-HETATM" if all(r[2] == st["het"] for r in lost) else "other")
        elif ra - rb:
            kept = sorted(ra - rb)
            field = "water-kept"
            specs = [w for w in st.get("waters", []) if any(str(w["resseq"]) == r[1] for r in kept)]
            cond = "+".join(sorted({f"{w['record']}-record" for w in specs})) or "unknown-spelling"
            detail = f"--drop-water output still contains {kept}" + (f" (input spelling: {sorted({(w['resname'], w['record'], w['position']) for w in specs})})" if specs else "")
        else:
            d = compare_atoms(pb, pa, names_may_differ=False, chain_shown=True, chains_allowed=set("ABLWSXQ") | {""}, raw=True)
            field, detail = d if d else ("bytes", "same atoms, different file bytes")
    sig = {"site": "main.drop_water", "field": field}
    if cond:
        sig["condition"] = cond
    ctx.fail(sig, f"--drop-water (ff {ff}, {st['id']}) differs from the run on the input with waters deleted: {detail}", {"kind": "dropwater", "structure": st["id"], "pdb": text, "ff": ff, "het": st["het"], "waters": st.get("waters", []), "detail": detail})


# ---------------------------------------------------------------------------
# search 3: --neutraln / --neutralc (PARSE)


def neutral_structure(ctx, X, with_water):
    import numpy as np

    B = _B()
    pa = B.build_peptide([X, "GLY", X], chain="A")
    pb = B.build_peptide(["ALA", X, "SER"], chain="B", origin=(30.0, 0.0, 0.0))
    atoms = pa + pb
    if with_water:
        atoms = atoms + B.waters(2, around=pa + pb, rng=np.random.default_rng(1), near=[a for a in pa if a.name == "N"][0])
    nterm = {("A", "1"), ("B", "1")}
    cterm = {("A", "3"), ("B", "3")}
    return {"id": f"nt-{X}-GLY-{X}/ALA-{X}-SER{'+2HOH' if with_water else ''}", "pdb": B.to_pdb(atoms), "nterm": sorted(nterm), "cterm": sorted(cterm)}


def neutral_short_structure(ctx, X, Y, variant):
    """Chains whose amino part has length 1 and 2 next to a reference tetrapeptide.
    A one-residue chain is BOTH an N- and a C-terminus: each flag may only act through the role it
    is allowed to touch.  variant 'hidden': a lone OXT-bearing residue ahead of a peptide under the
    same chain ID (the hidden chain end); 'water': trailing waters inside the one-residue chain."""
    import numpy as np

    B = _B()
    ref = B.build_peptide(["GLY", "ALA", "SER", "GLY"], chain="A", start=1)
    one = B.build_peptide([X], chain="C", start=11, origin=(0.0, 25.0, 0.0))
    two = B.build_peptide([X, Y], chain="D", start=21, origin=(0.0, 0.0, 25.0))
    atoms = ref + one
    # residue numbers are unique in the file: residues are keyed by number only (pdb2pqr gives the
    # first segment of a split chain a fresh chain ID)
    nterm = {("", "1"), ("", "11"), ("", "21")}
    cterm = {("", "4"), ("", "11"), ("", "22")}
    if variant == "water":
        atoms = atoms + B.waters(2, around=ref + one + two, rng=np.random.default_rng(3), chain="C", start=12, min_dist=6.0)
    atoms = atoms + two
    if variant == "hidden":
        lone = B.build_peptide([X], chain="E", start=31, origin=(30.0, 0.0, 0.0))
        tail = B.build_peptide(["ALA", Y, "GLY"], chain="E", start=40, origin=(30.0, 25.0, 0.0))
        atoms = atoms + lone + tail
        nterm |= {("", "31"), ("", "40")}
        cterm |= {("", "31"), ("", "42")}
    return {"id": f"nt-short-{variant}:A=GLY-ALA-SER-GLY/C={X}/D={X}-{Y}" + (f"/E={X}(OXT)+ALA-{Y}-GLY@40" if variant == "hidden" else ""),
            "pdb": B.to_pdb(atoms), "nterm": sorted(nterm), "cterm": sorted(cterm), "by_resseq": True}


def neutral_layout_structures(ctx):
    B = _B()
    rng = ctx.rng
    others = [r for r in STANDARD_AA if r != "PRO"]
    out = []
    seqa = [rng.choice(others), "GLY", rng.choice(others)]
    seqb = [rng.choice(others), rng.choice(TITRATABLE), rng.choice(others)]
    pa = B.build_peptide(seqa, chain="A", start=1)
    pb = B.build_peptide(seqb, chain="B", start=11, origin=(0.0, 0.0, 22.0))
    blank = "".join((ln[:21] + " " + ln[22:]) if ln.startswith(("ATOM", "HETATM", "TER")) and len(ln) > 22 else ln for ln in B.to_pdb(pa + pb).splitlines(keepends=True))
    out.append({"id": f"nt-layout:blank-chain-ids:{'-'.join(seqa)}/{'-'.join(seqb)}", "pdb": blank,
                "nterm": [("", "1"), ("", "11")], "cterm": [("", "3"), ("", "13")], "by_resseq": True})
    try:
        ring = B.ring_peptide(["GLY", rng.choice(["ALA", "SER"]), "GLY", rng.choice(["LYS", "ASP"]), "GLY", "ALA"], chain="R")
        out.append({"id": "nt-layout:cyclic-hexapeptide", "pdb": B.to_pdb(ring), "nterm": [], "cterm": [], "by_resseq": True})
    except Exception as e:  # noqa: BLE001
        ctx.count(f"neutral:layout-not-built:cyclic:{type(e).__name__}")
    return out


def group_residues(atoms, by_resseq=False):
    g = {}
    for a in atoms:
        g.setdefault(("" if by_resseq else a["chain"], a["resseq"]), []).append(a)
    return g


def res_charge(atoms):
    return sum(float(a["num"][3]) for a in atoms)


def is_h(a):
    return a["name"].lstrip("0123456789").startswith("H")


def min_dist(ra, rb):
    best = 1e9
    for a in ra:
        for b in rb:
            d = math.dist([float(v) for v in a["num"][:3]], [float(v) for v in b["num"][:3]])
            best = min(best, d)
    return best


def neutral_compare(st, base_atoms, opt_atoms, flags, single=None):
    """List of (signature, what) violations for one neutral run against the base run.

    Attribution per flag: --neutraln may change a residue only through its N-terminal role (-1),
    --neutralc only through its C-terminal role (+1).  A residue that is both ends of its chain
    (one-residue chain) may be changed by either flag, but each only by its own amount; with both
    flags its shift must be the sum of the two single-flag shifts (`single` = {'n': {res: delta},
    'c': {...}} observed in the single-flag runs)."""
    out = []
    gb, go = group_residues(base_atoms, st.get("by_resseq", False)), group_residues(opt_atoms, st.get("by_resseq", False))
    nterm, cterm = {tuple(x) for x in st["nterm"]}, {tuple(x) for x in st["cterm"]}
    key = lambda r: [(a["name"], a["resname"], a["num"]) for a in r]  # noqa: E731
    changed = [k for k in gb if k not in go or key(gb[k]) != key(go[k])] + [k for k in go if k not in gb]
    allowed = (nterm if "n" in flags else set()) | (cterm if "c" in flags else set())
    neutralised = [k for k in changed if k in allowed]
    info = {"neutralised": neutralised, "changed": changed, "delta": {}}
    want_total = 0.0
    for k in changed:
        if k in allowed:
            both = k in nterm and k in cterm
            if flags == "n":
                want, role = -1.0, "N"
            elif flags == "c":
                want, role = 1.0, "C"
            elif both:
                role = "N+C"
                want = None
                if single is not None and "n" in single and "c" in single:
                    want = single["n"].get(k, 0.0) + single["c"].get(k, 0.0)
            else:
                want, role = (-1.0, "N") if k in nterm else (1.0, "C")
            if k not in go or k not in gb:
                out.append(({"site": "Biomolecule.set_termini/apply_patch", "option": flags, "field": "terminal-residue-missing"}, f"terminal residue {k} disappeared"))
                continue
            d = res_charge(go[k]) - res_charge(gb[k])
            info["delta"][k] = d
            ends = "both-ends" if both else "one-end"
            if want is None:
                want = min((-1.0, 0.0, 1.0), key=lambda w: abs(d - w))
            want_total += want
            if abs(d - want) > 2e-3:
                out.append(({"site": "Amino.set_state/Biomolecule.apply_patch", "option": flags, "field": "terminus-charge-shift", "condition": f"{role}-terminus:{ends}"}, f"{gb[k][0]['resname']} {k} ({ends} of its chain) under --neutral{flags}: charge {res_charge(gb[k]):.4f} -> {res_charge(go[k]):.4f} (shift {d:+.4f}; the {role}-terminal role allows {want:+.0f}" + ("" if flags != "nc" or not both else " = sum of the single-flag shifts") + ")"))
            continue
        # a residue the option must not touch
        if k not in gb or k not in go:
            out.append(({"site": "Biomolecule.set_termini", "option": flags, "field": "non-terminal-residue-added-or-removed"}, f"residue {k} present in only one of the runs"))
            continue
        b, o = gb[k], go[k]
        where = "other-terminus" if k in (nterm | cterm) else "non-terminal"
        same_shape = [(a["name"], a["resname"], a["num"][3], a["num"][4]) for a in b] == [(a["name"], a["resname"], a["num"][3], a["num"][4]) for a in o]
        heavy_same = same_shape and all(x["num"][:3] == y["num"][:3] for x, y in zip(b, o) if not is_h(x))
        if same_shape and heavy_same:
            # distance to EVERY terminus the flag patches (all residues in the flagged roles), not only to
            # those whose printed atoms changed: a one-residue chain under --neutralc is patched NEUTRAL-CTERM
            # (gains HO) but keeps the name N<res>, under which HO/OXT are not parameterised and not printed -
            # its output is identical although the optimiser sees a different donor
            near = min((min_dist(b, gb[t]) for t in allowed if t in gb), default=1e9)
            cond = "within-optimiser-neighbourhood-of-neutralised-terminus" if near <= 10.0 else "remote-from-every-neutralised-terminus"
            out.append(({"site": "hydrogens.optimize_hydrogens", "option": flags, "field": "hydrogen-positions-only", "condition": cond, "where": where}, f"{where} residue {b[0]['resname']} {k}: only hydrogen positions differ ({near:.1f} A from the nearest terminus the flag patches)"))
        else:
            what = "atom-names" if [(a["name"], a["resname"]) for a in b] != [(a["name"], a["resname"]) for a in o] else ("charge-or-radius" if not same_shape else "heavy-atom-coordinates")
            out.append(({"site": "Biomolecule.set_termini/apply_patch", "option": flags, "field": f"{where}-residue-changed:{what}"}, f"{where} residue {b[0]['resname']} {k} changed ({what}) under --neutral{flags}"))
    # total charge: exactly -1 per N-terminus neutralised by --neutraln, +1 per C-terminus neutralised by --neutralc
    tot = res_charge(opt_atoms) - res_charge(base_atoms)
    if abs(tot - want_total) > 5e-3:
        out.append(({"site": "Amino.set_state/Biomolecule.apply_patch", "option": flags, "field": "total-charge-shift"}, f"total charge shift {tot:+.4f}, expected {want_total:+.0f} (sum of the shifts the flags may cause on the {len(neutralised)} termini that changed)"))
    return out, info


def ffname_step_tie(ctx, st, base, res, flags, info):
    """Tie for C09_neutral_shift / C09_neutral_only_termini: between the two real runs every
    residue's ffname is either unchanged or goes Nxxx -> NEUTRAL-Nxxx (an N-terminus under
    --neutraln) / Cxxx -> NEUTRAL-Cxxx (a C-terminus under --neutralc): the step relation of the theorem."""
    try:
        byr = st.get("by_resseq", False)
        r1 = [("" if byr else str(r.chain_id), str(r.res_seq), r.ffname) for r in base["result"][2].residues]
        r2 = [("" if byr else str(r.chain_id), str(r.res_seq), r.ffname) for r in res["result"][2].residues]
    except Exception as e:  # noqa: BLE001
        ctx.broke("correspondence-broken", "cannot read residue ffnames of the real runs", f"{type(e).__name__}: {e}")
        return
    nterm, cterm = {tuple(x) for x in st["nterm"]}, {tuple(x) for x in st["cterm"]}
    bad = None
    if [x[:2] for x in r1] != [x[:2] for x in r2]:
        bad = "the residue lists of the two runs differ"
    changed = set()
    for (c, n, f1), (_c, _n, f2) in zip(r1, r2):
        ctx.cov["correspondence_cases"] += 1
        if f1 == f2:
            continue
        changed.add((c, n))
        okn = "n" in flags and (c, n) in nterm and f1.startswith("N") and f2 == "NEUTRAL-" + f1
        okc = "c" in flags and (c, n) in cterm and f1.startswith("C") and f2 == "NEUTRAL-" + f1
        if not (okn or okc) and bad is None:
            bad = f"residue {c} {n}: ffname {f1} -> {f2} under --neutral{flags} is not N->NEUTRAL-N / C->NEUTRAL-C at a terminus"
    if bad is None and changed != set(info["neutralised"]):
        bad = f"residues whose ffname changed {sorted(changed)} != terminal residues whose output changed {sorted(info['neutralised'])}"
    if bad:
        ctx.cov["correspondence_disagreements"] += 1
        if len([b for b in ctx.broken if "step relation" in b["what"]]) < 3:
            ctx.broke("correspondence-broken", "real runs leave the step relation of C09_neutral_shift (ffname transitions)", f"{st['id']} --neutral{flags}: {bad}", {"kind": "tie-neutral", "structure": st["id"], "flags": flags})


def neutral_case(ctx, st, X):
    base_args = ["--ff=PARSE", "--keep-chain"]
    base = run_real(ctx, st["pdb"], base_args)
    if base["pqr_text"] is None:
        ctx.count(f"neutral:base-run-failed:{X}")
        return
    ba = parse_pqr(base["pqr_text"], False)
    single = {}
    for flags, extra in (("n", ["--neutraln"]), ("c", ["--neutralc"]), ("nc", ["--neutraln", "--neutralc"])):
        res = run_real(ctx, st["pdb"], base_args + extra)
        if res["pqr_text"] is None:
            # the run aborts loudly (no output): nothing to compare (known: NEUTRAL-CPRO is not integral in PARSE)
            ctx.count(f"neutral:{flags}:run-aborted:{X}:{(exc_text(res) or '')[:60]}")
            ctx.evaluated(("neutral", st["id"], flags), False)
            continue
        oa = parse_pqr(res["pqr_text"], False)
        viol, info = neutral_compare(st, ba, oa, flags, single)
        if flags in ("n", "c"):
            single[flags] = info["delta"]
        ffname_step_tie(ctx, st, base, res, flags, info)
        ctx.evaluated(("neutral", st["id"], flags), len(info["neutralised"]) > 0)
        ctx.count(f"neutral:{flags}:termini-neutralised={len(info['neutralised'])}")
        for k in (set(map(tuple, st["nterm"])) if "n" in flags else set()) | (set(map(tuple, st["cterm"])) if "c" in flags else set()):
            if k not in info["neutralised"]:
                g = group_residues(ba, st.get("by_resseq", False)).get(k)
                ctx.count(f"neutral:{flags}:terminus-not-neutralised:{g[0]['resname'] if g else '?'}")
        for sig, what in viol:
            ctx.fail(sig, f"--neutral{flags} (PARSE, {st['id']}): {what}", {"kind": "neutral", "structure": st["id"], "pdb": st["pdb"], "nterm": st["nterm"], "cterm": st["cterm"], "by_resseq": st.get("by_resseq", False), "flags": flags, "signature": sig, "detail": what})


def search_neutral(ctx, high):
    water_for = set(ctx.rng.sample(STANDARD_AA, 4)) | {"SER"}
    for X in STANDARD_AA:
        neutral_case(ctx, neutral_structure(ctx, X, X in water_for or high), X)
    # chains whose amino part has length 1 and 2 (a one-residue chain is both termini), every residue type;
    # a lone OXT-bearing residue ahead of a peptide under one chain ID; waters trailing a one-residue chain
    others = [r for r in STANDARD_AA if r != "PRO"]
    for i, X in enumerate(STANDARD_AA):
        variant = ("plain", "hidden", "water")[(i + ctx.seed) % 3]
        neutral_case(ctx, neutral_short_structure(ctx, X, ctx.rng.choice(others), variant), "short:" + X)
    # layouts: blank chain IDs (two chains told apart by TER only) and a cyclic peptide (no terminus at all:
    # the flags must change nothing)
    for st in neutral_layout_structures(ctx):
        neutral_case(ctx, st, "layout")
    # other force fields must refuse the flags (check_options); counted only
    st = neutral_structure(ctx, "ALA", False)
    res = run_real(ctx, st["pdb"], ["--ff=AMBER", "--neutraln"])
    ctx.count("neutral:non-PARSE:" + ("refused" if res["pqr_text"] is None else "accepted"))


# ---------------------------------------------------------------------------
# class audit: entry points, compute x formatting product, layouts, process history

ENTRIES = ("driver", "run_pdb2pqr", "cli")


def run_entry(ctx, text, args, input_name="input.pdb", entry="driver"):
    """One run through main_driver(Namespace) (builder), main.run_pdb2pqr(list) or a FRESH
    process running the console entry main().  Returns {'pqr_text', 'exc'} (exc = text or None)."""
    import subprocess

    if entry == "driver":
        r = run_real(ctx, text, args, input_name)
        return {"pqr_text": r["pqr_text"], "exc": exc_text(r)}
    wd = ctx.scratch_dir() / "w"
    wd.mkdir(parents=True, exist_ok=True)
    inp, outp = wd / input_name, wd / "output.pqr"
    for stale in (outp, outp.with_suffix(".log"), wd / "out.pdb", wd / "out.in"):
        if stale.exists():
            stale.unlink()
    inp.write_text(text)
    exc = None
    if entry == "run_pdb2pqr":
        B = _B()
        from pdb2pqr import main as pmain

        with B.capture_pdb2pqr_log():
            try:
                pmain.run_pdb2pqr([*map(str, args), str(inp), str(outp)])
            except BaseException as e:  # noqa: BLE001
                if isinstance(e, KeyboardInterrupt):
                    raise
                exc = f"{type(e).__name__}: {e}"
    else:
        code = "import sys; from pdb2pqr.main import main; sys.argv = ['pdb2pqr'] + sys.argv[1:]; main()"
        env = {**os.environ, "PYTHONPATH": f"{core.REPO}:{core.VERIF}", "PYTHONHASHSEED": "0"}
        pr = subprocess.run(["timeout", "300", sys.executable, "-c", code, *map(str, args), str(inp), str(outp)], capture_output=True, text=True, env=env, cwd=str(wd))
        if pr.returncode != 0:
            exc = f"exit {pr.returncode}: {pr.stderr.strip().splitlines()[-1][:200] if pr.stderr.strip() else ''}"
    return {"pqr_text": outp.read_text() if outp.exists() else None, "exc": exc}


def layout_structures(ctx):
    """Input layouts of the audit list; chains = chain IDs that may show up with --keep-chain."""
    import numpy as np

    B = _B()
    rng = ctx.rng
    out = []
    others = [r for r in STANDARD_AA if r != "PRO"]
    X, Y = rng.choice(others), rng.choice(others)
    s = neutral_short_structure(ctx, X, Y, "hidden")
    out.append({"id": "layout:" + s["id"], "pdb": s["pdb"], "chains": set("ABCDEFGHIJ"), "kind": "short+hidden"})
    # blank chain IDs, two chains separated by TER, waters with blank chain
    pa = B.build_peptide([rng.choice(TITRATABLE), "GLY", rng.choice(others)], chain="A")
    pb = B.build_peptide(["SER", rng.choice(TITRATABLE), "ALA"], chain="B", start=11, origin=(0.0, 0.0, 22.0))
    w = B.waters(2, around=pa + pb, rng=np.random.default_rng(5), chain="W", start=101)
    blank = "".join((ln[:21] + " " + ln[22:]) if ln.startswith(("ATOM", "HETATM", "TER")) and len(ln) > 22 else ln for ln in B.to_pdb(pa + pb + w).splitlines(keepends=True))
    out.append({"id": "layout:blank-chain-ids", "pdb": blank, "chains": set("ABCDEFGH") | {""}, "kind": "blank-chains"})
    # waters listed under the polymer's chain ID (before and after it) + nucleic strand with same-chain water
    pep = B.build_peptide([rng.choice(others), rng.choice(TITRATABLE), "GLY", rng.choice(others)], chain="A", start=5)
    ws = B.waters(3, around=pep, rng=np.random.default_rng(6), chain="A", start=201)
    dna = B.build_strand([rng.choice("ACGT") for _ in range(3)], chain="N", origin=(0.0, 30.0, 0.0))
    wn = B.waters(1, around=pep + dna, rng=np.random.default_rng(7), chain="N", start=301)
    out.append({"id": "layout:waters-under-chain-id+dna", "pdb": B.to_pdb(ws[:1] + pep + ws[1:] + dna + wn), "chains": {"A", "N"}, "kind": "same-chain-waters"})
    # a residue without a definition at first / middle / last position
    unk = rng.choice(["DAL", "MSE", "XYZ"])
    pos = rng.choice([0, 2, 4])
    seq = ["ALA", "LYS", "GLY", "ASP", "SER"]
    pu = B.build_peptide(seq, chain="U")
    txt = B.to_pdb(pu)
    num = str(pos + 1)
    txt = "".join((ln[:17] + unk + ln[20:]) if ln.startswith("ATOM") and ln[22:26].strip() == num else ln for ln in txt.splitlines(keepends=True))
    out.append({"id": f"layout:unknown-residue-{unk}@{pos + 1}/5", "pdb": txt, "chains": set("UABCD"), "kind": "unknown-residue"})
    # cyclic peptide
    try:
        ring = B.ring_peptide(["GLY", rng.choice(["ALA", "SER"]), "GLY", rng.choice(["LYS", "ASP"]), "GLY", "ALA"], chain="R")
        out.append({"id": "layout:cyclic-hexapeptide", "pdb": B.to_pdb(ring), "chains": {"R"}, "kind": "cyclic"})
    except Exception as e:  # noqa: BLE001 - scaffolding limit, counted
        ctx.count(f"audit:layout-not-built:cyclic:{type(e).__name__}")
    return out


def ligand_structure(ctx):
    """Peptide + the acetate of tests/data/acetate.mol2 as HETATM residue LIG (for --ligand)."""
    B = _B()
    mol2 = core.REPO / "tests" / "data" / "acetate.mol2"
    if not mol2.exists():
        mol2 = Path("/repo/tests/data/acetate.mol2")
    if not mol2.exists():
        return None
    lines, on = [], False
    for ln in mol2.read_text().splitlines():
        if ln.startswith("@<TRIPOS>"):
            on = ln.strip() == "@<TRIPOS>ATOM"
            continue
        f = ln.split()
        if on and len(f) >= 6:
            lines.append(_coord_line("HETATM", 0, f[1], " ", "LIG", "L", 1, " ", (float(f[2]), float(f[3]), float(f[4])), f[1][0]))
    pep = B.build_peptide(["ALA", "LYS", "GLY", "ASP"], chain="A", origin=(25.0, 25.0, 25.0))
    body = [ln + "\n" for ln in B.to_pdb(pep, end=False).splitlines()] + lines + ["END\n"]
    return {"id": "layout:peptide+acetate-ligand", "pdb": "".join(renumber_serials(body)), "chains": {"A", "L"}, "kind": "ligand", "mol2": str(mol2)}


def random_compute_args(ctx, st):
    """A random compute setting (options that DO change the model); returns (args, ff)."""
    rng = ctx.rng
    wd = ctx.scratch_dir() / "w"
    wd.mkdir(parents=True, exist_ok=True)
    args = []
    ff = rng.choice(NA_FFS if st["kind"] == "dna" else FFS)
    mode = rng.random() if st["kind"] != "dna" else 0.9
    if st["kind"] == "ligand":
        ff = rng.choice(["AMBER", "PARSE", "CHARMM"])
        args += [f"--ff={ff}", f"--ligand={st['mol2']}"]
    elif mode < 0.2:
        # user force field = a copy of a built-in one (each spelling: with --ff too, or alone)
        dat = core.REPO / "pdb2pqr" / "dat"
        (wd / "user.DAT").write_text((dat / f"{ff}.DAT").read_text())
        (wd / "user.names").write_text((dat / f"{ff}.names").read_text())
        args += [f"--userff={wd / 'user.DAT'}", f"--usernames={wd / 'user.names'}"] + ([f"--ff={ff}"] if rng.random() < 0.5 else [])
    elif mode < 0.4:
        ff = "PARSE"
        args += ["--ff=PARSE"] + rng.choice([["--neutraln"], ["--neutralc"], ["--neutraln", "--neutralc"]])
    else:
        args += [f"--ff={ff}"]
    if rng.random() < 0.3:
        args.append("--noopt")
    if rng.random() < 0.3:
        args.append("--nodebump")
    if rng.random() < 0.3:
        args.append("--drop-water")
    if rng.random() < 0.2 and ff in ("PARSE", "AMBER", "CHARMM") and st["kind"] not in ("unknown-residue",):
        args += ["--titration-state-method=propka", f"--with-ph={rng.choice(['2.0', '4.5', '7', '7.00', '9.25', '12'])}"]
    return args, ff


def random_format_args(ctx):
    rng = ctx.rng
    opts = [o for o in FORMAT_OPTS if rng.random() < 0.45]
    if not opts:
        opts = [rng.choice(FORMAT_OPTS)]
    scheme = rng.choice(FFS) if "ffout" in opts else None
    extra = [f"--log-level={rng.choice(['DEBUG', 'INFO', 'WARNING', 'ERROR', 'CRITICAL'])}"] if rng.random() < 0.5 else []
    return opts, scheme, extra


def audit_product(ctx, structs, nsamples):
    """(2)+(3): for a random compute setting on a random layout, the model written by a run with
    random formatting options (through a random entry point) equals the model of the plain run."""
    rng = ctx.rng
    for k in range(nsamples):
        st = structs[k % len(structs)]
        cargs, ff = random_compute_args(ctx, st)
        input_name = st.get("input_name", "input.pdb")
        base = run_entry(ctx, st["pdb"], cargs, input_name, "driver")
        if base["pqr_text"] is None:
            ctx.count(f"audit:product:base-run-failed:{st['kind']}:{(base['exc'] or '')[:50]}")
            ctx.evaluated(("audit-base", st["id"], tuple(cargs)), False)
            continue
        ba = parse_pqr(base["pqr_text"], False)
        for _j in range(2):
            opts, scheme, extra = random_format_args(ctx)
            entry = rng.choice(ENTRIES if _j == 0 else ("driver", "run_pdb2pqr"))
            fargs = option_args(ctx, opts, scheme) + extra
            res = run_entry(ctx, st["pdb"], cargs + fargs, input_name, entry)
            ctx.count(f"audit:product:{st['kind']}:entry={entry}")
            for a in cargs:
                ctx.count("audit:product:compute:" + a.split("=")[0])
            ctx.evaluated(("audit", st["id"], tuple(cargs), classify_subset(opts), scheme, entry), len(ba) > 0)
            shim = {"pqr_text": res["pqr_text"], "exc": None}
            d = None
            if res["pqr_text"] is None:
                d = ("no-output", f"the option run wrote no PQR file ({res['exc']})")
            else:
                d = lattice_compare(st, ba, shim, opts)
            if d:
                field, detail = d
                sig = lattice_sig(opts, [a for a in cargs if not a.startswith("--ff=")], field)
                sig["entry"] = entry
                ctx.fail(sig, f"[{entry}] {' '.join(cargs)} on {st['id']}: adding {' '.join(a.split('=')[0] for a in fargs)} changes the model: {field}: {detail}",
                         {"kind": "lattice", "structure": st["id"], "pdb": st["pdb"], "input_name": input_name, "ff": ff, "opts": sorted(opts), "scheme": scheme, "chains": sorted(st["chains"]), "extra_args": [a for a in cargs if not a.startswith("--ff=")] + extra, "entry": entry, "base_args": cargs, "detail": detail})


def audit_history(ctx, structs):
    """(1): option set A, then B, then A again in ONE process gives A's bytes again; B in this
    process equals B in a fresh process (nothing a formatting option does - in-place renaming by
    --ffout included - survives on shared definition / force-field objects)."""
    rng = ctx.rng
    for st in structs:
        ff = rng.choice(FFS if st["kind"] != "dna" else NA_FFS)
        A = [f"--ff={ff}"]
        schemes = [s for s in FFS if s != ff]
        Bopts = ["ffout", "keep_chain"] + [o for o in ("whitespace", "include_header") if rng.random() < 0.5]
        Bargs = [f"--ff={ff}"] + option_args(ctx, Bopts, rng.choice(schemes))
        seq = [("A", A), ("B", Bargs), ("A", A), ("B", Bargs)]
        outs = []
        for tag, args in seq:
            r = run_entry(ctx, st["pdb"], args, st.get("input_name", "input.pdb"), rng.choice(("driver", "run_pdb2pqr")))
            outs.append(r["pqr_text"])
        fresh = run_entry(ctx, st["pdb"], Bargs, st.get("input_name", "input.pdb"), "cli")
        ctx.evaluated(("history", st["id"], ff, tuple(Bargs[1:])), outs[0] is not None and len(atom_lines(outs[0] or "")) > 0)
        ctx.count(f"audit:history:{st['kind']}")
        bad = None
        if outs[0] != outs[2]:
            bad = ("A-B-A", "the plain run after a run with formatting options differs from the plain run before it")
        elif outs[1] != outs[3]:
            bad = ("B-A-B", "the second run with the formatting options differs from the first")
        elif outs[1] != fresh["pqr_text"]:
            bad = ("in-process-vs-fresh-process", f"the formatted run in this process differs from the same run in a fresh process ({fresh['exc']})")
        if bad:
            first = ""
            x, y = (outs[0], outs[2]) if bad[0] == "A-B-A" else ((outs[1], outs[3]) if bad[0] == "B-A-B" else (outs[1], fresh["pqr_text"]))
            for l1, l2 in zip((x or "").splitlines(), (y or "").splitlines()):
                if l1 != l2:
                    first = f": first differing line {l1!r} vs {l2!r}"
                    break
            ctx.fail({"site": "process-history", "field": bad[0], "option": classify_subset(Bopts)}, f"{st['id']} ff {ff}: {bad[1]}{first}",
                     {"kind": "history", "structure": st["id"], "pdb": st["pdb"], "input_name": st.get("input_name", "input.pdb"), "A": A, "B": Bargs})


def audit_history_one(ctx, case):
    outs = [run_entry(ctx, case["pdb"], a, case.get("input_name", "input.pdb"), "driver")["pqr_text"] for a in (case["A"], case["B"], case["A"], case["B"])]
    fresh = run_entry(ctx, case["pdb"], case["B"], case.get("input_name", "input.pdb"), "cli")["pqr_text"]
    for fld, x, y in (("A-B-A", outs[0], outs[2]), ("B-A-B", outs[1], outs[3]), ("in-process-vs-fresh-process", outs[1], fresh)):
        if x != y:
            ctx.fail({"site": "process-history", "field": fld}, f"replay: {fld} differs", case)
            return


def search_audit(ctx, structs, high):
    S0, Srand, Sdna = structs
    layouts = layout_structures(ctx)
    lig = ligand_structure(ctx)
    pool = layouts + ([lig] if lig else []) + [Srand, Sdna]
    audit_product(ctx, pool, (5 * len(pool)) if (high or ctx.thorough) else 2 * len(pool))
    audit_history(ctx, [S0, layouts[0]] + ([Sdna, layouts[2], Srand] if (high or ctx.thorough) else []))


# ---------------------------------------------------------------------------
# corpus / replay


def replay_case(ctx, case):
    """Re-execute a stored case against the repo. Returns list of (signature, what)."""
    kind = case["kind"]
    if kind == "lattice":
        st = {"id": case["structure"], "pdb": case["pdb"], "chains": set(case["chains"]), "input_name": case.get("input_name", "input.pdb")}
        extra = case.get("extra_args", [])
        bargs = case.get("base_args") or ([f"--ff={case['ff']}"] + extra)
        oargs = (case["base_args"] + [a for a in extra if a.startswith("--log-level")]) if case.get("base_args") else bargs
        base = run_entry(ctx, st["pdb"], bargs, st["input_name"], "driver")
        if base["pqr_text"] is None:
            return [({"site": "base-run", "field": "no-output"}, f"base run failed: {base['exc']}")]
        ba = parse_pqr(base["pqr_text"], False)
        res = run_entry(ctx, st["pdb"], oargs + option_args(ctx, case["opts"], case.get("scheme")), st["input_name"], case.get("entry", "driver"))
        d = ("no-output", f"no PQR written ({res['exc']})") if res["pqr_text"] is None else lattice_compare(st, ba, {"pqr_text": res["pqr_text"], "exc": None}, case["opts"])
        if d:
            return [(lattice_sig(case["opts"], extra, d[0]), d[1])]
        return []
    if kind == "history":
        before = len(ctx.failures)
        audit_history_one(ctx, case)
        return [(f["signature"], f["what"]) for f in ctx.failures[before:]]
    if kind == "dropwater":
        before = len(ctx.failures) + sum(ctx.known_hits.values())
        dropwater_case(ctx, {"id": case["structure"], "pdb": case["pdb"], "het": case.get("het", ""), "waters": case.get("waters", [])}, case["ff"])
        after = len(ctx.failures) + sum(ctx.known_hits.values())
        return [({"site": "main.drop_water"}, "still differs")] if after > before else []
    if kind == "neutral":
        st = {"id": case["structure"], "pdb": case["pdb"], "nterm": case["nterm"], "cterm": case["cterm"], "by_resseq": case.get("by_resseq", False)}
        base = run_real(ctx, st["pdb"], ["--ff=PARSE", "--keep-chain"])
        extra = {"n": ["--neutraln"], "c": ["--neutralc"], "nc": ["--neutraln", "--neutralc"]}[case["flags"]]
        res = run_real(ctx, st["pdb"], ["--ff=PARSE", "--keep-chain"] + extra)
        if base["pqr_text"] is None or res["pqr_text"] is None:
            return []
        ba = parse_pqr(base["pqr_text"], False)
        single = None
        if case["flags"] == "nc":
            single = {}
            for fl, ex in (("n", ["--neutraln"]), ("c", ["--neutralc"])):
                r1 = run_real(ctx, st["pdb"], ["--ff=PARSE", "--keep-chain"] + ex)
                if r1["pqr_text"] is not None:
                    single[fl] = neutral_compare(st, ba, parse_pqr(r1["pqr_text"], False), fl)[1]["delta"]
        viol, _ = neutral_compare(st, ba, parse_pqr(res["pqr_text"], False), case["flags"], single)
        if "signature" in case:
            viol = [v for v in viol if v[0] == case["signature"]]
        return viol
    return []


def run_corpus(ctx):
    d = core.CORPUS / "C09"
    if not d.exists():
        return
    for f in sorted(d.glob("*.json")):
        case = json.loads(f.read_text())
        expect = case.get("expect", "pass")
        viol = replay_case(ctx, case)
        ctx.count(f"corpus:{f.stem}:{'fails' if viol else 'passes'}")
        ctx.evaluated(("corpus", f.stem), True)
        for sig, what in viol:
            ctx.fail(sig, f"corpus {f.name}: {what}", dict(case, detail=what))
        if expect == "known-finding" and not viol:
            ctx.notes.append(f"corpus {f.name}: recorded finding no longer reproduces (fixed upstream?)")


# ---------------------------------------------------------------------------


def proof_stage_on_own_table(ctx, info):
    """core.proof_stage, repeated once if Generated/Stages.v was rewritten by a concurrent
    check (C12 shares the table; a sensitivity run elsewhere may point it at a scratch repo)."""
    for attempt in (0, 1):
        marks = (len(ctx.obligations), len(ctx.discharged), len(ctx.broken), len(ctx.trusted))
        ok = core.proof_stage(ctx, "C09", THEOREMS, ALLOWED_AXIOMS)
        try:
            same = (core.GEN / "Stages.v").read_text() == info["_coq_text"]
        except OSError:
            same = False
        if same or attempt == 1:
            if not same:
                ctx.notes.append("Generated/Stages.v was rewritten by another process during the build (twice)")
            return ok
        ctx.notes.append("Generated/Stages.v was rewritten by another process during the build; regenerated and rebuilt")
        del ctx.obligations[marks[0]:], ctx.discharged[marks[1]:], ctx.broken[marks[2]:], ctx.trusted[marks[3]:]
        ctx.axioms.clear()
        core.write_if_changed(core.GEN / "Stages.v", info["_coq_text"])
    return ok


def run(ctx):
    ctx.cov["rule"] = (
        "real main_driver runs on builder structures (fixed 7-residue peptide with 5 titratable residues + 3 waters, a seeded "
        "random 5-7 residue peptide + waters, a seeded 3-5 nt DNA strand, CIF rendering of the first, copies translated to straddle x = -1000 and y = +10000 where a coordinate needs nine "
        "characters): base run vs run with a "
        "subset of {--whitespace,--keep-chain,--include-header,--pdb-output,--apbs-input,--ffout=<scheme>}; full 2^6 lattice on "
        "4 (structure, force field) pairs (all 18 in thorough / after a break), one-option-at-a-time + all six --ffout schemes + "
        "all-on for the other pairs; --drop-water vs text-level deletion of HOH/WAT records x 6 force fields; --neutraln/"
        "--neutralc/both on [X,GLY,X]+[ALA,X,SER] and on chains of length 1 and 2 ([X], [X,Y]; lone OXT-bearing residue "
        "ahead of a peptide under one chain ID; waters trailing a one-residue chain) for all 20 residue types X (PARSE), each "
        "change attributed to the flag allowed to cause it, plus blank-chain-ID and cyclic layouts. Class audit: random compute "
        "settings (ff, userff/usernames, neutral flags, noopt, nodebump, drop-water, PROPKA at several pH, ligand) x random "
        "formatting subsets (+ --log-level) through main_driver(Namespace) / run_pdb2pqr / console main() in a fresh process on "
        "layout structures (short chains, hidden chain end, blank chain IDs, same-chain waters, unknown residue, cyclic, "
        "ligand); A-B-A-B option histories in one process vs a fresh process. A case is non-trivial when the base "
        "output has >= 1 atom (lattice), when dropping waters changes the output (drop-water), when >= 1 terminus was actually "
        "neutralised (neutral); distinct by (structure, force field, option subset, scheme)."
    )
    info = regenerate(ctx)
    if info is None:
        # the generated obligations cannot be claimed for the current code
        ctx.obligations.extend(THEOREMS)
        ok = False
    else:
        ok = proof_stage_on_own_table(ctx, info)
    S0 = struct_fixed()
    Srand = struct_random_peptide(ctx.rng)
    Sdna = struct_dna(ctx.rng)
    run_corpus(ctx)
    tie_broke = False
    if info is not None:
        tie_broke = tie(ctx, info, S0, Sdna)
    high = (not ok) or tie_broke
    search_lattice(ctx, (S0, Srand, Sdna), high)
    dws = dropwater_structures(ctx)
    dw_broke = dropwater_hypotheses(ctx, dws)
    for i, st in enumerate(dws):
        for ff in FFS if (i == 0 or high or dw_broke or ctx.thorough) else ["PARSE", FFS[(ctx.seed + i) % 6]]:
            dropwater_case(ctx, st, ff)
    search_neutral(ctx, high)
    search_audit(ctx, (S0, Srand, Sdna), high)
    ctx.sample({"structure": S0["id"], "pdb_head": S0["pdb"].splitlines()[:3], "lattice": "63 option subsets vs base, numeric columns compared as bytes (tokens under --whitespace)"})
    ctx.sample({"structure": Srand["id"]})
    ctx.sample({"structure": Sdna["id"]})
    if info is not None:
        ctx.sample({"generated_table": f"{len(info['stages'])} stages, {sum(1 for s in info['stages'] if s['kind'] == 'Compute')} Compute; format-option reads: " + "; ".join(f"{s['idx']}:{s['name']}({s['kind']}):{sorted(set(s['syn_reads']) & set(FORMAT_OPTS))}" for s in info["stages"] if s["kind"] != "Log" and set(s["syn_reads"]) & set(FORMAT_OPTS))})
    ctx.sample({"obligation": "C09_generated_obligation: c09_obligation format_opts stages = true (vm_compute on the regenerated table)"})
    ctx.trusted += [
        "translator gen/stages.py (Python ast -> Stages.v): call resolution, constant propagation, KIND_TABLE; validated this run by the recording proxy (observed reads subset of syn_reads), stage-order trace and before/after biomolecule snapshots around every non-Compute stage",
        "stage_ok (the meaning of a descriptor: a Compute stage is a function of the model and of the options it reads) is a hypothesis of the noninterference theorem, not proved about Python; explored by the option lattice",
        "C08's string model of Atom.get_pqr_string / print_biomolecule_atoms / print_pqr (Model/PqrFormat.v), tied to the code by the C08 check",
        "structure builder harness/builder.py (scaffolding)",
    ]
    ctx.assumptions += [
        "water = residue named HOH or WAT (aa.WAT.water_residue_names); 'input with its waters deleted' = ATOM/HETATM/ANISOU/SIGATM/SIGUIJ lines of such residues removed from the text",
        "a terminus counts as 'actually neutralised' when its residue's atoms/charges differ from the base run (N-terminal PRO is NPRO with or without --neutraln: not neutralised); runs that abort loudly (NEUTRAL-CPRO non-integral in PARSE) are counted, not compared",
        "an option run that raises AFTER the PQR was written (io.dump_apbs on an empty PQR: psize TypeError, C17) is compared on the file it wrote",
    ]


def replay(ctx, data):
    case = data.get("case") or {}
    if not case or str(case.get("kind", "")).startswith("tie"):
        print("replay: nothing to re-execute (proof / correspondence break); re-run ./check C09")
        return 0
    viol = replay_case(ctx, case)
    for sig, what in viol:
        print("replay: FAILS:", sig, what)
    if not viol:
        print("replay: passes")
    ctx.cleanup()
    return 1 if viol else 0
