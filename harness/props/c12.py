"""C12 - runs succeed on well-formed input, otherwise fail loudly leaving no output.

Proof side : Coq theorems over the output-file state machine `frun` (Model/Pipeline.v) for ALL stage
             lists satisfying `c12_obligation`, plus the obligation itself and the guard-order facts
             on the stage table regenerated from the CURRENT pdb2pqr/main.py (gen/stages.py).
Tie        : fault enumeration on the real code.  Every stage of the generated table that a
             configuration executes is made to fail (exception raised at the driver statement, at the
             entry of the function the statement calls, or after a few lines inside it) and the
             observed (exception?, state of the output path) is compared with `frun` evaluated inside
             Coq for that fault vector; natural triggers (missing / empty / garbage input, bad options,
             non-integral custom force field, incomplete structures, ...) are mapped to the stage that
             raised and compared the same way.  The executed driver lines of fault-free runs must be
             exactly stages of the table in table order (validates the translator).
Search     : model-independent oracle = the file system: an escaping failure in front of the writer
             must leave the output path byte-, mtime- and inode-identical (or absent); a run that
             returns must leave a complete PQR (every atom line handed to the writer is in the file,
             END-terminated); nothing but print_pqr may open the output path for writing.
Success    : EXPLORATION (not a theorem): builder structures of complete standard residues x built-in
             force fields that define the residue class (derived from the loaded .DAT/.names).
"""

from __future__ import annotations

import ast
import builtins
import contextlib
import hashlib
import io as _io
import json
import logging
import os
import subprocess
import sys
import time
import traceback
from pathlib import Path

from harness import core

META = {
    "id": "C12",
    "level": "proof",
    "technique": (
        "Coq proof over a generic output-file state machine + obligations on a stage table regenerated "
        "from main.py (Python ast) on every run; tie by fault enumeration on the real driver "
        "(model evaluated in Coq vs observed file state); success side explored"
    ),
    "level_text": (
        "PROVED (all stage lists satisfying the obligation, all fault vectors, all initial file states): a "
        "failure of any stage in front of print_pqr raises and leaves the output path unchanged; no failure "
        "=> Complete; failure inside print_pqr => Partial and after it => Complete are stated explicitly. "
        "The obligation (only print_pqr writes the output path, nothing is written before it, every "
        "Compute/Rename/Render stage and the charge guard precede it, no swallowing handler; the guard is the LAST Compute "
        "stage, i.e. it comes after apply_force_field and after the --ligand block that overwrites charges) is proved by "
        "vm_compute for the table generated from the current main.py. TIED by fault enumeration: every "
        "executed stage x exception class x {no file, pre-existing file} on the real main_driver, natural "
        "triggers (incl. BaseException subclasses, failing --pdb-output/--apbs-input writers, closed stdout/stderr), "
        "an open()-monitor, and the console entry point in fresh processes over a lattice of output names (suffix classes, directory component, relative, sentinel) plus a check that io.setup_logger's log file is never the output or input path. HISTORIES: C12_history_outcomes (outcomes of a sequence of runs = outcomes of the single runs), C12_failing_history_keeps_file, C12_ok_after_failing_history, tied by in-process histories [fail, same again], [ok, fail], [fail, ok], [fail A, fail B] over 12 malformed-input families with a sentinel at the output path. The guard stage itself is tied to C02's guard model: C12_generated_guard_tolerance (generated from main.py/utilities.py/config.py: the tolerance is the fixed constant CHARGE_ERROR = TOL/SCALE, no structure-dependent argument) and a differential run of the extracted guard block on 1..5000 residues against guard_ok. SUCCESS half, proved part: C12_guard_never_fires_<FF> (C02's theorem restated per force "
        "field) - a structure of complete standard residues in parameterised table states cannot be rejected by the "
        "integrality guard - and C12_table_consistent_run_completes_<FF>: on the generated stage table, if the structure "
        "is table-consistent, the guard stage faults iff the modelled guard raises and no other stage faults, the run ends "
        "(Finished, Complete). That no OTHER stage (parsing, repair, debump, hydrogen optimisation, pKa, parameter lookup) "
        "raises on a well-formed structure is NOT a theorem: it is exploration over builder structures x force fields "
        "(untitrated; titrated through a stubbed run_propka: every titratable type x position x state x force field; and the layouts real structures have: waters / ion / ligand after and before the polymer in the same chain, other chain, TER or not, complexes; evidence keys `success_runs_explored`, `forcefield_defines_class_explored`). Tree state: C12-F1/F2/F4/F5 fixed "
        "in /repo (9484706, 8895359, 7917ee7, 79b0276); two success-side defects stay known: C12-F3 (one-nucleotide chain) and C12-F6 (waters listed before a nucleic strand in its chain: no 5' terminus)."
    ),
    "level_note": (
        "Trusted: Coq kernel+vm_compute; the ast translator gen/stages.py (cross-checked by the executed-line "
        "trace and the fault runs); sys.monitoring based fault injection; the structure builder (scaffolding)."
    ),
    "design_ref": "DESIGN.md 4 C12",
}

THEOREMS = [
    "C12_no_partial_output",
    "C12_fault_before_writer",
    "C12_fault_in_writer",
    "C12_fault_after_writer",
    "C12_generated_obligation",
    "C12_generated_guard_before_writer",
    "C12_generated_no_partial_output",
    "C12_nonvacuous",
    "C12_guard_never_fires_AMBER",
    "C12_table_consistent_run_completes_AMBER",
    "C12_guard_never_fires_CHARMM",
    "C12_table_consistent_run_completes_CHARMM",
    "C12_guard_never_fires_PARSE",
    "C12_table_consistent_run_completes_PARSE",
    "C12_guard_never_fires_PEOEPB",
    "C12_table_consistent_run_completes_PEOEPB",
    "C12_guard_never_fires_SWANSON",
    "C12_table_consistent_run_completes_SWANSON",
    "C12_guard_never_fires_TYL06",
    "C12_table_consistent_run_completes_TYL06",
    "C12_guard_stage_in_table",
    "C12_success_nonvacuous",
    "C12_guard_is_last_compute_spec",
    "C12_guard_order_nonvacuous",
    "C12_generated_guard_tolerance",
    "C12_history_outcomes",
    "C12_failing_history_keeps_file",
    "C12_ok_after_failing_history",
    "C12_history_nonvacuous",
]

HEADER = (
    "From Coq Require Import String List Bool Arith.\n"
    "From PV Require Import Model.Pipeline Generated.Stages.\n"
    "Import ListNotations.\nOpen Scope string_scope.\n"
)

EXC_CLASSES = ["ValueError", "KeyError", "RuntimeError", "IndexError", "TypeError"]
# BaseException subclasses that are not Exception: no `except Exception`/`except ValueError` may catch them,
# and the output path must still be untouched in front of the writer
BASE_EXC_CLASSES = ["KeyboardInterrupt", "SystemExit", "GeneratorExit"]  # (OSError is used for the in-writer check)
FFS = ["AMBER", "CHARMM", "PARSE", "PEOEPB", "SWANSON", "TYL06"]
OLD_CONTENT = "REMARK  pre-existing file at the output path - must survive a failing run\nOLD 0123456789\n"
OLD_MTIME = 1_500_000_000  # fixed past mtime so that any rewrite is visible


class Injected(Exception):
    pass


# --------------------------------------------------------------------------
# generator


def regenerate(ctx):
    """Stages.v from the current repo.  Returns the analysis dict or None."""
    gen_dir = str(core.VERIF / "gen")
    if gen_dir not in sys.path:
        sys.path.insert(0, gen_dir)
    try:
        import stages as gen_stages  # noqa

        info, text = gen_stages.generate(core.REPO)
    except Exception as e:  # GenError or a crash of the translator: fail closed
        ctx.broke("generator-broken", f"gen/stages.py: {type(e).__name__}", f"{e}\n{traceback.format_exc()[-1500:]}")
        return None
    core.write_if_changed(core.GEN / "Stages.v", text)
    info["_text"] = text
    try:
        import guard_c12 as gen_guard  # noqa

        ginfo, gtext = gen_guard.generate(core.REPO)
        core.write_if_changed(core.GEN / "GuardC12.v", gtext)
        info["_guard"] = ginfo
    except Exception as e:
        ctx.broke("generator-broken", f"gen/guard_c12.py: {type(e).__name__}", f"{e}\n{traceback.format_exc()[-1200:]}")
        info["_guard"] = None
    # the success-half theorems (C12_guard_never_fires_<FF>) rest on C02's state / force-field tables
    p = subprocess.run([sys.executable, str(core.VERIF / "gen" / "all.py"), "--only", "ff_tables,topology,states"], capture_output=True, text=True,
                       env={**os.environ, "VERIF_REPO": str(core.REPO)})
    if p.returncode != 0:
        ctx.broke("generator-broken", "gen/all.py (state and force-field tables behind C12_guard_never_fires_<FF>)", (p.stdout + p.stderr)[-2000:])
    return info


def table_is_ours(info):
    """Generated/Stages.v is shared with C09: another check running concurrently (possibly against
    another VERIF_REPO) may have rewritten it between our generation and our build."""
    try:
        return info is None or "_text" not in info or (core.GEN / "Stages.v").read_text() == info["_text"]
    except OSError:
        return False


def python_obligation(info):
    """The C12 obligation recomputed in Python from the analysis (diagnostic only;
    the proof obligation is the Coq one)."""
    st = info["stages"]
    w = next((i for i, s in enumerate(st) if s["writes_output"]), None)
    if w is None:
        return ["no stage writes the output path"]
    bad = []
    if st[w]["name"] != "print_pqr":
        bad.append(f"first writer of the output path is stage {w} {st[w]['name']} ({st[w]['func']}:{st[w]['line']})")
    for i, s in enumerate(st):
        if s["swallow"]:
            bad.append(f"stage {i} {s['name']} ({s['func']}:{s['line']}) is inside a handler that can swallow")
        if i < w and s["file_writes"]:
            bad.append(f"stage {i} {s['name']} writes files before print_pqr: {s['file_writes']}")
        if i > w and s["writes_output"]:
            bad.append(f"stage {i} {s['name']} writes the output path after print_pqr")
        if i > w and s["kind"] in ("Compute", "Rename", "Render"):
            bad.append(f"stage {i} {s['name']} ({s['kind']}, {s['func']}:{s['line']}) runs after print_pqr")
    return bad


# --------------------------------------------------------------------------
# file-state observation (the model-independent part)


def snapshot(path: Path):
    try:
        st = os.stat(path)
    except FileNotFoundError:
        return None
    if not os.path.isfile(path):
        return {"kind": "not-a-file"}
    data = Path(path).read_bytes()
    return {"size": st.st_size, "mtime_ns": st.st_mtime_ns, "ino": st.st_ino, "sha": hashlib.sha256(data).hexdigest()}


def atom_lines(text_or_lines):
    ls = text_or_lines.splitlines() if isinstance(text_or_lines, str) else text_or_lines
    return [l for l in ls if l.startswith(("ATOM", "HETATM"))]


def looks_complete(text: str, handed, whitespace: bool):
    """Is `text` a completely written PQR?  `handed` = the lines the driver handed to the
    writer (captured), or None when the writer was not reached through main.print_pqr."""
    if not text:
        return False, "empty"
    lines = text.splitlines()
    body = [l for l in lines if l.strip() != "#"]
    for l in body:
        if not l.startswith(("ATOM", "HETATM", "TER", "END", "REMARK", "HEADER", "TITLE", "COMPND", "SOURCE", "KEYWDS", "EXPDTA", "AUTHOR", "REVDAT", "JRNL")):
            return False, f"foreign line {l[:30]!r}"
    na = len(atom_lines(lines))
    if handed is not None:
        nh = len(atom_lines([h for hl in handed for h in hl.splitlines()]))
        if na != nh:
            return False, f"{na} atom lines in the file, {nh} handed to the writer"
        had_end = any(h.startswith("END") for hl in handed for h in hl.splitlines())
    else:
        had_end = True
    cif_terminated = lines[-1].strip() == "#"  # CIF input: TER/END elements are skipped, "#" is written last
    if not whitespace and had_end and not cif_terminated and not (body and body[-1].startswith("END")):
        return False, "no END record (or CIF '#') at the end"
    return True, f"{na} atom lines"


def classify(before, after, text_after, handed, whitespace):
    if after is None:
        return "absent", ""
    if before is not None and after == before:
        return "old", ""
    if after.get("kind") == "not-a-file":
        return "not-a-file", ""
    if before is not None and after["sha"] == before["sha"]:
        ok, why = looks_complete(text_after, handed, whitespace)
        if ok and handed is not None:
            return "complete", why + " (rewritten with identical bytes)"
        return "touched", "same bytes, different mtime/inode"
    ok, why = looks_complete(text_after, handed, whitespace)
    return ("complete" if ok else "partial"), why


# --------------------------------------------------------------------------
# the driver runner with trace-based fault injection and an open() monitor


class StageMap:
    def __init__(self, info):
        self.stages = info["stages"]
        self.tests = info.get("tests", [])
        self.n = len(self.stages)
        self.writer = next((i for i, s in enumerate(self.stages) if s["writes_output"]), None)
        self.funcs = sorted({s["func"] for s in self.stages})

    def of_line(self, func, line):
        for s in self.stages:
            if s["func"] == func and s["line"] <= line <= s["end_line"]:
                return s["idx"]
        return None

    def is_test(self, func, line):
        return any(t["func"] == func and t["line"] <= line <= t["end_line"] for t in self.tests)


def structural_lines(pmain, funcs, inline=("non_trivial",)):
    """Lines of the driver functions that are executed but are not stages: `try:` lines and the
    statement holding the call of an inlined function."""
    out = set()
    src = Path(pmain.__file__).read_text()
    tree = ast.parse(src)
    for node in ast.walk(tree):
        if isinstance(node, ast.FunctionDef) and node.name in funcs:
            for sub in ast.walk(node):
                if isinstance(sub, ast.Try):
                    out.add((node.name, sub.lineno))
                if isinstance(sub, (ast.Assign, ast.Expr, ast.Return)):
                    for c in ast.walk(sub):
                        if isinstance(c, ast.Call) and isinstance(c.func, ast.Name) and c.func.id in inline:
                            for ln in range(sub.lineno, sub.end_lineno + 1):
                                out.add((node.name, ln))
    return out


class Tracer:
    """sys.monitoring (PEP 669) hook on the code objects of the driver functions only: records the
    executed driver lines and injects one fault.

    fault = {"idx": k, "mode": "line" | "call" | "inside", "exc": class name, "after": n}
      line   : raise at the stage's statement in the driver frame                     (model: AtEntry)
      call   : raise at the call of the stage's principal callee (arguments evaluated)  (AtEntry)
      inside : raise after `after` line events inside that callee                       (Inside)
    An exception raised by a monitoring callback propagates into the monitored frame exactly
    like an exception raised by the statement itself (enclosing handlers apply).
    """

    TOOL = 3

    def __init__(self, codes, smap, fault):
        self.codes, self.smap, self.fault = codes, smap, fault
        self.lines = []
        self.cur = None
        self.fired = None  # (func, line) of the driver statement where the fault fired
        self.inside_code = None
        self.count = 0
        self.stage = smap.stages[fault["idx"]] if fault else None
        self.want = None
        if self.stage and self.stage.get("callee"):
            self.want = self.stage["callee"].split(".")[-1]

    def _exc(self):
        cls = getattr(builtins, self.fault["exc"])
        return cls(f"injected fault at stage {self.fault['idx']} ({self.fault['mode']})")  # SystemExit(str) = exit status 1

    def _in_stage(self):
        s, c = self.stage, self.cur
        return c is not None and c[0] == s["func"] and s["line"] <= c[1] <= s["end_line"]

    def on_line(self, code, line):
        fn = self.codes.get(code)
        if fn is not None:
            k = (fn, line)
            self.lines.append(k)
            self.cur = k
            f = self.fault
            if self.inside_code is not None and self.fired is None and not self._in_stage():
                # the callee returned before `after` lines were executed: the fault does not fire at all
                sys.monitoring.set_local_events(self.TOOL, self.inside_code, 0)
                self.inside_code = False
            if f and self.fired is None and f["mode"] == "line" and fn == self.stage["func"] and line == self.stage["line"]:
                self.fired = k
                raise self._exc()
        elif self.inside_code and code is self.inside_code and self.fired is None:
            self.count += 1
            if self.count >= self.fault.get("after", 6):
                self.fired = self.cur
                raise self._exc()

    def on_call(self, code, offset, callable_, arg0):
        f = self.fault
        if not f or self.fired is not None or f["mode"] == "line" or self.inside_code is not None or not self._in_stage():
            return
        target = callable_
        for _ in range(5):
            if hasattr(target, "__wrapped__"):
                target = target.__wrapped__
        name = getattr(target, "__name__", None)
        if self.want is None or name != self.want:
            return  # compound statements (loops, guards) have no principal callee: only `line` faults apply
        if f["mode"] == "call":
            self.fired = self.cur
            raise self._exc()
        c = getattr(target, "__code__", None) or getattr(getattr(target, "__func__", None), "__code__", None)
        if c is None and isinstance(target, type):
            c = getattr(getattr(target, "__init__", None), "__code__", None)
        if c is not None and c not in self.codes:
            self.inside_code = c
            sys.monitoring.set_local_events(self.TOOL, c, sys.monitoring.events.LINE)

    def __enter__(self):
        M = sys.monitoring
        try:
            M.use_tool_id(self.TOOL, "verif-c12")
        except ValueError:
            M.free_tool_id(self.TOOL)
            M.use_tool_id(self.TOOL, "verif-c12")
        M.register_callback(self.TOOL, M.events.LINE, self.on_line)
        M.register_callback(self.TOOL, M.events.CALL, self.on_call)
        for c in self.codes:
            M.set_local_events(self.TOOL, c, M.events.LINE | M.events.CALL)
        return self

    def __exit__(self, *a):
        M = sys.monitoring
        for c in self.codes:
            M.set_local_events(self.TOOL, c, 0)
        if self.inside_code:
            M.set_local_events(self.TOOL, self.inside_code, 0)
        M.register_callback(self.TOOL, M.events.LINE, None)
        M.register_callback(self.TOOL, M.events.CALL, None)
        M.free_tool_id(self.TOOL)


class OpenMonitor:
    """Records every write-mode open (builtins.open, io.open, os.open) and rename/replace/remove
    touching `target`; notes whether a frame of main.print_pqr is on the stack."""

    WRITE_FLAGS = os.O_WRONLY | os.O_RDWR | os.O_CREAT | os.O_TRUNC | os.O_APPEND

    def __init__(self, target: Path):
        self.target = os.path.realpath(target)
        self.events = []

    def _same(self, p):
        try:
            if isinstance(p, int):
                return False
            return os.path.realpath(os.fspath(p)) == self.target
        except Exception:
            return False

    def _note(self, how):
        names = []
        f = sys._getframe(2)
        while f is not None and len(names) < 40:
            names.append(f.f_code.co_name)
            f = f.f_back
        opener = next((n for n in names if n not in ("open", "_open", "w_open", "w_osopen", "w_path")), "?")
        self.events.append({"how": how, "opener": opener, "in_print_pqr": "print_pqr" in names})

    def __enter__(self):
        self.o_open, self.o_ioopen, self.o_osopen = builtins.open, _io.open, os.open
        self.o_rename, self.o_replace, self.o_remove, self.o_unlink = os.rename, os.replace, os.remove, os.unlink
        mon = self

        def w_open(file, mode="r", *a, **k):
            if any(c in str(mode) for c in "wax+") and mon._same(file):
                mon._note(f"open:{mode}")
            return mon.o_open(file, mode, *a, **k)

        def w_osopen(path, flags, *a, **k):
            if flags & mon.WRITE_FLAGS and mon._same(path):
                mon._note(f"os.open:{flags}")
            return mon.o_osopen(path, flags, *a, **k)

        def w_path(orig, how):
            def f(*a, **k):
                if any(mon._same(x) for x in a[:2]):
                    mon._note(how)
                return orig(*a, **k)

            return f

        builtins.open = w_open
        _io.open = w_open
        os.open = w_osopen
        os.rename, os.replace = w_path(self.o_rename, "os.rename"), w_path(self.o_replace, "os.replace")
        os.remove, os.unlink = w_path(self.o_remove, "os.remove"), w_path(self.o_unlink, "os.unlink")
        return self

    def __exit__(self, *a):
        builtins.open, _io.open, os.open = self.o_open, self.o_ioopen, self.o_osopen
        os.rename, os.replace, os.remove, os.unlink = self.o_rename, self.o_replace, self.o_remove, self.o_unlink


@contextlib.contextmanager
def quiet():
    prev = logging.root.manager.disable
    logging.disable(logging.CRITICAL)
    err = _io.StringIO()
    try:
        with contextlib.redirect_stderr(err), contextlib.redirect_stdout(_io.StringIO()):
            yield err
    finally:
        logging.disable(prev)


def deepest(exc):
    seen = set()
    while exc is not None and id(exc) not in seen:
        seen.add(id(exc))
        nxt = exc.__cause__ or (exc.__context__ if not exc.__suppress_context__ else None)
        if nxt is None:
            return exc
        exc = nxt
    return exc


def raising_stage(exc, codes, smap):
    """Stage whose driver statement was executing when the (root cause of the) exception was raised."""
    chain, e, seen = [], exc, set()
    while e is not None and id(e) not in seen:
        seen.add(id(e))
        chain.append(e)
        e = e.__cause__ or e.__context__
    for e in reversed(chain):
        tb = e.__traceback__
        found = None
        while tb is not None:
            fn = codes.get(tb.tb_frame.f_code)
            if fn:
                found = (fn, tb.tb_lineno)
            tb = tb.tb_next
        if found:
            return smap.of_line(*found), found
    return None, None


class Runner:
    def __init__(self, ctx, smap):
        from pdb2pqr import main as pmain

        self.ctx, self.smap, self.pmain = ctx, smap, pmain
        self.codes = {}
        for fn in smap.funcs:
            f = getattr(pmain, fn, None)
            if f is not None and hasattr(f, "__code__"):
                self.codes[f.__code__] = fn
        self.struct = structural_lines(pmain, smap.funcs)
        self.root = ctx.scratch_dir()
        self.k = 0

    def workdir(self):
        self.k += 1
        d = self.root / f"r{self.k}"
        d.mkdir(parents=True, exist_ok=True)
        return d

    def run(self, case):
        """case: {"files": {name: text|{"hex":..}}, "argv": [...with {wd}], "pre": bool, "fault": {...}|None,
        "out": "out.pqr", "ns_edit": {attr: value}, "net": "offline"|"404"}
        -> observation dict"""
        pmain = self.pmain
        wd = case.get("_wd") or self.workdir()
        for name, content in ({} if case.get("_keep_files") else case.get("files", {})).items():
            p = wd / name
            if isinstance(content, dict):
                p.write_bytes(bytes.fromhex(content["hex"]))
            else:
                p.write_text(content)
        out = wd / case.get("out", "out.pqr")
        pre = bool(case.get("pre"))
        if pre and out.parent.is_dir() and not out.is_dir():
            out.write_text(OLD_CONTENT)
            os.utime(out, (OLD_MTIME, OLD_MTIME))
        before = snapshot(out)
        argv = [a.replace("{wd}", str(wd)) for a in case["argv"]]
        handed = {}
        orig_print = getattr(pmain, "print_pqr", None)

        if orig_print is not None:
            def spy(*a, **k):
                # keep the real signature: only peek at pqr_lines
                lines = k.get("pqr_lines", a[1] if len(a) > 1 else None)
                if lines is not None:
                    handed["lines"] = list(lines)
                return orig_print(*a, **k)

            spy.__wrapped__ = orig_print
            pmain.print_pqr = spy
        orig_propka = getattr(pmain, "run_propka", None)
        if case.get("propka_rows") is not None and orig_propka is not None:
            rows_ = [dict(r) for r in case["propka_rows"]]
            stub_calls = []

            def stub_propka(a, b):
                stub_calls.append(1)
                return rows_, "stub pKa table (harness)"

            pmain.run_propka = stub_propka
        tracer = Tracer(self.codes, self.smap, case.get("fault"))
        obs = {"exc": None, "cause": None, "raise_stage": None, "finished": False}
        exc_obj = None
        import requests

        orig_get = requests.get

        def fake_get(url, *a, **k):
            if case.get("net") == "404":
                class R:
                    status_code = 404
                    text = ""

                return R()
            raise requests.exceptions.ConnectionError(f"offline (harness): {url}")

        requests.get = fake_get
        cwd = os.getcwd()
        os.chdir(wd)
        try:
            with quiet(), OpenMonitor(out) as mon:
                try:
                    ns = pmain.build_main_parser().parse_args(argv)
                    for k_, v_ in case.get("ns_edit", {}).items():
                        setattr(ns, k_, v_)
                    with tracer:
                        pmain.main_driver(ns)
                    obs["finished"] = True
                except BaseException as e:  # noqa: BLE001
                    if isinstance(e, KeyboardInterrupt) and "injected fault" not in str(e):
                        raise
                    exc_obj = e
        finally:
            os.chdir(cwd)
            requests.get = orig_get
            if orig_print is not None:
                pmain.print_pqr = orig_print
            if orig_propka is not None:
                pmain.run_propka = orig_propka
        if exc_obj is not None:
            obs["exc"] = type(exc_obj).__name__
            obs["exc_msg"] = str(exc_obj)[:200]
            if isinstance(exc_obj, SystemExit):
                obs["exit_code"] = exc_obj.code
            d = deepest(exc_obj)
            obs["cause"] = type(d).__name__
            obs["cause_msg"] = str(d)[:300]
            obs["raise_stage"], obs["raise_at"] = raising_stage(exc_obj, self.codes, self.smap)
            obs["_exc_obj"] = exc_obj
        after = snapshot(out)
        text_after = None
        if after and "sha" in after:
            try:
                text_after = out.read_text(errors="replace")
            except OSError:
                text_after = ""
        whitespace = "--whitespace" in argv
        obs["state"], obs["state_why"] = classify(before, after, text_after, handed.get("lines"), whitespace)
        obs["before"], obs["after"] = before, after
        obs["text"] = text_after
        obs["handed"] = handed.get("lines")
        obs["lines"] = tracer.lines
        obs["fired"] = tracer.fired
        obs["opens"] = mon.events
        obs["wd"] = wd
        obs["propka_stub_calls"] = len(stub_calls) if case.get("propka_rows") is not None and orig_propka is not None else None
        obs["loud"] = exc_obj is not None and not (isinstance(exc_obj, SystemExit) and exc_obj.code in (0, None))
        return obs


def show(obs):
    return ("raised" if obs["exc"] else "finished") + ";" + obs["state"]


# --------------------------------------------------------------------------
# structures


def mol2_ethanol(names, resname="LIG"):
    types = ["C.3", "C.3", "O.3", "H", "H", "H", "H", "H", "H"]
    bonds = [(0, 1), (1, 2), (0, 3), (0, 4), (0, 5), (1, 6), (1, 7), (2, 8)]
    xyz = ligand_xyz()
    L = ["@<TRIPOS>MOLECULE", resname, f"{len(types):5d} {len(bonds):5d}     1     0     0", "SMALL", "NO_CHARGES", "", "", "@<TRIPOS>ATOM"]
    for i, (t, nm) in enumerate(zip(types, names)):
        x, y, z = xyz[i]
        L.append(f"{i + 1:7d} {nm:<8s} {x:10.4f} {y:10.4f} {z:10.4f} {t:<7s} {400:3d} {resname:<4s}     0.0000 ")
    L.append("@<TRIPOS>BOND")
    for k, (a, b) in enumerate(bonds):
        L.append(f"{k + 1:6d} {a + 1:4d} {b + 1:4d} 1    ")
    L.append("@<TRIPOS>SUBSTRUCTURE")
    L.append(f"     1 {resname:<4s}        1 TEMP              0 ****  ****    0 ROOT")
    return "\n".join(L) + "\n"


def mol2_text(types, bonds, names, resname="LIG"):
    xyz = ligand_xyz()
    L = ["@<TRIPOS>MOLECULE", resname, f"{len(types):5d} {len(bonds):5d}     1     0     0", "SMALL", "NO_CHARGES", "", "", "@<TRIPOS>ATOM"]
    for i, (t, nm) in enumerate(zip(types, names)):
        x, y, z = xyz[i]
        L.append(f"{i + 1:7d} {nm:<8s} {x:10.4f} {y:10.4f} {z:10.4f} {t:<7s} {400:3d} {resname:<4s}     0.0000 ")
    L.append("@<TRIPOS>BOND")
    for k, (a, b, w) in enumerate(bonds):
        L.append(f"{k + 1:6d} {a + 1:4d} {b + 1:4d} {w:<4s} ")
    L.append("@<TRIPOS>SUBSTRUCTURE")
    L.append(f"     1 {resname:<4s}        1 TEMP              0 ****  ****    0 ROOT")
    return "\n".join(L) + "\n"


ACETATE_NAMES = ["OA1", "CA1", "OA2", "CA2", "HA1", "HA2", "HA3"]
ACETATE_BONDS = [(0, 1, "2"), (1, 2, "2"), (1, 3, "1"), (3, 4, "1"), (3, 5, "1"), (3, 6, "1")]


def charge_column_defect(text):
    """Model-independent: the written PQR must have an integral total charge.  The guard accepts a
    total of per-residue 4-decimal roundings within 1e-3 of an integer; the charge column holds
    per-atom 4-decimal roundings, so |column sum - integer| <= 1e-3 + 5e-5 * (atoms + residues)
    whenever the guard passed.  Returns None or (sum, deviation, bound)."""
    from harness import builder as B

    try:
        rows = B.parse_pqr(text or "")
    except ValueError:
        return None  # fused columns (C08 territory): no charge column to add up
    if not rows:
        return None
    tot = sum(r["charge"] for r in rows)
    nres = len({(r["resname"], r["resseq"], r["chain"]) for r in rows})
    bound = 1e-3 + 5e-5 * (len(rows) + nres) + 1e-9
    dev = abs(tot - round(tot))
    return (round(tot, 4), round(dev, 4), round(bound, 5)) if dev > bound else None


def ligand_xyz(origin=(30.0, 30.0, 30.0)):
    rel = [(0.0, 0.0, 0.0), (1.52, 0.0, 0.0), (2.0, 1.34, 0.0), (-0.36, -1.03, 0.0), (-0.36, 0.51, 0.89), (-0.36, 0.51, -0.89),
           (1.88, -0.51, 0.89), (1.88, -0.51, -0.89), (2.96, 1.30, 0.0)]
    return [(origin[0] + x, origin[1] + y, origin[2] + z) for x, y, z in rel]


LIG_SAFE = ["CX1", "CX2", "OX1", "HX1", "HX2", "HX3", "HX4", "HX5", "HX6"]
LIG_CLASH = ["C1", "C2", "O1", "H1", "H2", "H3", "H4", "H5", "H6"]


def ligand_hetatm(names, serial=900, chain="L", origin=(30.0, 30.0, 30.0)):
    out = []
    for i, (nm, (x, y, z)) in enumerate(zip(names, ligand_xyz(origin))):
        el = nm[0]
        out.append(f"HETATM{serial + i:5d} {nm:<4s} LIG {chain} 400    {x:8.3f}{y:8.3f}{z:8.3f}  1.00  0.00          {el:>2s}  ")
    return out


def with_ligand(pdb_text, names, chain="L"):
    lines = [l for l in pdb_text.splitlines() if not l.startswith("END")]
    return "\n".join(lines + ligand_hetatm(names, chain=chain) + ["END"]) + "\n"


def structures():
    from harness import builder as B

    pep = B.build_peptide(["ALA", "HIS", "SER", "GLY"])
    w = B.waters(2, around=pep)
    s = {}
    s["pep"] = B.to_pdb(pep)
    s["pepw"] = B.to_pdb(pep + w)
    s["pepH"] = B.to_pdb(B.build_peptide(["ALA", "LYS", "SER", "GLY"], hydrogens=True))
    s["peplig"] = with_ligand(B.to_pdb(pep + w), LIG_SAFE)
    s["pepligclash"] = with_ligand(B.to_pdb(pep + w), LIG_CLASH)
    s["pep-lig-renamed-O"] = with_ligand(B.to_pdb(pep), [n if n != "OX1" else "OZ9" for n in LIG_SAFE])
    s["pep-lig-extra-H"] = with_ligand(B.to_pdb(pep), LIG_SAFE).replace("END\n", "HETATM  950 HX9  LIG L 400      33.500  31.000  30.500  1.00  0.00           H  \nEND\n")
    s["pep-lig-no-HX6"] = "\n".join(l for l in with_ligand(B.to_pdb(pep), LIG_SAFE).splitlines() if " HX6 " not in l) + "\n"
    s["pep-acetate"] = with_ligand(B.to_pdb(pep), ACETATE_NAMES)
    s["cif"] = B.to_cif(pep + w)
    s["waters"] = B.to_pdb(B.waters(3, around=pep))
    s["dna"] = B.to_pdb(B.build_strand(["A", "C", "G", "T"]))
    pep5 = B.build_peptide(["ALA", "LYS", "PHE", "SER", "GLY"])
    s["sidechains-missing"] = B.to_pdb(B.delete_atoms(pep5, lambda a: a.name not in ("N", "CA", "C", "O", "CB", "OXT")))
    s["backbone-only"] = B.to_pdb(B.delete_atoms(pep5, lambda a: a.name not in ("N", "CA", "C", "O", "OXT")))
    s["ca-only"] = B.to_pdb(B.delete_atoms(pep5, lambda a: a.name != "CA"))
    s["missing-CA"] = B.to_pdb(B.delete_atoms(pep5, lambda a: a.name == "CA" and a.resseq == 3))
    s["missing-CZ"] = B.to_pdb(B.delete_atoms(pep5, lambda a: a.name == "CZ" and a.resseq == 3))
    s["pep5"] = B.to_pdb(pep5)
    import random as _r

    rr = _r.Random(12)
    for n in (150, 300):
        seq = [rr.choice(["GLY", "ALA", "SER", "THR", "ASN", "LEU", "VAL"]) for _ in range(n)]
        seq[n // 2] = "PHE"  # the only PHE: one atom of one residue carries the charge defect
        s[f"big{n}"] = B.to_pdb(B.build_peptide(seq, origin=(n * 1.8, 0.0, 0.0)))  # centred: an extended chain of 300 residues spans 1000 A
    return s


def bad_userff(delta=0.25, resname="PHE"):
    """A copy of AMBER.DAT / AMBER.names with the charge of <resname> CB shifted by `delta`."""
    dat = (core.REPO / "pdb2pqr" / "dat" / "AMBER.DAT").read_text().splitlines()
    out, done = [], False
    for l in dat:
        f = l.split()
        if not done and len(f) >= 4 and f[0] == resname and f[1] == "CB":
            f[2] = f"{float(f[2]) + delta:.4f}"
            l = "\t".join(f)
            done = True
        out.append(l)
    return "\n".join(out) + "\n", (core.REPO / "pdb2pqr" / "dat" / "AMBER.names").read_text()


CONFIGS = [
    # name, structure key, input file name, extra files, options
    ("default", "pepw", "in.pdb", (), ["--ff=AMBER"]),
    ("full-options", "peplig", "in.pdb", ("lig",),
     ["--ff=PARSE", "--ffout=AMBER", "--titration-state-method=propka", "--with-ph=7.0", "--ligand={wd}/lig.mol2",
      "--pdb-output={wd}/out.pdb", "--apbs-input={wd}/out.in", "--drop-water", "--include-header", "--keep-chain",
      "--neutraln", "--neutralc"]),
    ("ligand-by-atom-names", "peplig", "in.pdb", ("ligunk",), ["--ff=AMBER", "--ligand={wd}/lig.mol2"]),
    ("clean", "pepw", "in.pdb", (), ["--clean"]),
    ("assign-only", "pepH", "in.pdb", (), ["--ff=AMBER", "--assign-only"]),
    ("noopt", "pepw", "in.pdb", (), ["--ff=CHARMM", "--ffout=CHARMM", "--noopt", "--nodebump", "--whitespace"]),
    ("repair", "missing-CZ", "in.pdb", (), ["--ff=TYL06"]),
    ("cif", "cif", "in.cif", (), ["--ff=AMBER"]),
]


def config_case(structs, cfg, pre=False, fault=None):
    name, skey, iname, extra, opts = cfg
    files = {iname: structs[skey]}
    if "lig" in extra:
        files["lig.mol2"] = mol2_ethanol(LIG_SAFE)
    if "ligunk" in extra:
        files["lig.mol2"] = mol2_ethanol(LIG_SAFE, resname="UNK")
    return {"kind": "fault", "config": name, "files": files, "argv": [*opts, "{wd}/" + iname, "{wd}/out.pqr"], "pre": pre, "fault": fault}


# --------------------------------------------------------------------------
# model predictions (evaluated inside Coq)


def model_predictions(ctx, n):
    """{(k, 'AtEntry'|'Inside', pre): 'raised;old' ...}; k == n means no fault."""
    keys, terms = [], []
    for k in range(n + 1):
        for fk in ("AtEntry", "Inside"):
            for pre in (False, True):
                if k == n and fk == "Inside":
                    continue
                keys.append((k, fk, pre))
                terms.append(f"show_prediction stages {k} {fk} {'true' if pre else 'false'}")
    try:
        res = core.run_cases("C12", HEADER, terms, chunk=200)
    except core.CoqEvalError as e:
        ctx.broke("correspondence-broken", "model evaluation failed (Model.Pipeline.show_prediction on Generated.Stages)", str(e))
        return None
    return dict(zip(keys, res))


def handler_prediction(stage, exc_name):
    """Exception class expected to escape main_driver, from the generated handler chain."""
    cur = exc_name
    for h in stage.get("handlers", []):
        catches = h.get("catches") or []
        hit = False
        for c in catches:
            try:
                if issubclass(getattr(builtins, cur), getattr(builtins, c)):
                    hit = True
            except (AttributeError, TypeError):
                pass
        if not catches:
            hit = True
        if hit:
            if h.get("action") == "reraise":
                cur = h.get("as") or cur
            else:
                return None
    return cur


# --------------------------------------------------------------------------
# the oracle for a failing / finishing run (independent of the model)


def judge(ctx, smap, case, obs, expect_fail=None, tag=""):
    """Model-independent judgement of one run.  Returns a list of (signature, what)."""
    bad = []
    fault = case.get("fault")
    w = smap.writer
    site = None
    if fault:
        s = smap.stages[fault["idx"]]
        site = f"{s['func']}:{s['name']}"
        rel = "before-writer" if w is None or fault["idx"] < w else ("writer" if fault["idx"] == w else "after-writer")
    else:
        k = obs.get("raise_stage")
        if k is not None:
            s = smap.stages[k]
            site = f"{s['func']}:{s['name']}"
            rel = "before-writer" if w is None or k < w else ("writer" if k == w else "after-writer")
        else:
            site = "outside-driver-table" if obs["exc"] else None
            rel = "before-writer"
    trig = case.get("trigger") or (f"fault:{fault['mode']}" if fault else "none")
    # nothing but the writer may open the output path for writing
    for ev in obs["opens"]:
        if not ev["in_print_pqr"]:
            bad.append(({"side": "failure", "site": ev["opener"], "condition": "output-path-opened-outside-print_pqr"},
                        f"{ev['opener']} opened the output path for writing ({ev['how']})"))
    if obs["exc"]:
        if not obs["loud"]:
            bad.append(({"side": "failure", "site": site, "condition": "quiet-exit", "trigger": trig}, "run ended by SystemExit(0)"))
        st = obs["state"]
        unchanged = st in ("absent", "old")
        if not fault and case.get("allow_complete") and st == "complete":
            pass  # trigger aimed at a writer that runs AFTER print_pqr (--pdb-output / --apbs-input): the complete PQR stays
        elif rel == "before-writer" and not unchanged:
            bad.append(({"side": "failure", "site": site, "condition": f"output-{'modified' if case.get('pre') else 'created'}-by-failing-run", "left": st, "trigger": trig},
                        f"failure at {site} ({obs['exc']}) but the output path is now {st} ({obs['state_why']})"))
        elif rel == "writer":
            # entry of the writer: nothing; inside it: the model states Partial explicitly (I/O failure class)
            if fault and fault["mode"] != "inside" and not unchanged:
                bad.append(({"side": "failure", "site": site, "condition": "output-touched-before-writer-body", "left": st, "trigger": trig},
                            f"failure at the entry of the writer left {st}"))
            if not fault and not unchanged and st != "complete":
                bad.append(({"side": "failure", "site": site, "condition": "partial-output-written", "left": st, "trigger": trig, "cause": obs["cause"]},
                            f"the writer failed with {obs['cause']} after opening the output path: {st} file left"))
        elif rel == "after-writer" and not unchanged:
            computing = s["kind"] in ("Compute", "Rename", "Render")
            if st != "complete":
                bad.append(({"side": "failure", "site": site, "condition": "incomplete-output-after-writer", "left": st, "trigger": trig},
                            f"failure after the writer left a {st} file"))
            elif computing or (not fault and not case.get("allow_complete")):
                # a PQR may only be written after ALL computation has succeeded
                bad.append(({"side": "failure", "site": site, "condition": f"output-{'modified' if case.get('pre') else 'created'}-before-computation-finished", "left": st, "trigger": trig},
                            f"{s['kind']} stage {site} failed ({obs['exc']}) AFTER the output file had been written: a failing run left a new PQR"))
    else:
        if fault and obs["fired"]:
            bad.append(({"side": "failure", "site": site, "condition": "failure-swallowed", "left": obs["state"], "trigger": trig},
                        f"{fault['exc']} raised at {site} was swallowed: the run returned normally, output {obs['state']}"))
        if obs["state"] != "complete":
            bad.append(({"side": "failure", "site": "main_driver", "condition": "returned-without-complete-output", "left": obs["state"], "trigger": trig},
                        f"run returned normally but the output path is {obs['state']} ({obs['state_why']})"))
        elif not atom_lines(obs["text"] or ""):
            bad.append(({"side": "failure", "site": "main.non_trivial", "condition": "atomless-pqr-written", "trigger": trig},
                        "run returned normally and wrote a PQR without a single atom record"))
        elif "--clean" not in case.get("argv", []):
            cd = charge_column_defect(obs["text"])
            if cd:
                bad.append(({"side": "failure", "site": "main.non_trivial", "condition": "pqr-written-with-nonintegral-total-charge", "trigger": trig},
                            f"run returned normally and {'overwrote' if case.get('pre') else 'created'} the output PQR although its total charge is not integral: "
                            f"charge column sums to {cd[0]} (off by {cd[1]}, rounding bound {cd[2]})"))
        if expect_fail and not any(b[0]["condition"] in ("atomless-pqr-written", "pqr-written-with-nonintegral-total-charge") for b in bad):
            bad.append(({"side": "failure", "site": "main_driver", "condition": "no-error", "trigger": trig},
                        f"{trig}: the run cannot produce a valid result but returned normally (output {obs['state']})"))
    if case.get("expect") == "succeed" and obs["exc"]:
        bad.append(({"side": "success", "site": site, "condition": "control-within-tolerance-rejected", "trigger": trig},
                    f"{trig}: a total within the guard's tolerance was rejected ({obs['cause']}: {obs.get('cause_msg', '')[:100]})"))
    return bad


def report(ctx, bad, case, obs):
    n = 0
    for sig, what in bad:
        c = {k: v for k, v in case.items()}
        c["observed"] = {"exc": obs["exc"], "cause": obs.get("cause"), "cause_msg": obs.get("cause_msg"), "state": obs["state"], "state_why": obs["state_why"], "opens": obs["opens"]}
        if ctx.fail(sig, what, c):
            n += 1
    return n


# --------------------------------------------------------------------------
# 2a. translator tie: executed driver lines of fault-free runs


def check_trace(ctx, smap, runner, cfgname, obs):
    seq, unknown = [], []
    for fn, ln in obs["lines"]:
        k = smap.of_line(fn, ln)
        if k is None:
            if smap.is_test(fn, ln) or (fn, ln) in runner.struct:
                continue
            unknown.append((fn, ln))
        else:
            seq.append(k)
    ok = True
    if unknown:
        ok = False
        ctx.broke("correspondence-broken", "executed driver line is not a stage of Generated/Stages.v (gen/stages.py vs main.py)",
                  f"config {cfgname}: lines {sorted(set(unknown))[:10]}", {"config": cfgname})
    # order: stage indexes never decrease, except inside loops (a multi-line stage re-entered) and multi-line statements
    # whose evaluation returns to the first line; so compare the order of FIRST occurrences
    first = []
    for k in seq:
        if k not in first:
            first.append(k)
    if first != sorted(first):
        ok = False
        ctx.broke("correspondence-broken", "stages executed in an order different from the generated table",
                  f"config {cfgname}: first occurrences {first}", {"config": cfgname})
    return set(first), ok


# --------------------------------------------------------------------------
# natural triggers


def bundled_large_case():
    """Thorough tier: a bundled structure of several hundred residues (1AFS) with a user force field in
    which the CB charge of its rarest internal residue type is raised so that the total is off by
    0.0011 .. 0.0099.  -> (trigger, files, delta, control files) or None."""
    for root in (core.REPO, Path("/repo")):
        f = root / "tests" / "data" / "1AFS.pdb"
        if f.exists():
            break
    else:
        return None
    text = f.read_text()
    res = {}
    for l in text.splitlines():
        if l.startswith("ATOM") and l[12:16].strip() == "CB":
            res.setdefault(l[17:20], set()).add((l[21], l[22:27]))
    cand = sorted((len(v), k) for k, v in res.items() if k in ("PHE", "TRP", "MET", "TYR", "GLN", "ASN", "ILE", "LEU", "VAL", "THR", "SER"))
    if not cand:
        return None
    cnt, rn = cand[0]
    delta = max(1, round(25 / cnt)) / 10000.0
    if not (0.0011 <= cnt * delta <= 0.0099):
        return None
    names = (core.REPO / "pdb2pqr" / "dat" / "AMBER.names").read_text()
    return (f"userff-total-off-by-{cnt * delta:.4f}-on-1AFS", {"in.pdb": text, "my.DAT": bad_userff(delta, rn)[0], "my.names": names})


def natural_cases(structs, thorough=False):
    P = structs
    dat, names = bad_userff()
    C = []

    def add(trigger, files, argv, expect, **kw):
        C.append({"kind": "natural", "trigger": trigger, "files": files, "argv": argv, "expect": expect, **kw})

    io_ = ["{wd}/in.pdb", "{wd}/out.pqr"]
    add("missing-input-offline", {}, ["--ff=AMBER", *io_], "fail")
    add("missing-input-404", {}, ["--ff=AMBER", *io_], "fail", net="404")
    add("empty-input", {"in.pdb": ""}, ["--ff=AMBER", *io_], "fail")
    add("garbage-binary-input", {"in.pdb": {"hex": "ff fe 00 81 c3 28 a0 a1 0a 41 54 4f 4d 20 ff".replace(" ", "")}}, ["--ff=AMBER", *io_], "fail")
    add("garbage-text-input", {"in.pdb": "this is not\na structure file\n\x01\x02\n"}, ["--ff=AMBER", *io_], "fail")
    add("truncated-atom-records", {"in.pdb": "\n".join(l[:40] for l in P["pep"].splitlines()) + "\n"}, ["--ff=AMBER", *io_], "fail")
    add("input-is-directory", {}, ["--ff=AMBER", "{wd}", "{wd}/out.pqr"], "fail")
    add("bad-ff-argparse", {"in.pdb": P["pep"]}, ["--ff=NOSUCHFF", *io_], "fail")
    add("bad-ff-namespace", {"in.pdb": P["pep"]}, ["--ff=AMBER", *io_], "fail", ns_edit={"ff": "nosuchff"})
    add("ph-out-of-range", {"in.pdb": P["pep"]}, ["--ff=AMBER", "--with-ph=15", *io_], "fail")
    add("ph-negative", {"in.pdb": P["pep"]}, ["--ff=AMBER", "--with-ph=-1", *io_], "fail")
    add("userff-without-usernames", {"in.pdb": P["pep"], "my.DAT": dat}, ["--userff={wd}/my.DAT", *io_], "fail")
    add("userff-missing-file", {"in.pdb": P["pep"]}, ["--userff={wd}/nope.DAT", "--usernames={wd}/nope.names", *io_], "fail")
    add("usernames-missing-file", {"in.pdb": P["pep"], "my.DAT": dat}, ["--userff={wd}/my.DAT", "--usernames={wd}/nope.names", *io_], "fail")
    add("userff-nonintegral-charge", {"in.pdb": P["pep5"], "my.DAT": dat, "my.names": names}, ["--userff={wd}/my.DAT", "--usernames={wd}/my.names", *io_], "fail")
    # deviations just outside the guard's fixed 1e-3 on LARGE structures (the decision must not depend on size),
    # with just-inside controls that must succeed
    uf = ["--userff={wd}/my.DAT", "--usernames={wd}/my.names", "--noopt", *io_]
    for n, d_bad in ((150, 0.0012), (300, 0.0025)):
        add(f"userff-total-off-by-{d_bad}-on-{n}-residues", {"in.pdb": P[f"big{n}"], "my.DAT": bad_userff(d_bad)[0], "my.names": names}, uf, "fail")
        add(f"userff-total-off-by-0.0005-on-{n}-residues(control)", {"in.pdb": P[f"big{n}"], "my.DAT": bad_userff(0.0005)[0], "my.names": names}, uf, "succeed")
    big = bundled_large_case() if thorough else None
    if big:
        add(big[0], big[1], ["--userff={wd}/my.DAT", "--usernames={wd}/my.names", "--noopt", "--nodebump", *io_], "fail")
    add("userff-garbage", {"in.pdb": P["pep"], "my.DAT": "ALA CB notanumber 1.0\nALA\n", "my.names": names}, ["--userff={wd}/my.DAT", "--usernames={wd}/my.names", *io_], "fail")
    add("neutraln-non-parse", {"in.pdb": P["pep"]}, ["--ff=AMBER", "--neutraln", *io_], "fail")
    add("neutralc-non-parse", {"in.pdb": P["pep"]}, ["--ff=AMBER", "--neutralc", *io_], "fail")
    add("sidechains-missing", {"in.pdb": P["sidechains-missing"]}, ["--ff=AMBER", *io_], "fail")
    add("backbone-only", {"in.pdb": P["backbone-only"]}, ["--ff=AMBER", *io_], "fail")
    add("ca-only", {"in.pdb": P["ca-only"]}, ["--ff=AMBER", *io_], "fail")
    add("missing-backbone-CA", {"in.pdb": P["missing-CA"]}, ["--ff=AMBER", *io_], "either")
    add("assign-only-incomplete-residue", {"in.pdb": P["missing-CZ"]}, ["--ff=AMBER", "--assign-only", *io_], "fail")
    add("assign-only-no-hydrogens", {"in.pdb": P["pep5"]}, ["--ff=AMBER", "--assign-only", *io_], "fail")
    add("ligand-file-missing", {"in.pdb": P["peplig"]}, ["--ff=AMBER", "--ligand={wd}/nolig.mol2", *io_], "fail")
    add("ligand-file-garbage", {"in.pdb": P["peplig"], "lig.mol2": "@<TRIPOS>ATOM\n1 C1 x y z C.3\n"}, ["--ff=AMBER", "--ligand={wd}/lig.mol2", *io_], "fail")
    add("ligand-file-empty", {"in.pdb": P["peplig"], "lig.mol2": ""}, ["--ff=AMBER", "--ligand={wd}/lig.mol2", *io_], "either")
    add("ligand-names-clash-with-water(F4)", {"in.pdb": P["pepligclash"], "lig.mol2": mol2_ethanol(LIG_CLASH)}, ["--ff=AMBER", "--ligand={wd}/lig.mol2", *io_], "either")
    lg = ["--ff=AMBER", "--ligand={wd}/lig.mol2", *io_]
    # the --ligand path: the guard must see the charges the ligand block assigns
    add("ligand-pdb-atom-not-in-mol2", {"in.pdb": P["pep-lig-renamed-O"], "lig.mol2": mol2_ethanol(LIG_SAFE)}, lg, "fail")
    add("ligand-mol2-atom-not-in-pdb", {"in.pdb": P["pep-lig-no-HX6"], "lig.mol2": mol2_ethanol(LIG_SAFE)}, lg, "fail")
    add("ligand-mol2-nonintegral-formal-total", {"in.pdb": P["pep-acetate"], "lig.mol2": mol2_text(["O.co2", "C.2", "O.2", "C.3", "H", "H", "H"], ACETATE_BONDS, ACETATE_NAMES)}, lg, "fail")
    add("ligand-pdb-extra-atom", {"in.pdb": P["pep-lig-extra-H"], "lig.mol2": mol2_ethanol(LIG_SAFE)}, lg, "either")
    add("ligand-charged-acetate", {"in.pdb": P["pep-acetate"], "lig.mol2": mol2_text(["O.co2", "C.2", "O.co2", "C.3", "H", "H", "H"], ACETATE_BONDS, ACETATE_NAMES)}, lg, "either")
    add("waters-only", {"in.pdb": P["waters"]}, ["--ff=AMBER", *io_], "fail")
    add("forcefield-defines-no-residue", {"in.pdb": P["dna"]}, ["--ff=SWANSON", *io_], "fail")
    add("output-dir-missing", {"in.pdb": P["pep"]}, ["--ff=AMBER", "{wd}/in.pdb", "{wd}/nodir/out.pqr"], "fail", out="nodir/out.pqr")
    add("output-is-directory", {"in.pdb": P["pep"]}, ["--ff=AMBER", "{wd}/in.pdb", "{wd}"], "fail", out=".")
    add("pdb-output-dir-missing", {"in.pdb": P["pep"]}, ["--ff=AMBER", "--pdb-output={wd}/nodir/x.pdb", *io_], "fail", allow_complete=True)
    add("apbs-input-dir-missing", {"in.pdb": P["pep"]}, ["--ff=AMBER", "--apbs-input={wd}/nodir/x.in", *io_], "fail", allow_complete=True)
    add("pdb-output-is-directory", {"in.pdb": P["pep"]}, ["--ff=AMBER", "--pdb-output={wd}", *io_], "fail", allow_complete=True)
    add("apbs-input-is-directory", {"in.pdb": P["pep"]}, ["--ff=AMBER", "--apbs-input={wd}", *io_], "fail", allow_complete=True)
    add("drop-water-leaves-nothing", {"in.pdb": P["waters"]}, ["--ff=AMBER", "--drop-water", *io_], "fail")
    return C


# --------------------------------------------------------------------------
# success side (exploration)


def ff_coverage():
    """Which built-in force field defines which residue class, derived from the loaded
    .DAT/.names (the repo's own loader): a residue is defined when more than half of the heavy
    atoms of its topology template have parameters under the template's name; a class is defined
    when more than half of its residues are (HIS, for one, is only parameterised as HID/HIE/HIP
    in most force fields)."""
    from pdb2pqr import forcefield as pff
    from pdb2pqr import io as pio
    from harness import builder as B

    definition = pio.get_definitions()
    classes = {"protein": list(B.STANDARD_AA), "dna": list(B.DNA), "rna": list(B.RNA), "water": ["WAT"]}
    cov, detail = {}, {}
    with quiet():
        for ff in FFS:
            f = pff.Forcefield(ff.lower(), definition, None, None)
            for cname, rs in classes.items():
                nok = 0
                for r in rs:
                    tpl = definition.map.get(r)
                    if tpl is None:
                        continue
                    heavy = [a for a in tpl.map if not B.is_hydrogen_name(a)]
                    have = [a for a in heavy if f.get_params(r, a)[0] is not None]
                    detail[(ff, r)] = (len(have), len(heavy))
                    if 2 * len(have) > len(heavy):
                        nok += 1
                cov[(ff, cname)] = 2 * nok > len(rs)
    return cov, detail


def success_structures(ctx):
    from harness import builder as B
    import numpy as np

    AA = list(B.STANDARD_AA)
    S = []

    def add(tag, atoms, classes, cells, opts=()):
        S.append({"tag": tag, "pdb": B.to_pdb(atoms), "classes": sorted(classes), "cells": cells, "opts": list(opts),
                  "n_res": len(B.residues_of(atoms)), "n_heavy": len(atoms)})

    for i in range(20):
        seq = [AA[i], AA[(i + 1) % 20], AA[(i + 2) % 20]]
        add(f"tri-{'-'.join(seq)}", B.build_peptide(seq), {"protein"}, [(seq[0], "nterm"), (seq[1], "mid"), (seq[2], "cterm")])
    add("all20", B.build_peptide(AA), {"protein"}, [(a, "mid") for a in AA[1:-1]])
    p = B.build_peptide(["GLY", "ASP", "ARG", "TYR"])
    add("pep+waters", p + B.waters(4, around=p), {"protein", "water"}, [("HOH", "water")])
    for rna in (False, True):
        bases = ["A", "C", "G", "U" if rna else "T"]
        for i in range(4):
            seq = [bases[i], bases[(i + 1) % 4], bases[(i + 2) % 4]]
            add(f"{'rna' if rna else 'dna'}-{''.join(seq)}", B.build_strand(seq, rna=rna), {"rna" if rna else "dna"},
                [((("R" if rna else "D") + seq[0]), "5term"), ((("R" if rna else "D") + seq[1]), "mid"), ((("R" if rna else "D") + seq[2]), "3term")])
    d = B.build_strand(["G", "C", "A"], origin=(40.0, 0.0, 0.0))
    p2 = B.build_peptide(["LYS", "ASN", "TRP"])
    add("protein+dna+waters", p2 + d + B.waters(3, around=p2 + d), {"protein", "dna", "water"}, [("mixed", "complex")])
    two = B.build_peptide(["MET", "GLU"], chain="A") + B.build_peptide(["CYS", "PRO", "ILE"], chain="B", origin=(0.0, 30.0, 0.0))
    add("two-chains", two, {"protein"}, [("two", "chains")])
    # edge: one-residue chains
    add("lone-ALA", B.build_peptide(["ALA"]), {"protein"}, [("ALA", "nterm+cterm")])
    add("lone-DC", B.build_strand(["C"]), {"dna"}, [("DC", "5term+3term")])
    p3 = B.build_peptide(["VAL", "THR", "GLN"])
    add("pep+lone-DG", p3 + B.build_strand(["G"], origin=(40.0, 0.0, 0.0)), {"protein", "dna"}, [("DG", "5term+3term-in-complex")])
    # seeded random sequences and option mixes
    rng = ctx.rng
    nrand = 120 if ctx.thorough else 14
    for k in range(nrand):
        kind = rng.random()
        opts = []
        if rng.random() < 0.3:
            opts.append("--noopt")
        if rng.random() < 0.3:
            opts.append("--nodebump")
        if rng.random() < 0.3:
            opts.append("--keep-chain")
        if rng.random() < 0.2:
            opts.append("--whitespace")
        if rng.random() < 0.2:
            opts.append("--drop-water")
        if kind < 0.6:
            seq = [rng.choice(AA) for _ in range(rng.randint(2, 9))]
            helix = rng.random() < 0.3
            atoms = B.build_peptide(seq, helix=helix, start=rng.choice([1, -3, 998]))
            cl = {"protein"}
            if rng.random() < 0.5 and "--drop-water" not in opts:
                atoms = atoms + B.waters(rng.randint(1, 4), around=atoms, rng=np.random.default_rng(rng.randrange(1 << 30)))
                cl.add("water")
            add(f"rand-pep-{k}-{'-'.join(seq)}", atoms, cl, [("rand", f"pep{k}")], opts)
        else:
            rna = rng.random() < 0.5
            bases = ["A", "C", "G", "U" if rna else "T"]
            seq = [rng.choice(bases) for _ in range(rng.randint(2, 6))]
            add(f"rand-{'rna' if rna else 'dna'}-{k}-{''.join(seq)}", B.build_strand(seq, rna=rna), {"rna" if rna else "dna"}, [("rand", f"na{k}")], opts)
    return S


TITRATABLE = ["ASP", "GLU", "HIS", "CYS", "TYR", "LYS", "ARG"]
TYPICAL_TERMINUS_PKA = {"N+": 8.0, "C-": 3.2}


def propka_rows(seq, pkas, chain="A"):
    """Rows in the layout main.run_propka returns (the layout c06.py checks against a real PROPKA
    run). pkas: {(0-based index, group): pKa}, group = residue type or 'N+' / 'C-'."""
    rows = []
    for (i, g), v in sorted(pkas.items()):
        rtype = g if g in ("N+", "C-") else seq[i]
        rows.append({"res_num": i + 1, "ins_code": " ", "res_name": seq[i], "chain_id": chain,
                     "group_label": f"{rtype:<3s}{i + 1:>4d}{chain:>2s}",
                     "group_type": "N+" if g == "N+" else "COO" if g in ("C-", "ASP", "GLU") else g,
                     "pKa": float(v), "model_pKa": float(v), "buried": 0.0, "coupled_group": None})
    return rows


def titrated_structures(ctx):
    """Every titratable residue type at N-terminal, internal and C-terminal position, driven to both
    of its states through a stubbed main.run_propka (pH 5 vs pKa 9 = protonated, pH 9 vs pKa 5 =
    deprotonated), plus pH values that flip the termini and a high-pH run of an all-titratable chain."""
    from harness import builder as B

    S = []

    def add(tag, seq, ph, pkas, cells):
        atoms = B.build_peptide(seq)
        S.append({"tag": tag, "pdb": B.to_pdb(atoms), "classes": ["protein"], "cells": cells, "n_res": len(seq), "n_heavy": len(atoms),
                  "opts": ["--titration-state-method=propka", f"--with-ph={ph}"], "propka_rows": propka_rows(seq, pkas), "titrated": True})

    for t in TITRATABLE:
        for pos, seq, idx in (("nterm", [t, "ALA", "GLY"], 0), ("mid", ["ALA", t, "GLY"], 1), ("cterm", ["ALA", "GLY", t], 2)):
            for state, ph, pka in (("protonated", "5.00", 9.0), ("deprotonated", "9.00", 5.0)):
                pk = {(idx, t): pka, (0, "N+"): TYPICAL_TERMINUS_PKA["N+"], (2, "C-"): TYPICAL_TERMINUS_PKA["C-"]}
                add(f"titr-{t}-{pos}-{state}", seq, ph, pk, [(t, pos, state)])
    allt = ["LYS", "ASP", "HIS", "CYS", "TYR", "GLU", "ARG", "LYS"]
    typical = {"ASP": 3.8, "GLU": 4.5, "HIS": 6.5, "CYS": 8.3, "TYR": 10.1, "LYS": 10.5, "ARG": 12.5}
    for ph in ("2.00", "7.00", "11.00", "13.50"):
        pk = {(i, t): typical[t] for i, t in enumerate(allt)}
        pk[(0, "N+")] = 8.0
        pk[(len(allt) - 1, "C-")] = 3.2
        add(f"titr-all-ph{ph}", allt, ph, pk, [("all-titratable", "typical-pKa", ph)])
    return S


def lost_heavy_atoms(pdb_text, rows):
    """Independent rule: every input residue must appear in the PQR with all the heavy atoms it
    came with (matched by residue number and atom name). -> [(resname, resseq, [lost names])]"""
    inp = {}
    for l in pdb_text.splitlines():
        if l.startswith(("ATOM", "HETATM")):
            inp.setdefault((l[17:20].strip(), l[22:26].strip()), []).append(l[12:16].strip())
    out = {}
    for r in rows:
        out.setdefault(str(r["resseq"]).strip(), set()).add(r["name"])
    lost = []
    for (rn, rs), names in inp.items():
        miss = [n for n in names if n not in out.get(rs, set())]
        if miss:
            lost.append((rn, rs, miss))
    return lost


def layout_structures(ctx):
    """The layouts real structures have, for every polymer type: peptide, DNA and RNA strands (2..4
    residues; one-nucleotide chains are the known C12-F3) with waters / an ion / a ligand listed AFTER
    (and BEFORE) the polymer under the SAME chain ID, under another ID, with and without TER, several
    chains, peptide + nucleic complexes.  Each must finish and write a complete PQR with every
    standard residue present, for each force field that defines its residue classes."""
    from harness import builder as B

    S = []
    polymers = [
        ("peptide", "protein", lambda ch, org: B.build_peptide(["SER", "LYS", "GLY", "ASP"], chain=ch, origin=org)),
        ("dna", "dna", lambda ch, org: B.build_strand(["G", "A", "T", "C"], chain=ch, origin=org)),
        ("rna", "rna", lambda ch, org: B.build_strand(["A", "U", "G"], rna=True, chain=ch, origin=org)),
        ("dna-2mer", "dna", lambda ch, org: B.build_strand(["C", "G"], chain=ch, origin=org)),
    ]

    def add(tag, polymer, layout, pdb, classes, n_res, opts=(), extra_files=None):
        S.append({"tag": tag, "pdb": pdb, "classes": sorted(classes), "cells": [(polymer, layout)], "opts": list(opts), "n_res": n_res, "n_heavy": 0,
                  "polymer": polymer, "layout": layout, "extra_files": extra_files or {}})

    def nres(atoms):
        return len(B.residues_of(atoms))

    for pname, cls, build in polymers:
        pol = build("A", (0.0, 0.0, 0.0))
        wa = B.waters(3, around=pol, chain="A", start=501)      # same chain ID as the polymer
        wo = B.waters(3, around=pol, chain="W", start=1)        # another chain ID
        add(f"layout-{pname}-waters-after-same-chain", pname, "waters-after-same-chain-TER", B.to_pdb(pol + wa), {cls, "water"}, nres(pol + wa))
        add(f"layout-{pname}-waters-after-same-chain-noTER", pname, "waters-after-same-chain-noTER", B.to_pdb(pol + wa, ter=False), {cls, "water"}, nres(pol + wa))
        add(f"layout-{pname}-waters-before-same-chain", pname, "waters-before-same-chain", B.to_pdb(wa + pol), {cls, "water"}, nres(pol + wa))
        add(f"layout-{pname}-waters-other-chain", pname, "waters-other-chain", B.to_pdb(pol + wo), {cls, "water"}, nres(pol + wo))
        add(f"layout-{pname}-one-water-after-same-chain", pname, "one-water-after-same-chain", B.to_pdb(pol + wa[:1]), {cls, "water"}, nres(pol) + 1)
        # an ion (no parameters in any force field: dropped with a warning, not counted) after the polymer, same chain
        ion = "HETATM  990 ZN    ZN A 601      25.000  25.000  25.000  1.00  0.00          ZN  "
        txt = B.to_pdb(pol + wa).replace("END", ion + "\nEND", 1)
        add(f"layout-{pname}-waters+ion-after-same-chain", pname, "waters+ion-after-same-chain", txt, {cls, "water"}, nres(pol + wa))
        # a ligand (MOL2 via --ligand) after the polymer, same chain ID
        lig_pdb = with_ligand(B.to_pdb(pol + wa[:1]), LIG_SAFE, chain="A")
        add(f"layout-{pname}-ligand+water-after-same-chain", pname, "ligand+water-after-same-chain", lig_pdb, {cls, "water"}, nres(pol) + 2,
            opts=["--ligand={wd}/lig.mol2"], extra_files={"lig.mol2": mol2_ethanol(LIG_SAFE)})
    # several chains and complexes
    pep = B.build_peptide(["ARG", "GLU", "TRP"], chain="A")
    dna = B.build_strand(["A", "C", "G"], chain="B", origin=(50.0, 0.0, 0.0))
    rna = B.build_strand(["G", "C", "A", "U"], rna=True, chain="C", origin=(0.0, 50.0, 0.0))
    wb = B.waters(2, around=pep + dna, chain="B", start=701)
    wc = B.waters(2, around=pep + dna + rna + wb, chain="C", start=801)
    add("layout-complex-peptide+dna-waters-in-dna-chain", "peptide+dna", "complex-waters-in-nucleic-chain", B.to_pdb(pep + dna + wb), {"protein", "dna", "water"}, nres(pep + dna + wb))
    add("layout-complex-peptide+dna+rna-waters-in-each-nucleic-chain", "peptide+dna+rna", "complex-waters-in-nucleic-chains", B.to_pdb(pep + dna + wb + rna + wc),
        {"protein", "dna", "rna", "water"}, nres(pep + dna + wb + rna + wc))
    two = B.build_strand(["G", "G", "C"], chain="A") + B.build_strand(["G", "C", "C"], chain="B", start=11, origin=(0.0, 40.0, 0.0))
    w2 = B.waters(2, around=two, chain="B", start=901)
    add("layout-two-dna-strands-waters-in-second-chain", "dna", "two-strands-waters-in-second-chain", B.to_pdb(two + w2), {"dna", "water"}, nres(two + w2))
    return S


def residue_position(res):
    pos = []
    for attr, nm in (("is_n_term", "nterm"), ("is_c_term", "cterm"), ("is5term", "5term"), ("is3term", "3term")):
        if getattr(res, attr, False):
            pos.append(nm)
    return "+".join(pos) or "mid"


def diagnose_success_failure(obs):
    """Deterministic diagnosis of a success-side failure: which residues could not be parameterised
    (from the locals of main.non_trivial in the traceback, or from the returned biomolecule)."""
    missing = None
    e = obs.get("_exc_obj")
    seen = set()
    while e is not None and id(e) not in seen and missing is None:
        seen.add(id(e))
        tb = e.__traceback__
        while tb is not None:
            if tb.tb_frame.f_code.co_name == "non_trivial" and "missing_atoms" in tb.tb_frame.f_locals:
                missing = tb.tb_frame.f_locals["missing_atoms"]
            tb = tb.tb_next
        e = e.__cause__ or e.__context__
    if missing is None:
        missing = obs.get("missed")
    culprits = {}
    for a in missing or []:
        res = getattr(a, "residue", None)
        if res is None:
            continue
        key = (getattr(res, "name", "?"), residue_position(res))
        culprits.setdefault(key, {"atoms": set(), "res": res})["atoms"].add(a.name)
    out = []
    for (rn, pos), v in sorted(culprits.items()):
        whole = len(v["atoms"]) >= len(v["res"].atoms)
        out.append(f"{rn}:{pos}:{'*' if whole else ','.join(sorted(v['atoms']))}")
    return out


def run_success(ctx, runner, smap, st, ff, cov):
    case = {"kind": "success", "tag": st["tag"], "ff": ff, "files": {"in.pdb": st["pdb"]}, "classes": st["classes"],
            "argv": [f"--ff={ff}", *st["opts"], "{wd}/in.pdb", "{wd}/out.pqr"], "pre": False, "n_res": st["n_res"]}
    if st.get("propka_rows") is not None:
        case["propka_rows"] = st["propka_rows"]
        case["titrated"] = True
    if st.get("extra_files"):
        case["files"].update(st["extra_files"])
    if st.get("layout"):
        case["polymer"], case["layout"] = st["polymer"], st["layout"]
    pmain = runner.pmain
    got = {}
    orig = pmain.main_driver
    obs = None

    def keep(ns):
        r = orig(ns)
        got["r"] = r
        return r

    pmain.main_driver = keep
    try:
        obs = runner.run(case)
    finally:
        pmain.main_driver = orig
    if "r" in got and got["r"]:
        obs["missed"] = got["r"][0]
    bad = []
    base = {"side": "success", "ff": ff}
    if st.get("layout"):
        base.update({"polymer": st["polymer"], "layout": st["layout"]})
    if obs["exc"] and st.get("layout"):
        how = "non-integral-abort" if "deviates" in (obs.get("cause_msg") or "") else f"abort-{obs['cause']}"
        bad.append(({**base, "condition": "well-formed-input-rejected", "how": how},
                    f"{st['tag']} --ff={ff}: complete standard residues in a usual layout ({st['layout']}) rejected: {obs['cause']}: {obs.get('cause_msg', '')[:100]}"))
        if obs["state"] not in ("absent",):
            bad.append(({**base, "condition": "output-created-by-failing-run", "left": obs["state"]}, "failing run left an output file"))
    elif obs["exc"]:
        culprits = diagnose_success_failure(obs) or ["none"]
        cond = "non-integral-abort" if "deviates" in (obs.get("cause_msg") or "") else f"abort-{obs['cause']}"
        for c in culprits:
            bad.append(({**base, "condition": cond, "culprit": c}, f"{st['tag']} --ff={ff}: well-formed structure aborted ({obs['cause']}: {obs.get('cause_msg', '')[:80]}); unparameterised: {c}"))
        if obs["state"] not in ("absent",):
            bad.append(({**base, "condition": "output-created-by-failing-run", "left": obs["state"]}, "failing run left an output file"))
    else:
        if obs["state"] != "complete":
            bad.append(({**base, "condition": "output-incomplete", "left": obs["state"]}, f"{st['tag']} --ff={ff}: returned but output is {obs['state']} ({obs['state_why']})"))
        else:
            from harness import builder as B

            rows = B.parse_pqr(obs["text"])
            nres_out = len({(r["resname"], r["resseq"], r["chain"]) for r in rows})
            nres_in = st["n_res"]
            if "--drop-water" in st["opts"]:
                nres_in = len({(l[17:20], l[21], l[22:27]) for l in st["pdb"].splitlines() if l.startswith(("ATOM", "HETATM")) and l[17:20] != "HOH"})
            cd = charge_column_defect(obs["text"])
            if cd:
                bad.append(({**base, "condition": "pqr-written-with-nonintegral-total-charge"}, f"{st['tag']} --ff={ff}: charge column sums to {cd[0]} (off by {cd[1]}, bound {cd[2]})"))
            if st.get("titrated"):
                lost = lost_heavy_atoms(st["pdb"], rows)
                if lost:
                    culprits = diagnose_success_failure(obs) or ["none"]
                    for c in culprits:
                        bad.append(({**base, "condition": "titrated-residue-lost-heavy-atoms", "culprit": c},
                                    f"{st['tag']} --ff={ff}: run returned (exit 0) but input heavy atoms are absent from the PQR: "
                                    f"{[(a, b, len(m)) for a, b, m in lost]} (residue, number, #atoms); unparameterised per the run's own list: {c}"))
            if not rows or nres_out < nres_in:
                culprits = [c for c in diagnose_success_failure(obs) if c.endswith(":*")] or ["none"]
                for c in culprits:
                    bad.append(({**base, "condition": "residue-dropped", "culprit": c}, f"{st['tag']} --ff={ff}: run returned but {nres_in - nres_out} of {nres_in} residues are absent from the PQR ({c})"))
            elif obs.get("missed"):
                ctx.count("success:atoms-dropped-with-warning(C03 territory)")
    for ev in obs["opens"]:
        if not ev["in_print_pqr"]:
            bad.append(({"side": "failure", "site": ev["opener"], "condition": "output-path-opened-outside-print_pqr"}, f"{ev['opener']} opened the output path"))
    return case, obs, bad


# --------------------------------------------------------------------------
# command-line entry (python -m pdb2pqr) in a subprocess


ASCII_ENV = {"LC_ALL": "C", "LANG": "C", "PYTHONCOERCECLOCALE": "0", "PYTHONUTF8": "0"}


def nonascii_chain(pdb_text):
    """The same structure with chain id U+00E9 (the reader decodes the input as UTF-8)."""
    return "".join((l[:21] + "\u00e9" + l[22:] if l.startswith(("ATOM", "HETATM", "TER")) else l) + "\n" for l in pdb_text.splitlines())


def cli_run(runner, case):
    """python -m pdb2pqr in a subprocess -> (rc, state, why, stderr tail)."""
    env = dict(os.environ)
    env["PYTHONPATH"] = f"{core.REPO}:{core.VERIF}"
    env.update(case.get("env", {}))
    wd = case.get("_wd") or runner.workdir()
    (wd / "in.pdb").write_text(case["files"]["in.pdb"], encoding="utf-8")
    out_name = case.get("out_name", "out.pqr")
    o = wd / out_name
    o.parent.mkdir(parents=True, exist_ok=True)
    if case.get("pre"):
        o.write_text(OLD_CONTENT)
        os.utime(o, (OLD_MTIME, OLD_MTIME))
    before = snapshot(o)
    in_before = snapshot(wd / "in.pdb")
    # the output path as the user types it: absolute, or relative to the working directory
    o_arg = out_name if case.get("relative") else str(o)
    cmd = ["timeout", "120", sys.executable, "-m", "pdb2pqr", *case["opts"], str(wd / "in.pdb"), o_arg]
    if case.get("closed_streams"):
        # stdout and stderr CLOSED (not redirected): every console write of the logger fails
        cmd = ["sh", "-c", 'exec "$@" >&- 2>&-', "sh", *cmd]
    else:
        cmd.insert(-2, "--log-level=" + case.get("log_level", "CRITICAL"))
    p = subprocess.run(cmd, capture_output=not case.get("closed_streams"), text=True, env=env, cwd=wd, errors="replace")
    if case.get("closed_streams"):
        p.stderr = ""
    after = snapshot(o)
    txt = o.read_text(errors="replace") if after and "sha" in after else None
    state, why = classify(before, after, txt, None, False)
    cause = next((c for c in ("UnicodeEncodeError", "UnicodeDecodeError") if c in p.stderr), "other")
    if snapshot(wd / "in.pdb") != in_before:
        state, why = "input-modified", "the INPUT file was changed by the run"
    return p.returncode, state, why, f"[cause:{cause}] " + p.stderr[-400:]


def cli_cases(ctx, structs, runner):
    out = []
    for tag, text, opts, pre, expect, env in (
        ("cli-success", structs["pepw"], ["--ff=AMBER"], True, "ok", {}),
        ("cli-nonintegral", structs["missing-CZ"], ["--ff=AMBER", "--assign-only"], True, "fail", {}),
        ("cli-empty-input", "", ["--ff=PARSE"], False, "fail", {}),
        ("cli-nonascii-chain-utf8", nonascii_chain(structs["pep"]), ["--ff=AMBER", "--keep-chain"], True, "either", {"PYTHONUTF8": "1"}),
        ("cli-ascii-locale-nonascii-chain", nonascii_chain(structs["pep"]), ["--ff=AMBER", "--keep-chain"], True, "ok", ASCII_ENV),
        ("cli-closed-streams-success", structs["pepw"], ["--ff=AMBER"], True, "ok", {"closed": "1"}),
        ("cli-closed-streams-nonintegral", structs["missing-CZ"], ["--ff=AMBER", "--assign-only"], True, "fail", {"closed": "1"}),
    ):
        case = {"kind": "cli", "tag": tag, "files": {"in.pdb": text}, "opts": opts, "pre": pre, "expect": expect, "env": {k_: v_ for k_, v_ in env.items() if k_ != "closed"},
                "closed_streams": "closed" in env}
        rc, state, why, err = cli_run(runner, case)
        out.append({"tag": tag, "rc": rc, "state": state, "why": why, "expect": expect, "stderr_tail": err, "case": case})
    return out


def judge_cli(ctx, r, report_=True):
    sig = None
    cause = r["stderr_tail"].split("]")[0].replace("[cause:", "") if r["stderr_tail"].startswith("[cause:") else "other"
    if r["rc"] == 0:
        if r["expect"] == "fail":
            sig = ({"side": "failure", "site": "main.main", "condition": "exit-status-0-on-failure", "trigger": r["tag"]}, f"{r['tag']}: exit status 0")
        elif r["state"] != "complete":
            sig = ({"side": "success", "site": "main.main", "condition": f"cli-rc0-{r['state']}", "trigger": r["tag"]}, f"{r['tag']}: python -m pdb2pqr exit status 0 but output {r['state']} ({r['why']})")
    else:
        if r["expect"] == "ok":
            sig = ({"side": "success", "site": "main.main", "condition": f"cli-rc{r['rc']}-{r['state']}", "trigger": r["tag"]}, f"{r['tag']}: well-formed structure, exit status {r['rc']}")
        elif r["state"] not in ("absent", "old"):
            sig = ({"side": "failure", "site": "main.main", "condition": "partial-output-written" if r["state"] == "partial" else "output-touched-by-failing-run",
                    "left": r["state"], "cause": cause, "trigger": r["tag"]},
                   f"{r['tag']}: exit status {r['rc']} ({cause}) but the pre-existing file at the output path is now {r['state']} ({r['why']})")
    if sig and report_:
        ctx.fail(sig[0], sig[1], r["case"])
    return sig


# output paths as users type them (C12 quantifies over configurations: the name of the output must not matter)
OUT_NAME_LATTICE = [
    ("lower-pqr", "result.pqr", False), ("upper-suffix", "result.PQR", False), ("other-suffix-cif", "result.cif", False),
    ("other-suffix-txt", "result.txt", False), ("no-suffix", "result", False), ("several-dots", "1ajj.amber.out", False),
    ("directory-component", "sub/dir.d/out.pqr", False), ("relative", "rel.out", True), ("relative-dir", "sub2/rel", True),
    ("equals-input-stem", "in", False), ("pqr-inside-name", "my.pqr.v2", False),
]


def cli_lattice(ctx, structs, runner):
    """The console entry point (python -m pdb2pqr, fresh process, sys.argv) does work BEFORE main_driver
    (logger set-up, argument parsing): failing and succeeding runs for every output-name class, with the
    output path absent and pre-existing (sentinel bytes + mtime + inode)."""
    from concurrent.futures import ThreadPoolExecutor

    jobs = []
    for cls, name, rel in OUT_NAME_LATTICE:
        for pre in (False, True):
            jobs.append({"kind": "cli", "tag": f"cli-out-name:{cls}:fail", "files": {"in.pdb": structs["missing-CZ"]}, "opts": ["--ff=AMBER", "--assign-only"],
                         "pre": pre, "expect": "fail", "env": {}, "out_name": name, "relative": rel, "log_level": "INFO", "name_class": cls})
        jobs.append({"kind": "cli", "tag": f"cli-out-name:{cls}:empty-input", "files": {"in.pdb": ""}, "opts": ["--ff=PARSE"],
                     "pre": True, "expect": "fail", "env": {}, "out_name": name, "relative": rel, "log_level": "DEBUG", "name_class": cls})
        jobs.append({"kind": "cli", "tag": f"cli-out-name:{cls}:ok", "files": {"in.pdb": structs["pep"]}, "opts": ["--ff=AMBER"],
                     "pre": True, "expect": "ok", "env": {}, "out_name": name, "relative": rel, "log_level": "INFO", "name_class": cls})
    for j in jobs:
        j["_wd"] = runner.workdir()

    def one(j):
        rc, state, why, err = cli_run(runner, j)
        return {"tag": j["tag"], "rc": rc, "state": state, "why": why, "expect": j["expect"], "stderr_tail": err, "case": {k: v for k, v in j.items() if not k.startswith("_")}}

    with ThreadPoolExecutor(max_workers=8) as ex:
        res = list(ex.map(one, jobs))
    for r in res:
        ctx.count(f"cli-lattice:{r['expect']}:rc{min(r['rc'], 1)}:{r['state']}")
        ctx.evaluated(("cli-lattice", r["tag"], r["case"]["pre"]), True)
        sig = judge_cli(ctx, r, report_=False)
        if sig:
            sg = dict(sig[0])
            sg["trigger"] = "cli-out-name"
            sg["name_class"] = r["case"]["name_class"]
            ctx.fail(sg, f"output name {r['case']['out_name']!r}: " + sig[1], r["case"])


def logger_path_check(ctx):
    """Every file the command-line entry creates besides the output must not BE the output path nor the
    input path.  io.setup_logger is called with logging.basicConfig intercepted (nothing is opened) for a
    lattice of output names; the log file it asks for is compared with the output and input paths."""
    import logging as _logging

    from pdb2pqr import io as pio

    root = _logging.getLogger("")
    saved_h, saved_f = list(root.handlers), list(root.filters)
    orig = _logging.basicConfig
    seen = {}
    _logging.basicConfig = lambda **kw: seen.__setitem__("filename", kw.get("filename"))
    names = [n for _, n, _ in OUT_NAME_LATTICE] + ["/tmp/x/y.pqr", "a.b.c.pqr", "UPPER.PQR", "x.Pqr", "noext", "dir.pqr/out", "in.pdb.out", "result.pqr.bak", "résumé"]
    try:
        with quiet():
            for n in names:
                seen.clear()
                try:
                    pio.setup_logger(n, "CRITICAL")
                except Exception as e:  # noqa: BLE001
                    ctx.broke("correspondence-broken", "io.setup_logger could not be driven with an intercepted basicConfig", f"{n!r}: {type(e).__name__}: {e}")
                    return
                lf = seen.get("filename")
                ctx.evaluated(("logger-path", n), True)
                ctx.count("logger-path:checked")
                if lf is None:
                    continue
                stem = Path(n).stem
                for other, what in ((n, "output"), (str(Path(n).parent / "in.pdb"), "input"), (str(Path(n).with_name(stem + ".pdb")), "input-of-same-stem")):
                    if os.path.normpath(str(lf)) == os.path.normpath(other):
                        ctx.fail({"side": "failure", "site": "io.setup_logger", "condition": f"log-file-is-the-{what}-path", "suffix": Path(n).suffix.lower() or "none"},
                                 f"output name {n!r}: main() opens the log file {str(lf)!r} for appending before any check - it IS the {what} path",
                                 {"kind": "logger-path", "out_name": n})
    finally:
        _logging.basicConfig = orig
        root.handlers[:] = saved_h
        root.filters[:] = saved_f


GUARD_HEADER = "From Coq Require Import String ZArith.\nFrom PV Require Import Model.States.\nOpen Scope string_scope.\n"
GUARD_NS = [1, 50, 100, 101, 150, 700, 5000]
GUARD_DS = ["0", "0.0009", "0.00099", "0.00101", "0.0011", "0.002", "0.005", "0.0099", "-0.00099", "-0.00101", "-0.0099", "0.4", "0.5"]


class _FakeResidue:
    def __init__(self, i, charge):
        self.i, self.charge = i, charge

    def __str__(self):
        return f"FAKE {self.i}"


class _FakeBiomolecule:
    def __init__(self, charges):
        self.residues = [_FakeResidue(i, c) for i, c in enumerate(charges)]
        self.atoms = []


def guard_block_tie(ctx, runner, info):
    """The GUARD STAGE against its model.  The statements of main.non_trivial from the initialisation
    of the charge accumulator to the `raise` are compiled on their own (ast, unmodified) and executed in
    main's namespace on biomolecules of N residues with prescribed per-residue charges whose exact total
    is k + d; raise / no-raise must equal Model.States.guard_ok on the same exact decimals (vm_compute)
    and - model-independent - must not depend on N."""
    from decimal import Decimal

    g = info.get("_guard") if info else None
    if not g:
        ctx.notes.append("guard block not extracted: guard tie skipped")
        return
    pmain = runner.pmain
    code = compile(ast.fix_missing_locations(ast.Module(body=list(g["block_stmts"]), type_ignores=[])), g["main_path"] + ":guard-block", "exec")
    pattern = ["1.0", "-1.0", "0.0", "0.1234", "-0.1234", "0.5", "-0.5", "0.3333", "-0.3333", "2.0", "-2.0"]
    cases = []
    for ni, n in enumerate(GUARD_NS):
        for di, d in enumerate(GUARD_DS):
            k = [0, 3, -2, 17][(ni + di) % 4]
            others = [Decimal(pattern[i % len(pattern)]) for i in range(n - 1)]
            last = Decimal(k) + Decimal(d) - sum(others, Decimal(0))
            charges = others + [last]
            cases.append({"n": n, "d": d, "k": k, "charges": charges, "total_e8": int(sum(charges, Decimal(0)) * 10 ** 8)})
    try:
        model = core.run_cases("C12guard", GUARD_HEADER, [f'if guard_ok ({core.coq_Z(c["total_e8"])}) then "pass" else "raise"' for c in cases], chunk=200)
    except core.CoqEvalError as e:
        ctx.broke("correspondence-broken", "guard model evaluation failed (Model.States.guard_ok)", str(e))
        model = [None] * len(cases)
    by_d = {}
    nmis = 0
    for c, m in zip(cases, model):
        ns = dict(vars(pmain))
        ns["biomolecule"] = _FakeBiomolecule([float(x) for x in c["charges"]])
        ns["args"] = None
        with quiet():
            try:
                exec(code, ns)  # noqa: S102 - the repo's own statements
                got = "pass"
            except ValueError:
                got = "raise"
            except Exception as e:  # the block needs something the harness does not provide: fail closed
                ctx.broke("correspondence-broken", "guard block of main.non_trivial could not be executed on prescribed charges", f"{type(e).__name__}: {e}")
                return
        ctx.count(f"guard-block:{got}")
        ctx.evaluated(("guard-block", c["n"], c["d"]), True)
        by_d.setdefault(c["d"], {})[c["n"]] = got
        if m is not None:
            ctx.cov["correspondence_cases"] += 1
            if got != m:
                nmis += 1
                ctx.cov["correspondence_disagreements"] += 1
                if nmis <= 3:
                    ctx.broke("correspondence-broken", "Model.States.guard_ok vs the guard block of main.non_trivial (summing loop .. raise)",
                              f"N={c['n']} residues, exact total {c['k']}+({c['d']}): code {got}, model {m}", {"kind": "guard-block", "n": c["n"], "d": c["d"], "k": c["k"]})
    for d, per_n in by_d.items():
        if len(set(per_n.values())) > 1:
            small = min(per_n)
            diff = sorted(n for n, v in per_n.items() if v != per_n[small])
            ctx.fail({"side": "failure", "site": "main.non_trivial:guard", "condition": "guard-decision-depends-on-structure-size", "d": d},
                     f"total off an integer by {d}: the guard block decides {per_n[small]} for {small} residue(s) but {per_n[diff[0]]} for {diff} residues",
                     {"kind": "guard-block", "d": d, "decisions": {str(n): v for n, v in sorted(per_n.items())}})
    ctx.cov["guard_block_lines"] = list(g["block"])
    sc = min(40, len(cases) - 1)
    ctx.sample({"guard_block_case": {"N": cases[sc]["n"], "exact_total": f"{cases[sc]['k']}+({cases[sc]['d']})"}, "model": model[sc], "lines_of_main_py": list(g["block"])})


def writer_truncation_check(ctx, runner, smap, structs, preds):
    """The in-writer case on the real code, with a pre-existing file and the fault AFTER several
    lines were written: the model says Partial.  Confirm what the code really does - truncate in
    place (old bytes gone, a strict prefix of the full output, no temp file) or better (untouched)."""
    if smap.writer is None:
        return
    cfg = CONFIGS[0]
    full = runner.run(config_case(structs, cfg, pre=True))
    res = {}
    for after in (12, 30):
        case = config_case(structs, cfg, pre=True, fault={"idx": smap.writer, "mode": "inside", "exc": "OSError", "after": after})
        obs = runner.run(case)
        ctx.evaluated((smap.writer, "print_pqr", "OSError", f"inside@{after}", True), obs["fired"] is not None)
        if obs["fired"] is None or full["exc"]:
            continue
        text, ftext = obs["text"] or "", full["text"] or ""
        extra = sorted(set(os.listdir(obs["wd"])) - set(os.listdir(full["wd"])))
        kind = ("untouched" if obs["state"] == "old" else
                "truncated-in-place" if (obs["state"] == "partial" and OLD_CONTENT.splitlines()[1] not in text and ftext.startswith(text) and len(text) < len(ftext)) else "other")
        res[f"after_{after}_line_events"] = {"state": obs["state"], "bytes_left": len(text), "atom_lines_left": len(atom_lines(text)), "full_bytes": len(ftext),
                                              "prefix_of_full_output": ftext.startswith(text), "old_bytes_gone": OLD_CONTENT.splitlines()[1] not in text,
                                              "extra_files": extra, "same_inode": bool(obs["before"] and obs["after"] and obs["before"]["ino"] == obs["after"].get("ino")), "verdict": kind}
        ctx.count(f"writer-inside-with-old-file:{kind}")
        if preds is not None:
            exp = preds[(smap.writer, "Inside", True)]
            ctx.cov["correspondence_cases"] += 1
            if not (show(obs) == exp or (exp == "raised;partial" and kind == "untouched")):
                ctx.cov["correspondence_disagreements"] += 1
                ctx.broke("correspondence-broken", "Model.Pipeline.frun (Inside fault in the writer, pre-existing file) vs main.print_pqr",
                          f"model {exp}, observed {show(obs)} ({kind})", {k2: v for k2, v in case.items()})
        if kind == "other" or extra:
            report(ctx, [({"side": "failure", "site": "main_driver:print_pqr", "condition": "in-writer-failure-left-unexpected-state", "left": obs["state"], "extra_files": bool(extra)},
                          f"a failure inside print_pqr left {obs['state']} (prefix of full output: {ftext.startswith(text)}, stray files {extra})")], case, obs)
    ctx.cov["writer_truncation_confirmed"] = res


# --------------------------------------------------------------------------
# histories: the 2nd, 3rd ... attempt in ONE process must behave like the first


def history_families(structs):
    """Malformed-input families (each must fail in front of the writer) with the related well-formed run."""
    P = structs
    amber = (core.REPO / "pdb2pqr" / "dat" / "AMBER.DAT").read_text()
    names = (core.REPO / "pdb2pqr" / "dat" / "AMBER.names").read_text()
    lines = amber.splitlines()
    mid = len(lines) // 2
    io_ = ["{wd}/in.pdb", "{wd}/out.pqr"]
    uf = ["--userff={wd}/bad.DAT", "--usernames={wd}/bad.names", *io_]
    ok_user = {"files": {"ok.DAT": amber, "ok.names": names}, "argv": ["--userff={wd}/ok.DAT", "--usernames={wd}/ok.names", *io_]}
    ok_builtin = {"files": {}, "argv": ["--ff=AMBER", *io_]}
    F = []

    def add(family, files, argv, ok):
        F.append({"family": family, "files": {"in.pdb": P["pep5"], **ok["files"], **files}, "argv": argv, "ok_argv": ok["argv"]})

    add("userff-trailing-garbage", {"bad.DAT": amber + "\nXXX  YY  notanumber  1.0\n", "bad.names": names}, uf, ok_user)
    add("userff-trailing-short-line", {"bad.DAT": amber + "\nXXX  YY\n", "bad.names": names}, uf, ok_user)
    add("userff-garbage-in-the-middle", {"bad.DAT": "\n".join(lines[:mid] + ["ALA  CB  0.1.2  1.9"] + lines[mid:]) + "\n", "bad.names": names}, uf, ok_user)
    add("userff-nonintegral-total", {"bad.DAT": bad_userff(0.25)[0], "bad.names": names}, uf, ok_user)
    add("usernames-truncated-xml", {"bad.DAT": amber, "bad.names": names[: len(names) // 2]}, uf, ok_user)
    add("usernames-empty", {"bad.DAT": amber, "bad.names": ""}, uf, ok_user)
    add("pdb-garbage-text", {"bad.pdb": "this is not\na structure file\n"}, ["--ff=AMBER", "{wd}/bad.pdb", "{wd}/out.pqr"], ok_builtin)
    add("pdb-empty", {"bad.pdb": ""}, ["--ff=AMBER", "{wd}/bad.pdb", "{wd}/out.pqr"], ok_builtin)
    add("pdb-truncated-records", {"bad.pdb": "\n".join(l[:40] for l in P["pep5"].splitlines()) + "\n"}, ["--ff=AMBER", "{wd}/bad.pdb", "{wd}/out.pqr"], ok_builtin)
    add("pdb-backbone-only", {"bad.pdb": P["backbone-only"]}, ["--ff=AMBER", "{wd}/bad.pdb", "{wd}/out.pqr"], ok_builtin)
    add("option-ph-out-of-range", {}, ["--ff=AMBER", "--with-ph=15", *io_], ok_builtin)
    add("ligand-file-garbage", {"in.pdb": P["peplig"], "lig.mol2": "@<TRIPOS>ATOM\n1 C1 x y z C.3\n"}, ["--ff=AMBER", "--ligand={wd}/lig.mol2", *io_], ok_builtin)
    return F


def outcome_key(obs, smap):
    k = obs.get("raise_stage")
    return (("raised" if obs["exc"] else "finished"), obs["exc"], obs.get("cause"), smap.stages[k]["name"] if k is not None and k < smap.n else None)


def run_history(ctx, runner, smap, fam, ok_ref=None):
    """One work directory, files written ONCE (the retry sees the same untouched files: same path,
    size, mtime), a sentinel at the output path.  Steps: F, F again, OK, F, OK.  Every F step is judged
    by the single-run oracle and must repeat the first F outcome; the file it finds at the output path
    (sentinel, then the PQR of the OK step) must be left untouched; both OK outputs must be identical
    (and identical to `ok_ref`, the output of the same well-formed run made before any failing one)."""
    wd = runner.workdir()
    base = {"kind": "history", "family": fam["family"], "files": fam["files"], "_wd": wd}
    plan = [("F", "fail"), ("F", "fail,same-again"), ("OK", "fail,fail,ok"), ("F", "ok,fail"), ("OK", "fail,ok")]
    bad, first, ok_texts, steps = [], None, [], []
    obs = None
    for i, (what, hist) in enumerate(plan):
        case = dict(base)
        case["argv"] = fam["argv"] if what == "F" else fam["ok_argv"]
        case["pre"] = i == 0
        case["_keep_files"] = i > 0
        case["trigger"] = f"history:{fam['family']}:{hist}"
        if what == "F":
            case["expect"] = "fail"
        obs = runner.run(case)
        steps.append((hist, show(obs), obs["exc"]))
        ctx.count(f"history:{what}:{show(obs)}")
        ctx.evaluated(("history", fam["family"], i), True)
        ctx.cov["correspondence_cases"] += 1
        rec = {k: v for k, v in case.items() if not k.startswith("_")}
        rec["history_so_far"] = [h for h, _, _ in steps]
        for sig_what in judge(ctx, smap, case, obs, expect_fail=(what == "F")):
            bad.append((sig_what[0], sig_what[1], rec, obs))
        if what == "F":
            key = outcome_key(obs, smap)
            if first is None:
                first = key
            elif key != first:
                ctx.cov["correspondence_disagreements"] += 1
                site = f"main_driver:{first[3]}" if first[3] else "main_driver"
                bad.append(({"side": "failure", "site": site, "condition": "outcome-depends-on-earlier-runs-in-the-process", "family": fam["family"], "history": hist},
                            f"{fam['family']}: first attempt {first[:3]} at stage {first[3]}, but after [{hist}] in the same process the identical input gives {key[:3]} "
                            f"(output path now {obs['state']})", rec, obs))
        else:
            ok_texts.append(obs["text"])
            if obs["exc"]:
                bad.append(({"side": "success", "site": "main_driver", "condition": "outcome-depends-on-earlier-runs-in-the-process", "family": fam["family"], "history": hist},
                            f"well-formed run after [{hist}] failed: {obs['cause']}: {obs.get('cause_msg', '')[:100]}", rec, obs))
    texts = [t for t in ok_texts + ([ok_ref] if ok_ref is not None else []) if t is not None]
    if len(set(texts)) > 1:
        ctx.cov["correspondence_disagreements"] += 1
        bad.append(({"side": "success", "site": "main_driver", "condition": "outcome-depends-on-earlier-runs-in-the-process", "family": fam["family"], "history": "fail,ok-differs-from-fresh-ok"},
                    f"{fam['family']}: the well-formed run made after failing runs does not write the same bytes as before them",
                    {"kind": "history", "family": fam["family"], "files": fam["files"], "argv": fam["ok_argv"]}, obs))
    return bad, steps


def history_check(ctx, runner, smap, structs):
    fams = history_families(structs)
    # reference outputs of the well-formed runs, made BEFORE any run of the families
    refs = {}
    for fam in fams:
        key = tuple(fam["ok_argv"]) + (fam["files"]["in.pdb"],)
        if key not in refs:
            o = runner.run({"kind": "history", "family": "reference", "files": fam["files"], "argv": fam["ok_argv"], "pre": False})
            refs[key] = o["text"] if not o["exc"] else None
    for fam in fams:
        key = tuple(fam["ok_argv"]) + (fam["files"]["in.pdb"],)
        bad, steps = run_history(ctx, runner, smap, fam, refs[key])
        for sig, what, rec, obs in bad:
            report(ctx, [(sig, what)], rec, obs)
        if fam["family"] == "userff-trailing-garbage":
            ctx.sample({"history": fam["family"], "steps": [{"history": h, "observed": s_, "exception": e} for h, s_, e in steps]}, limit=8)
    # [fail(A), fail(B)]: all families twice more, back to back, each in a fresh directory with a sentinel
    firsts = {}
    for rnd in (0, 1):
        for fam in fams:
            case = {"kind": "history", "family": fam["family"], "files": fam["files"], "argv": fam["argv"], "pre": True, "expect": "fail",
                    "trigger": f"history:{fam['family']}:fail(A),fail(B)"}
            obs = runner.run(case)
            ctx.evaluated(("history-ab", fam["family"], rnd), True)
            report(ctx, judge(ctx, smap, case, obs, expect_fail=True), case, obs)
            k = outcome_key(obs, smap)
            if firsts.setdefault(fam["family"], k) != k:
                report(ctx, [({"side": "failure", "site": "main_driver", "condition": "outcome-depends-on-earlier-runs-in-the-process", "family": fam["family"], "history": "fail(A),fail(B)"},
                              f"{fam['family']}: {firsts[fam['family']][:3]} the first time, {k[:3]} after other failing runs")], case, obs)
    ctx.cov["history_families"] = [f["family"] for f in fams]


# --------------------------------------------------------------------------
# main entry


def run(ctx):
    ctx.cov["rule"] = (
        "fault enumeration: (configuration, stage of the generated table executed in it, injection mode line|call|inside, "
        "exception class, output path absent|pre-existing); non-trivial = the fault fired; distinct by (stage index, stage name, "
        "exception class, mode, pre-state). natural triggers: one run per (trigger, pre-state). success side (exploration): "
        "(structure tag, force field) for force fields that define every residue class of the structure; distinct by "
        "(force field, residue, position) cells covered"
    )
    info = regenerate(ctx)
    ok = core.proof_stage(ctx, "C12", THEOREMS, [])
    for _ in range(3):
        if table_is_ours(info):
            break
        # lost a race for the shared generated file: write ours again and redo the proof stage
        core.write_if_changed(core.GEN / "Stages.v", info["_text"])
        ctx.obligations.clear()
        ctx.discharged.clear()
        ctx.axioms.clear()
        ctx.broken[:] = [b for b in ctx.broken if b["kind"] != "proof-broken"]
        ctx.trusted[:] = ctx.trusted[:1]
        ok = core.proof_stage(ctx, "C12", THEOREMS, [])
    if info is None:
        # translator failed: fall back to the last generated table only to drive the search
        try:
            sys.path.insert(0, str(core.VERIF / "gen"))
            import stages as gen_stages  # noqa

            info = gen_stages.analyse("/repo") if core.REPO != Path("/repo") else None
        except Exception:
            info = None
    if info is None:
        ctx.notes.append("no stage table: fault enumeration by stage impossible; only natural triggers and the success side were run")
        info = {"stages": [], "tests": []}
    else:
        for b in python_obligation(info):
            ctx.notes.append("obligation (python re-computation): " + b)
    smap = StageMap(info)
    runner = Runner(ctx, smap)
    structs = structures()
    broke_before = bool(ctx.broken)
    heavy = ctx.thorough or broke_before

    # ---- corpus first
    run_corpus(ctx, runner, smap)

    # ---- model predictions
    preds = model_predictions(ctx, smap.n) if smap.n else None
    if preds is not None and not table_is_ours(info):
        core.write_if_changed(core.GEN / "Stages.v", info["_text"])
        core.coq_make(["Generated/Stages.vo"])
        preds = model_predictions(ctx, smap.n)

    # ---- 2a/2b fault enumeration
    covered = set()
    nfault = 0
    mism = 0
    for ci, cfg in enumerate(CONFIGS):
        if not smap.n:
            break
        base_case = config_case(structs, cfg)
        obs0 = runner.run(base_case)
        ctx.count(f"baseline:{cfg[0]}:{show(obs0)}")
        if obs0["exc"]:
            ctx.notes.append(f"configuration {cfg[0]} does not run fault-free ({obs0['cause']}: {obs0.get('cause_msg', '')[:120]}); skipped for fault enumeration")
            if cfg[0] == "default":
                report(ctx, [({"side": "success", "ff": "AMBER", "condition": f"abort-{obs0['cause']}", "culprit": "baseline"}, "default configuration fails")], base_case, obs0)
            continue
        executed, _ = check_trace(ctx, smap, runner, cfg[0], obs0)
        for sig_what in judge(ctx, smap, base_case, obs0):
            report(ctx, [sig_what], base_case, obs0)
        if preds is not None:
            for pre in (False,):
                exp = preds[(smap.n, "AtEntry", pre)]
                ctx.cov["correspondence_cases"] += 1
                if show(obs0) != exp:
                    mism += 1
                    ctx.cov["correspondence_disagreements"] += 1
                    ctx.broke("correspondence-broken", "Model.Pipeline.frun (no fault) vs main.main_driver", f"config {cfg[0]}: model {exp}, observed {show(obs0)}", {"config": cfg[0]})
        todo = sorted(executed if (ci == 0 or heavy) else executed - covered)
        covered |= executed
        for k in todo:
            s = smap.stages[k]
            modes = ["line"]
            if s.get("callee"):
                modes.append("call")
                if ctx.thorough or s["kind"] == "Output" or (k + ctx.seed) % (3 if heavy else 7) == 0:
                    modes.append("inside")
            for mi, mode in enumerate(modes):
                if ctx.thorough:
                    excs = EXC_CLASSES
                elif heavy:
                    excs = [EXC_CLASSES[(k + mi + ctx.seed) % 5], "ValueError"] if mode == "line" else [EXC_CLASSES[(k + mi + ctx.seed) % 5]]
                elif ci == 0 and mode == "line" and s["kind"] in ("Compute", "Rename", "Render", "Output"):
                    excs = EXC_CLASSES if (k + ctx.seed) % 3 == 0 else [EXC_CLASSES[(k + ctx.seed) % 5], "ValueError"]
                else:
                    excs = [EXC_CLASSES[(k + mi + ctx.seed) % 5]]
                if mode == "line":
                    if ctx.thorough:
                        excs = list(excs) + BASE_EXC_CLASSES
                    elif ci == 0 or heavy:
                        excs = list(excs) + [BASE_EXC_CLASSES[(k + ctx.seed) % 3]]
                for en in dict.fromkeys(excs):
                    for pre in (False, True):
                        fault = {"idx": k, "mode": mode, "exc": en, "after": 6}
                        case = config_case(structs, cfg, pre=pre, fault=fault)
                        obs = runner.run(case)
                        nfault += 1
                        fired = obs["fired"] is not None
                        ctx.count(f"fault:{mode}:{'fired' if fired else 'not-fired'}")
                        ctx.evaluated((k, s["name"], en, mode, pre), fired)
                        if not fired:
                            continue  # no Python callee (C function) or callee shorter than `after` lines
                        ctx.count(f"stage-kind:{s['kind']}")
                        ctx.count(f"exc:{en}")
                        fk = "Inside" if mode == "inside" else "AtEntry"
                        if preds is not None:
                            exp = preds[(k, fk, pre)]
                            ctx.cov["correspondence_cases"] += 1
                            if exp == "raised;partial" and show(obs) in ("raised;old", "raised;absent"):
                                # the model's in-writer case is an upper bound on the damage: a writer that
                                # leaves the path untouched (temp file + rename) is better, not different
                                ctx.count("writer-inside-fault-left-path-untouched")
                            elif show(obs) != exp:
                                mism += 1
                                ctx.cov["correspondence_disagreements"] += 1
                                if mism <= 4:
                                    ctx.broke("correspondence-broken", "Model.Pipeline.frun on Generated.Stages vs main.main_driver under fault injection",
                                              f"config {cfg[0]} stage {k} {s['name']} ({s['func']}:{s['line']}) {mode}/{en} pre={pre}: model {exp}, observed {show(obs)} [{obs['exc']}; {obs['state_why']}]",
                                              {k2: v for k2, v in case.items()})
                        # escaping exception class vs generated handler chain (informative tie of the handler table)
                        hp = handler_prediction(s, en)
                        if obs["exc"] and hp and obs["exc"] != hp and mode != "inside":
                            ctx.count("handler-table-mismatch")
                            if ctx.cov["distribution"].get("handler-table-mismatch", 0) <= 2:
                                ctx.broke("correspondence-broken", "generated handler chain vs escaping exception class",
                                          f"stage {k} {s['name']}: injected {en}, table predicts {hp}, observed {obs['exc']}", {k2: v for k2, v in case.items()})
                        report(ctx, judge(ctx, smap, case, obs), case, obs)
                        if k >= 20 and not any("fault_case" in x for x in ctx.cov["samples"] if isinstance(x, dict)):
                            ctx.sample({"fault_case": {"config": cfg[0], "stage": k, "name": s["name"], "mode": mode, "exc": en, "pre": pre},
                                        "model": preds[(k, fk, pre)] if preds else None, "observed": show(obs), "escaped": obs["exc"]})
    if smap.n:
        writer_truncation_check(ctx, runner, smap, structs, preds)
    guard_block_tie(ctx, runner, info)
    history_check(ctx, runner, smap, structs)
    ctx.cov["stages_total"] = smap.n
    ctx.cov["stages_fault_injected"] = len(covered)
    ctx.cov["stages_never_executed"] = [f"{s['idx']}:{s['name']}" for s in smap.stages if s["idx"] not in covered]
    ctx.cov["fault_runs"] = nfault

    # ---- natural triggers
    for nc in natural_cases(structs, ctx.thorough):
        for pre in (False, True):
            case = dict(nc)
            case["pre"] = pre
            obs = runner.run(case)
            ctx.count(f"natural:{nc['trigger']}:{show(obs)}")
            ctx.evaluated(("natural", nc["trigger"], pre), obs["exc"] is not None)
            k = obs.get("raise_stage")
            if preds is not None and obs["exc"] and k is not None and k != smap.writer:
                exp = preds[(k, "AtEntry", pre)]
                ctx.cov["correspondence_cases"] += 1
                if show(obs) != exp:
                    ctx.cov["correspondence_disagreements"] += 1
                    ctx.broke("correspondence-broken", "Model.Pipeline.frun vs main.main_driver on a natural trigger",
                              f"{nc['trigger']} pre={pre}: raised in stage {k} {smap.stages[k]['name']}; model {exp}, observed {show(obs)}", case)
            report(ctx, judge(ctx, smap, case, obs, expect_fail=(nc["expect"] == "fail")), case, obs)
            if nc["trigger"] == "userff-nonintegral-charge" and not pre:
                ctx.sample({"natural_trigger": nc["trigger"], "observed": show(obs), "exception": obs["exc"], "cause": obs.get("cause_msg"),
                            "raised_in_stage": smap.stages[k]["name"] if k is not None else None})

    # ---- command line entry
    for r in cli_cases(ctx, structs, runner):
        ctx.count(f"cli:{r['tag']}:rc{r['rc']}:{r['state']}")
        ctx.evaluated(("cli", r["tag"]), True)
        judge_cli(ctx, r)
    cli_lattice(ctx, structs, runner)
    logger_path_check(ctx)

    # ---- success side (exploration)
    cov, detail = ff_coverage()
    ctx.cov["forcefield_defines_class_explored"] = {f"{ff}:{c}": v for (ff, c), v in sorted(cov.items())}
    sts = success_structures(ctx) + titrated_structures(ctx) + layout_structures(ctx)
    nsucc = 0
    for st in sts:
        for ff in FFS:
            if not all(cov.get((ff, c), False) for c in st["classes"]):
                ctx.count("success:skipped-ff-does-not-define-class")
                continue
            case, obs, bad = run_success(ctx, runner, smap, st, ff, cov)
            nsucc += 1
            if st.get("titrated"):
                names = {l[17:20] for l in atom_lines(obs["text"] or "")}
                ctx.count("titrated:stub-called" if obs.get("propka_stub_calls") else "titrated:STUB-NOT-CALLED")
                for nm in sorted(names - {"ALA", "GLY"}):
                    ctx.count(f"titrated:output-resname:{nm}")
                if not obs.get("propka_stub_calls") and not obs["exc"]:
                    ctx.broke("correspondence-broken", "titrated success run did not reach main.run_propka (stub not called)", st["tag"], {"tag": st["tag"], "ff": ff})
            ctx.count(f"success:{ff}:{'ok' if not bad else 'FAILED'}")
            for cell in st["cells"]:
                ctx.evaluated(("success", ff, *cell), not bad and not obs["exc"])
            report(ctx, bad, case, obs)
            if nsucc == 5:
                ctx.sample({"success_case_explored": st["tag"], "ff": ff, "observed": show(obs), "atom_lines": len(atom_lines(obs["text"] or ""))})
    ctx.cov["success_runs_explored"] = nsucc

    ctx.sample({"obligation": "C12_generated_obligation: c12_obligation stages = true for the table generated from the current main.py "
                              f"({smap.n} stages, writer = stage {smap.writer})"})
    ctx.trusted += [
        "translator gen/stages.py (Python ast -> Generated/Stages.v): stage order, file-write sites, handler chains; cross-checked each run by the executed-line trace of fault-free runs and by the fault runs",
        "fault injection through sys.monitoring (an exception raised by the LINE/CALL callback at a driver statement / at the call of its principal callee / inside the callee) stands for 'the stage fails'",
        "file-state observation: os.stat (size, mtime_ns, inode) + sha256 of the output path; completeness = every atom line handed to print_pqr is in the file and it is END-terminated",
        "structure builder harness/builder.py (scaffolding); success side is exploration, not proof",
    ]
    ctx.assumptions += [
        "output PQR path differs from --pdb-output / --apbs-input paths, from the input path and does not end in .log (main() logs to <stem>.log)",
        "an I/O or encoding failure INSIDE print_pqr after the path was opened leaves a partial file (C12_fault_in_writer states this; it is outside the failure classes the property lists)",
        "failures after print_pqr (--pdb-output, --apbs-input) leave the complete PQR in place (C12_fault_after_writer)",
        "network access is replaced by an immediate ConnectionError / 404 for a missing input file",
    ]


# --------------------------------------------------------------------------
# corpus and replay


def exec_case(ctx, runner, smap, case):
    """Re-execute one recorded case; returns list of (signature, what)."""
    kind = case.get("kind")
    if kind == "success":
        st = {"tag": case["tag"], "pdb": case["files"]["in.pdb"], "classes": case.get("classes", []), "opts": [a for a in case["argv"][1:-2]],
              "n_res": case.get("n_res", 0), "cells": [], "propka_rows": case.get("propka_rows"), "titrated": case.get("titrated", False),
              "polymer": case.get("polymer"), "layout": case.get("layout"),
              "extra_files": {k: v for k, v in case["files"].items() if k != "in.pdb"}}
        _, obs, bad = run_success(ctx, runner, smap, st, case["ff"], {})
        return bad, obs
    if kind == "history" and case.get("family") not in (None, "reference"):
        fam = next((f for f in history_families(structures()) if f["family"] == case["family"]), None)
        if fam is None:
            return [], None
        bad, steps = run_history(ctx, runner, smap, fam)
        print("history steps:", steps)
        return [(b[0], b[1]) for b in bad], (bad[0][3] if bad else {"exc": None, "cause": None, "state": "-", "state_why": "", "opens": []})
    if kind == "cli":
        rc, state, why, err = cli_run(runner, case)
        r = {"tag": case["tag"], "rc": rc, "state": state, "why": why, "expect": case["expect"], "stderr_tail": err, "case": case}
        sig = judge_cli(ctx, r, report_=False)
        return ([sig] if sig else []), {"exc": f"rc{rc}" if rc else None, "cause": None, "state": state, "state_why": why, "opens": []}
    obs = runner.run(case)
    return judge(ctx, smap, case, obs, expect_fail=(case.get("expect") == "fail")), obs


def run_corpus(ctx, runner, smap):
    d = core.CORPUS / "C12"
    if not d.exists():
        return
    for f in sorted(d.glob("*.json")):
        case = json.loads(f.read_text())
        if case.get("fault") and (not smap.n or case["fault"]["idx"] >= smap.n):
            continue
        bad, obs = exec_case(ctx, runner, smap, case)
        ctx.count(f"corpus:{f.stem}:{'fails' if bad else 'passes'}")
        ctx.evaluated(("corpus", f.stem), True)
        if obs is not None:
            report(ctx, bad, case, obs)


def replay(ctx, data):
    case = data.get("case")
    if not case:
        print("replay: no concrete case in this file (proof/correspondence break):", data.get("no_longer_checks"))
        return 1
    info = regenerate(ctx) or {"stages": [], "tests": []}
    smap = StageMap(info)
    runner = Runner(ctx, smap)
    if case.get("kind") == "logger-path":
        global OUT_NAME_LATTICE
        OUT_NAME_LATTICE = [("replay", case["out_name"], False)]
        before = len(ctx.failures)
        logger_path_check(ctx)
        still = [f for f in ctx.failures[before:] if f["case"].get("out_name") == case["out_name"]]
        print("replay logger-path", case["out_name"], ":", "FAILS: " + still[0]["what"] if still else "passes")
        ctx.cleanup()
        return 1 if still else 0
    if case.get("kind") == "guard-block":
        global GUARD_DS
        GUARD_DS = [case["d"]]
        before = len(ctx.failures)
        guard_block_tie(ctx, runner, info)
        still = len(ctx.failures) > before or any("guard block" in b["what"] or "guard_ok" in b["what"] for b in ctx.broken)
        print("replay guard-block d =", case["d"], ":", "FAILS" if still else "passes", [f["what"][:160] for f in ctx.failures[before:]])
        ctx.cleanup()
        return 1 if still else 0
    if case.get("kind") == "cli":
        rc, state, why, err = cli_run(runner, case)
        r = {"tag": case["tag"], "rc": rc, "state": state, "why": why, "expect": case["expect"], "stderr_tail": err, "case": case}
        sig = judge_cli(ctx, r, report_=False)
        print("replay cli:", "FAILS: " + sig[1] if sig else "passes", "| rc", rc, "state", state)
        ctx.cleanup()
        return 1 if sig else 0
    case = {k: v for k, v in case.items() if k != "observed"}
    bad, obs = exec_case(ctx, runner, smap, case)
    want = data.get("signature")
    still = [b for b in bad if (want is None or b[0] == want)]
    print("replay:", "FAILS: " + still[0][1] if still else "passes", "| observed:", show(obs) if obs else None, "|", (obs or {}).get("exc"), (obs or {}).get("cause_msg", "")[:120] if obs else "")
    ctx.cleanup()
    return 1 if still else 0
