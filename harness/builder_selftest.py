"""Self test of harness/builder.py against the real pdb2pqr.

    cd /verif && PYTHONPATH=/repo:/verif /venv/bin/python harness/builder_selftest.py [-v]

Prints one line per section and a summary; exits non-zero when a REQUIRED
section fails ((1)-(3),(5)-(8) and the unit checks); sections marked
best-effort ((4) nucleic acids, (9) extras) are reported but never fail the run
unless the builder itself crashes.
"""

from __future__ import annotations

import io
import logging
import shutil
import sys
import tempfile
import time
import traceback

import numpy as np

from harness import builder as B

VERBOSE = "-v" in sys.argv[1:]
logging.getLogger().setLevel(logging.ERROR)

FORMAL = {"ARG": 1, "LYS": 1, "ASP": -1, "GLU": -1, "HIP": 1, "HSP": 1, "CYM": -1, "TYM": -1}


class Section:
    def __init__(self, tag, title, required=True):
        self.tag, self.title, self.required = tag, title, required
        self.n = 0
        self.fails: list[str] = []
        self.notes: list[str] = []

    def check(self, cond, what):
        self.n += 1
        if not cond:
            self.fails.append(what)
            if VERBOSE:
                print(f"    FAIL {self.tag}: {what}")
        return bool(cond)

    def note(self, s):
        self.notes.append(s)

    @property
    def ok(self):
        return not self.fails


SECTIONS: list[Section] = []


def section(tag, title, required=True):
    def deco(fn):
        def run(work):
            s = Section(tag, title, required)
            t0 = time.time()
            try:
                fn(s, work)
            except Exception:  # a crash of the builder/self test is always a failure
                s.required = True
                s.fails.append("CRASH: " + traceback.format_exc(limit=6))
            s.time = time.time() - t0
            SECTIONS.append(s)
            status = "PASS" if s.ok else ("FAIL" if s.required else "PARTIAL")
            print(f"[{status:7s}] ({tag}) {title}: {s.n - len(s.fails)}/{s.n} checks, {s.time:.1f}s")
            for nt in s.notes:
                print(f"           note: {nt}")
            for f in s.fails[: (50 if VERBOSE else 6)]:
                print(f"           fail: {f}")
            if len(s.fails) > 6 and not VERBOSE:
                print(f"           ... {len(s.fails) - 6} more (use -v)")
        run.__name__ = fn.__name__
        return run
    return deco


# ---------------------------------------------------------------------------
# helpers


def geometry_ok(s: Section, label: str, atoms, *, min_sep=2.0, min_nonbonded=2.5, cyclic=False, rigid=True):
    g = B.geometry_report(atoms, cyclic=cyclic)
    s.check(all(abs(d - 1.33) <= 0.02 for d in g["peptide_cn"]),
            f"{label}: C-N distances {['%.3f' % d for d in g['peptide_cn']]}")
    s.check(all(abs(d - 1.60) <= 0.02 for d in g["o3_p"]),
            f"{label}: O3'-P distances {['%.3f' % d for d in g['o3_p']]}")

    def pr(pair):
        a, b = pair
        return f"{a.resname}{a.resseq}:{a.name} - {b.resname}{b.resseq}:{b.name}" if a is not None else ""

    s.check(g["min_interresidue"] >= min_sep, f"{label}: clash {g['min_interresidue']:.2f} A {pr(g['min_pair'])}")
    s.check(g["min_nonbonded"] >= min_nonbonded,
            f"{label}: non-bonded contact {g['min_nonbonded']:.2f} A {pr(g['nonbonded_pair'])}")
    s.check(all(v == 1 for v in g["chirality"].values()), f"{label}: CA chirality {g['chirality']}")
    # every residue keeps the template's bond lengths and angles (1-2 and 1-3
    # heavy-atom distances); with rigid=True (no side-chain relaxation) ALL
    # intra-residue distances except those to the re-placed O/OXT are the template's
    worst_b, worst_all = 0.0, 0.0
    alias = {"OP1": "O1P", "OP2": "O2P"}
    for res in B.residues_of([a for a in atoms if not a.is_hydrogen]):
        rn = res[0].resname
        tn = rn if rn in B.definitions().map else B._na_template_name(rn, True)
        tpl = B.template(tn)
        bonds = B.template_bonds(tn)
        m = {alias.get(a.name, a.name): a.xyz for a in res if a.name != "OXT"}
        for x in m:
            for y in bonds.get(x, ()):
                if y in m:
                    worst_b = max(worst_b, abs(np.linalg.norm(m[x] - m[y]) - np.linalg.norm(tpl[x] - tpl[y])))
                    for z in bonds.get(y, ()):
                        if z in m and z != x:
                            worst_b = max(worst_b, abs(np.linalg.norm(m[x] - m[z]) - np.linalg.norm(tpl[x] - tpl[z])))
        if rigid:
            keep = [k for k in m if k != "O"]
            for i in range(len(keep)):
                for j in range(i):
                    worst_all = max(worst_all, abs(np.linalg.norm(m[keep[i]] - m[keep[j]]) - np.linalg.norm(tpl[keep[i]] - tpl[keep[j]])))
    s.check(worst_b < 1e-9, f"{label}: template bond lengths/angles not preserved (max deviation {worst_b:.2e})")
    s.check(worst_all < 1e-9, f"{label}: residues not rigid copies of the template (max deviation {worst_all:.2e})")
    return g


def final_residues(bio):
    """[(resname, chain, resseq, icode, [atom names])] of the finished molecule."""
    return [(r.name, r.chain_id, r.res_seq, r.ins_code, [a.name for a in r.atoms]) for r in bio.residues]


def run_clean(s: Section, label: str, atoms, ff: str, work, *, extra=(), expect_names=None,
              expect_charge=None, text=None, allow_warn=()):
    """Write, check 'clean before repair', run pdb2pqr, check names + charge.
    Returns the run dict."""
    text = B.to_pdb(atoms) if text is None else text
    pre = B.setup_biomolecule(text)
    s.check(pre["missing"] == 0 and not any("Missing atom" in m for m in pre["messages"]),
            f"{label}: num_missing_heavy={pre['missing']} before repair {pre['messages'][:3]}")
    r = B.run_pdb2pqr(text, [f"--ff={ff}", *extra], workdir=work, log_level=logging.INFO)
    if not s.check(r["exc"] is None and r["pqr_text"], f"{label} {ff}: pdb2pqr failed: {r['exc']!r} "
                   f"{[m for m in r['messages'] if not m.startswith('INFO')][:4]}"):
        return r
    s.check(any("This biomolecule is clean" in m for m in r["messages"]), f"{label} {ff}: not reported clean")
    bad = [m for m in r["messages"] if m.startswith(("WARNING", "ERROR", "CRITICAL"))
           and "header lines in output" not in m and not any(w in m for w in allow_warn)]
    s.check(not bad, f"{label} {ff}: warnings {bad[:3]}")
    missed, _pka, bio = r["result"]
    s.check(not missed, f"{label} {ff}: atoms without parameters {[str(a) for a in (missed or [])][:5]}")
    fin = final_residues(bio)
    inp = B.residues_of(atoms)
    s.check(len(fin) == len(inp), f"{label} {ff}: {len(fin)} residues out, {len(inp)} in")
    if expect_names is None:
        expect_names = B.expected_names_for(atoms)
    # pdb2pqr sorts chains by ID; match residues by (chain, resseq, icode)
    key_in = {(r[0].chain, r[0].resseq, r[0].icode.strip()): i for i, r in enumerate(inp)}
    for (rn, ch, rs, ic, names) in fin:
        i = key_in.get((ch, rs, ic))
        if not s.check(i is not None, f"{label} {ff}: unexpected residue {rn} {ch} {rs}{ic}"):
            continue
        req, opt = expect_names[i]
        got = set(names)
        s.check(len(got) == len(names), f"{label} {ff}: duplicate atom names in {rn}{rs}")
        s.check(req <= got <= (req | opt),
                f"{label} {ff}: {rn}{rs} names: missing {sorted(req - got)} extra {sorted(got - req - opt)}")
        heavy_in = {a.name for a in inp[i] if not a.is_hydrogen}
        heavy_out = {n for n in names if not n.startswith("H")}
        # (a 5'-terminal phosphate, when written, is deleted by the 5TERM patch)
        s.check(heavy_in == heavy_out or (heavy_out <= heavy_in and heavy_in - heavy_out <= {"P", "OP1", "OP2", "O1P", "O2P"}),
                f"{label} {ff}: {rn}{rs} heavy atoms in {sorted(heavy_in)} out {sorted(heavy_out)}")
    q = sum(a["charge"] for a in B.parse_pqr(r["pqr_text"]))
    s.check(abs(q - round(q)) < 1e-3, f"{label} {ff}: total charge {q:.4f} not integral")
    if expect_charge is not None:
        s.check(round(q) == expect_charge, f"{label} {ff}: total charge {q:.3f}, expected {expect_charge}")
    return r


def peptide_charge(seq):
    return sum(FORMAL.get(x, 0) for x in seq)  # + N-term(+1) + C-term(-1) = 0


# ---------------------------------------------------------------------------


@section("0", "unit checks: NeRF, Kabsch, to_pdb columns, determinism")
def sec0(s, work):
    rng = np.random.default_rng(0)
    for _ in range(50):
        a, b, c = rng.normal(size=(3, 3)) * 2
        bond, ang, tor = rng.uniform(1, 2), rng.uniform(60, 170), rng.uniform(-180, 180)
        d = B.place(a, b, c, bond, ang, tor)
        s.check(abs(np.linalg.norm(d - c) - bond) < 1e-12 and abs(B.angle(b, c, d) - ang) < 1e-9
                and abs(B._wrap(B.dihedral(a, b, c, d) - tor)) < 1e-9, "NeRF placement")
        R = B.random_rotation(rng)
        s.check(abs(np.linalg.det(R) - 1) < 1e-12 and np.allclose(R @ R.T, np.eye(3), atol=1e-12), "random_rotation proper")
        P = rng.normal(size=(5, 3))
        t = rng.normal(size=3)
        R2, t2 = B.kabsch(P, P @ R.T + t)
        s.check(np.allclose(R2, R, atol=1e-9) and np.allclose(t2, t, atol=1e-9), "kabsch recovers transform")
    at = B.build_peptide(["ALA", "TRP", "HIS"], hydrogens=True)
    txt = B.to_pdb(at)
    lines = txt.splitlines()
    s.check(all(len(ln) == 80 for ln in lines), "every line 80 columns")
    for ln in lines:
        if ln.startswith("ATOM"):
            name = ln[12:16]
            s.check((name[0] == " ") == (len(name.strip()) < 4), f"name alignment {name!r}")
            s.check(ln[76:78].strip() in ("C", "N", "O", "H", "S", "P"), f"element column {ln[76:78]!r}")
    s.check(lines[-1].startswith("END") and lines[-2].startswith("TER"), "TER/END present")
    s.check(B.to_pdb(at, crlf=True) == txt.replace("\n", "\r\n"), "crlf option")
    s.check(B.to_pdb(B.build_peptide(["ALA", "TRP", "HIS"], hydrogens=True)) == txt, "deterministic")
    try:
        B.to_pdb([B.AtomRec(name="CA", resname="ALA", resseq=12345)])
        s.check(False, "strict overflow not detected")
    except ValueError:
        s.check(True, "")
    s.check(len(B.to_pdb([B.AtomRec(name="CA", resname="ALA", resseq=12345)], strict=False).splitlines()[0]) == 81,
            "non-strict overflow widens the line")
    # placement / naming options
    R0 = B.random_rotation(rng)
    v = B.build_peptide(["ALA", "HIS", "ASP", "LYS"], variants={1: "HIP", 2: "ASH"}, chain="Q", start=-3,
                        origin=(5.0, -6.0, 7.0), rotation=R0, icode="B")
    s.check([r[0].resname for r in B.residues_of(v)] == ["ALA", "HIP", "ASH", "LYS"], "variants= override")
    s.check({a.chain for a in v} == {"Q"} and [r[0].resseq for r in B.residues_of(v)] == [-3, -2, -1, 0]
            and {a.icode for a in v} == {"B"}, "chain/start/icode")
    ca0 = next(a for a in v if a.name == "CA")
    s.check(np.allclose(ca0.xyz, (5.0, -6.0, 7.0), atol=1e-12), "origin = first CA")
    ref = B.build_peptide(["ALA", "HIP", "ASH", "LYS"])
    s.check(np.allclose(B.coords(v), B.coords(ref) @ R0.T + np.array((5.0, -6.0, 7.0)), atol=1e-9), "rotation about the first CA")
    s.check(not any(a.is_hydrogen for a in v) and [a.serial for a in v] == list(range(1, len(v) + 1)), "heavy only, serial 1..n")
    s.check(v[-1].name == "OXT" and not any(a.name == "OXT" for a in B.build_peptide(["ALA", "GLY"], cterm_oxt=False)), "OXT option")
    w0 = B.waters(4, around=[], rng=np.random.default_rng(0))
    s.check(len(w0) == 4, "waters without solute")
    # transforms
    moved = B.rigid(at, B.random_rotation(rng), (1, 2, 3))
    d0 = np.linalg.norm(B.coords(at)[0] - B.coords(at)[5])
    d1 = np.linalg.norm(B.coords(moved)[0] - B.coords(moved)[5])
    s.check(abs(d0 - d1) < 1e-12, "rigid keeps distances")
    s.check(len(B.delete_atoms(at, lambda a: a.is_hydrogen)) == sum(1 for a in at if not a.is_hydrogen), "delete_atoms")
    s.check({a.resseq for a in B.renumber(at, lambda c, r, i: r - 10)} == {-9, -8, -7}, "renumber")
    s.check({a.chain for a in B.set_chain(at, "Q")} == {"Q"}, "set_chain")


@section("1", "20 standard residues x {middle, N-term, C-term} x {AMBER, PARSE}")
def sec1(s, work):
    for x in B.STANDARD_AA:
        for seq in (["ALA", x, "ALA"], [x, "ALA", "ALA"], ["ALA", "ALA", x]):
            label = "-".join(seq)
            at = B.build_peptide(seq)
            geometry_ok(s, label, at)
            for ff in ("AMBER", "PARSE"):
                run_clean(s, label, at, ff, work, expect_charge=peptide_charge(seq))


@section("2", "pre-named protonation states inside ALA-X-ALA (and at the termini)")
def sec2(s, work):
    have = [v for v in B.VARIANT_AA if v in B.definitions().map]
    s.note("variants in the definition map: " + " ".join(have))
    unsupported = {}
    for x in have:
        if x == "CYX":
            continue  # needs a partner: tested in (7)
        for seq in (["ALA", x, "ALA"], [x, "ALA", "ALA"], ["ALA", "ALA", x]):
            label = "-".join(seq)
            at = B.build_peptide(seq)
            geometry_ok(s, label, at)
            for ff in ("AMBER", "PARSE"):
                probe = Section("p", "p")
                r = run_clean(probe, label, at, ff, work, expect_charge=peptide_charge(seq))
                # a state the force field has no parameters for is pdb2pqr's
                # limitation, not the builder's: report it, do not fail
                missed = r["result"][0] if r["result"] else None
                ff_gap = (r["exc"] is not None and "charge" in repr(r["exc"].__cause__ or r["exc"]).lower()) or bool(missed)
                if probe.fails and ff_gap:
                    unsupported.setdefault(ff, set()).add(f"{x}@{'NMC'[seq.index(x)]}")
                    pre = B.setup_biomolecule(B.to_pdb(at))
                    s.check(pre["missing"] == 0, f"{label}: missing heavy before repair")
                else:
                    s.n += probe.n
                    s.fails += probe.fails
    for ff, xs in unsupported.items():
        s.note(f"{ff} has no complete parameters for: {' '.join(sorted(xs))} (pdb2pqr limitation; builder output is clean)")


@section("3", "10-mer of charged residues, alpha helix, no clashes")
def sec3(s, work):
    seq = ["LYS", "GLU", "ARG", "ASP", "HIP", "LYS", "GLU", "ARG", "ASP", "LYS"]
    at = B.build_peptide(seq, helix=True)
    g = geometry_ok(s, "helix10", at, rigid=False)
    raw = B.geometry_report(B.build_peptide(seq, helix=True, relax=False))
    s.note(f"helix10 without relax: min non-bonded {raw['min_nonbonded']:.2f} A; with (default): {g['min_nonbonded']:.2f} A")
    res = B.residues_of(at)
    bb = [{a.name: a.xyz for a in r} for r in res]
    phis = [B.dihedral(bb[i - 1]["C"], bb[i]["N"], bb[i]["CA"], bb[i]["C"]) for i in range(1, len(bb))]
    psis = [B.dihedral(bb[i]["N"], bb[i]["CA"], bb[i]["C"], bb[i + 1]["N"]) for i in range(len(bb) - 1)]
    s.check(all(abs(p + 57) < 1e-6 for p in phis) and all(abs(p + 47) < 1e-6 for p in psis), f"phi/psi {phis[:2]} {psis[:2]}")
    # i -> i+4 hydrogen-bond geometry O(i)...N(i+4) about 3 A
    d = [np.linalg.norm(bb[i]["O"] - bb[i + 4]["N"]) for i in range(len(bb) - 4)]
    s.check(all(2.7 < x < 3.4 for x in d), f"O(i)-N(i+4) {['%.2f' % x for x in d]}")
    for ff in ("AMBER", "PARSE", "CHARMM"):
        run_clean(s, "helix10", at, ff, work, expect_charge=peptide_charge(seq))
    ext = B.build_peptide(seq)
    geometry_ok(s, "extended10", ext)
    run_clean(s, "extended10", ext, "AMBER", work, expect_charge=peptide_charge(seq))
    # arbitrary sequences: extended is clash free as built, helices after relax
    rng = np.random.default_rng(3)
    nopro = [x for x in B.STANDARD_AA if x != "PRO"]
    lo_ext, lo_hel = 9.0, 9.0
    for k in range(12):
        sq = [str(x) for x in rng.choice(B.STANDARD_AA, size=12)]
        s.check(B.to_pdb(B.build_peptide(sq)) == B.to_pdb(B.build_peptide(sq, relax=False)), f"ext-rand{k}: relax is a no-op")
        lo_ext = min(lo_ext, geometry_ok(s, f"ext-rand{k}", B.build_peptide(sq))["min_nonbonded"])
        sq = [str(x) for x in rng.choice(nopro, size=12)]
        hel = B.build_peptide(sq, helix=True)
        lo_hel = min(lo_hel, geometry_ok(s, f"helix-rand{k}", hel, rigid=False)["min_nonbonded"])
        if k < 3:
            run_clean(s, f"helix-rand{k}", hel, "AMBER", work, expect_charge=peptide_charge(sq))
            run_clean(s, f"ext-rand{k}", B.build_peptide(sq), "PARSE", work, expect_charge=peptide_charge(sq))
    s.note(f"random 12-mers: extended min non-bonded {lo_ext:.2f} A; PRO-free helix + relax {lo_hel:.2f} A")


NA_WARN = ("Tetrahedral hydrogen reconstruction", "has non-integer charge")


@section("4", "nucleic acids: DNA DA-DC-DG-DT, RNA A-C-G-U, 8-mers", required=False)
def sec4(s, work):
    cases = [
        ("DNA4", dict(seq=["A", "C", "G", "T"], rna=False)),
        ("RNA4", dict(seq=["A", "C", "G", "U"], rna=True)),
        ("DNA8", dict(seq=list("GATTACAG"), rna=False)),
        ("RNA8", dict(seq=list("GAUUACAG"), rna=True)),
        ("RNA4-RA", dict(seq=["A", "C", "G", "U"], rna=True, resnames="template")),
        ("DNA4-O1P", dict(seq=["DA", "DC", "DG", "DT"], phosphate_names="O_P")),
        ("DNA4-5P", dict(seq=["A", "C", "G", "T"], rna=False, five_prime_phosphate=True, phosphate_names="O_P")),
        ("DNA4-H", dict(seq=["A", "C", "G", "T"], rna=False, hydrogens=True)),
        ("RNA4-H", dict(seq=["A", "C", "G", "U"], rna=True, hydrogens=True)),
    ]
    works = {}
    for label, kw in cases:
        at = B.build_strand(**kw)
        geometry_ok(s, label, at, min_nonbonded=2.8)
        res = B.residues_of(at)
        exp = B.expected_names_for(at)
        s.check(exp[0][0] >= {"H5T", "O5'"} and "P" not in exp[0][0] and "H3T" in exp[-1][0], f"{label}: expected names of the ends")
        for ff in ("AMBER", "CHARMM", "PARSE"):
            probe = Section("p", "p")
            run_clean(probe, label, at, ff, work, expect_names=exp, expect_charge=-(len(res) - 1), allow_warn=NA_WARN)
            works[(label, ff)] = probe.ok
            if VERBOSE and not probe.ok:
                print("    ", label, ff, probe.fails[:3])
            is_dna = not kw.get("rna", False)
            if ff == "PARSE" and is_dna and not probe.ok:
                continue  # PARSE.DAT has no DNA residues: reported in the note below
            s.n += probe.n
            s.fails += probe.fails
    for ff in ("AMBER", "CHARMM", "PARSE"):
        s.note(f"{ff}: " + " ".join(f"{lab}={'ok' if works[(lab, ff)] else 'NO'}" for lab, _ in cases))
    s.note("per-residue non-integer charges of the 5'/3' nucleotides and the 'Tetrahedral hydrogen "
           "reconstruction' warning are pdb2pqr's normal behaviour for nucleic acids (total charge is integral)")
    # 5'-phosphate written with the PDB v3 names OP1/OP2: the 5TERM patch deletes P, O1P, O2P
    # by name only, so OP1/OP2 survive without their P (observation about pdb2pqr, not a builder fault)
    at = B.build_strand(list("ACGT"), five_prime_phosphate=True)
    r = B.run_pdb2pqr(B.to_pdb(at), ["--ff=AMBER"], workdir=work)
    left = [a.name for a in r["result"][2].residues[0].atoms if a.name in ("P", "OP1", "OP2")] if r["result"] else None
    r2 = B.run_pdb2pqr(B.to_pdb(at), ["--ff=CHARMM"], workdir=work)
    s.note(f"5'-phosphate with OP1/OP2 names: after 5TERM the first nucleotide still has {left}; "
           f"AMBER leaves them unparameterised, CHARMM run -> {type(r2['exc']).__name__ if r2['exc'] else 'ok'}")
    # peptide + DNA in one file
    pep = B.build_peptide(["ALA", "LYS", "ALA"], chain="A")
    dna = B.build_strand(list("ACGT"), chain="B", origin=(0.0, 25.0, 0.0))
    run_clean(s, "pep+DNA", pep + dna, "AMBER", work, expect_charge=1 - 3, allow_warn=NA_WARN)


# emitted by pdb2pqr's own water optimisation whenever two waters can see each other
WAT_WARN = ("Skipped atom during water optimization",)


@section("5", "peptide + 5 waters")
def sec5(s, work):
    rng = np.random.default_rng(5)
    pep = B.build_peptide(["ALA", "SER", "LYS", "ASP", "ALA"])
    wat = B.waters(5, around=pep, rng=rng)
    s.check(len(wat) == 5 and all(a.record == "HETATM" and a.resname == "HOH" for a in wat), "5 HOH HETATM")
    s.check(B.min_distance(B.coords(wat), B.coords(pep)) >= 3.5 - 1e-9, "waters >= 3.5 A from the peptide")
    xw = B.coords(wat)
    s.check(min(np.linalg.norm(xw[i] - xw[j]) for i in range(5) for j in range(i)) >= 3.5 - 1e-9, "waters >= 3.5 A apart")
    s.check(B.min_distance(xw, B.coords(pep)) <= 6.5, "waters within the first shell")
    s.check(B.to_pdb(B.waters(5, around=pep, rng=np.random.default_rng(5))) == B.to_pdb(wat), "deterministic for a seed")
    txt = B.to_pdb([pep, wat])
    s.check(txt.count("\nTER") == 1 and txt.count("HETATM") == 5, "one TER (after the peptide), 5 HETATM")
    for ff in ("AMBER", "PARSE"):
        r = run_clean(s, "pep+5wat", pep + wat, ff, work, text=txt, expect_charge=0, allow_warn=WAT_WARN)
        if r["pqr_text"]:
            s.check(sum(1 for a in B.parse_pqr(r["pqr_text"]) if a["resname"] in ("HOH", "WAT")) == 15,
                    f"{ff}: 5 waters x 3 atoms in the PQR")
        r2 = B.run_pdb2pqr(txt, [f"--ff={ff}", "--drop-water"], workdir=work)
        s.check(r2["exc"] is None and not any(a["resname"] in ("HOH", "WAT") for a in B.parse_pqr(r2["pqr_text"] or "")),
                f"{ff}: --drop-water removes them")
    # H-bonding water
    og = next(a for a in pep if a.name == "OG")
    w1 = B.waters(2, around=pep, rng=np.random.default_rng(1), near=og)
    s.check(abs(np.linalg.norm(w1[0].xyz - og.xyz) - 2.8) < 1e-9, "near= water at 2.8 A from SER OG")
    others = B.coords([a for a in pep if a is not og])
    s.check(B.min_distance(B.coords(w1[:1]), others) > 2.4, "near= water clear of other atoms")
    run_clean(s, "pep+near-water", pep + w1, "AMBER", work, expect_charge=0, allow_warn=WAT_WARN)
    wh = B.waters(3, around=pep, rng=np.random.default_rng(2), hydrogens=True)
    s.check(len(wh) == 9, "hydrogens=True waters have 3 atoms")
    run_clean(s, "pep+3wat(H)", pep + wh, "AMBER", work, expect_charge=0, allow_warn=WAT_WARN)


@section("6", "two chains with TER (and one flat list, blank chain IDs)")
def sec6(s, work):
    a = B.build_peptide(["GLY", "PHE", "LYS", "PRO", "ALA"], chain="A")
    b = B.build_peptide(["MET", "GLU", "TRP"], chain="B", start=101,
                        origin=(0.0, 12.0, 0.0), rotation=B.random_rotation(np.random.default_rng(6)))
    s.check(B.min_distance(B.coords(a), B.coords(b)) > 3.0, "chains do not touch")
    txt = B.to_pdb([a, b])
    s.check(txt.count("\nTER") == 2, "two TER records")
    s.check(B.to_pdb(a + b) == txt, "flat list splits at chain change")
    serials = [int(ln[6:11]) for ln in txt.splitlines() if ln[:3] in ("ATO", "TER", "HET")]
    s.check(serials == list(range(1, len(serials) + 1)), "serials consecutive incl. TER")
    for ff in ("AMBER", "PARSE"):
        r = run_clean(s, "A+B", a + b, ff, work, extra=["--keep-chain"], text=txt, expect_charge=1 - 1)
        if r["result"]:
            bio = r["result"][2]
            s.check([c.chain_id for c in bio.chains] == ["A", "B"], f"{ff}: chains {[c.chain_id for c in bio.chains]}")
            ends = [(c.residues[0].is_n_term, c.residues[-1].is_c_term) for c in bio.chains]
            s.check(all(x and y for x, y in ends), f"{ff}: termini per chain {ends}")
            s.check({x["chain"] for x in B.parse_pqr(r["pqr_text"])} == {"A", "B"}, f"{ff}: --keep-chain writes A,B")
    # blank chain IDs: pdb2pqr assigns A, B from the TER count
    txt2 = B.to_pdb([B.set_chain(a, ""), B.set_chain(b, "")])
    r = B.run_pdb2pqr(txt2, ["--ff=AMBER", "--keep-chain"], workdir=work)
    s.check(r["exc"] is None and {x["chain"] for x in B.parse_pqr(r["pqr_text"] or "")} == {"A", "B"},
            f"blank chain IDs + TER -> A,B ({r['exc']!r})")


@section("7", "disulfide_pair: 2.04 A -> CYX+CYX, 3.5 A -> CYS+CYS with HG")
def sec7(s, work):
    for dist, bonded in ((2.04, True), (3.5, False), (2.499, True), (2.5, False)):
        a, b = B.disulfide_pair(dist)
        sg = [x for x in a + b if x.name == "SG"]
        d_mem = float(np.linalg.norm(sg[0].xyz - sg[1].xyz))
        s.check(abs(d_mem - dist) < 1e-12, f"dist {dist}: in-memory SG-SG {d_mem!r}")
        txt = B.to_pdb([a, b])
        xyz = [np.array([float(ln[30:38]), float(ln[38:46]), float(ln[46:54])]) for ln in txt.splitlines() if ln[12:16].strip() == "SG"]
        d_txt = float(np.linalg.norm(xyz[0] - xyz[1]))
        s.check(abs(d_txt - dist) < 1e-12, f"dist {dist}: SG-SG after %8.3f rounding {d_txt!r}")
        geometry_ok(s, f"SS{dist}", a + b)
        xa = B.coords([x for x in a if x.name != "SG"])
        xb = B.coords([x for x in b if x.name != "SG"])
        sga, sgb = B.coords([x for x in a if x.name == "SG"]), B.coords([x for x in b if x.name == "SG"])
        other = min(B.min_distance(xa, xb), B.min_distance(sga, xb), B.min_distance(xa, sgb))
        s.check(other >= 2.9, f"dist {dist}: other inter-chain contacts {other:.2f}")
        for ff in ("AMBER", "PARSE"):
            r = run_clean(s, f"SS{dist}", a + b, ff, work, text=txt, expect_charge=0,
                          expect_names=[B.expected_atom_names("ALA", nterm=True),
                                        B.expected_atom_names("CYX" if bonded else "CYS"),
                                        B.expected_atom_names("ALA", cterm=True)] * 2)
            if r["result"]:
                cys = [res for res in r["result"][2].residues if res.name in ("CYS", "CYX")]
                s.check(len(cys) == 2 and all(bool(c.ss_bonded) == bonded for c in cys),
                        f"dist {dist} {ff}: ss_bonded {[c.ss_bonded for c in cys]}")
                s.check(all(("HG" in c.map) == (not bonded) for c in cys), f"dist {dist} {ff}: HG presence")
                s.check({c.ffname for c in cys} == ({"CYX"} if bonded else {"CYS"}),
                        f"dist {dist} {ff}: force-field names {[c.ffname for c in cys]}")
    # pre-named CYX pair
    a, b = B.disulfide_pair(2.04, resname="CYX")
    s.check({x.resname for x in a + b if x.name == "SG"} == {"CYX"}, "resname='CYX' written")
    for ff in ("AMBER", "PARSE"):
        run_clean(s, "SS-CYX-named", a + b, ff, work, expect_charge=0)
    # snap=False with a random rotation keeps the in-memory distance
    a, b = B.disulfide_pair(2.04, rng=np.random.default_rng(3), snap=False)
    sg = [x for x in a + b if x.name == "SG"]
    s.check(abs(np.linalg.norm(sg[0].xyz - sg[1].xyz) - 2.04) < 1e-12, "snap=False distance")


@section("8", "negative residue numbers and insertion codes round-trip through pdb2pqr's reader")
def sec8(s, work):
    from pdb2pqr import pdb as ppdb

    at = B.build_peptide(["ALA", "GLY", "SER", "VAL", "LEU"], start=-2)
    at = B.renumber(at, lambda c, r, i: (0, "A") if r == 1 else ((0, "B") if r == 2 else r))
    want = [(-2, ""), (-1, ""), (0, ""), (0, "A"), (0, "B")]
    s.check([(r[0].resseq, r[0].icode) for r in B.residues_of(at)] == want, "renumber with icodes")
    txt = B.to_pdb(at)
    recs, errs = ppdb.read_pdb(io.StringIO(txt))
    atoms = [r for r in recs if isinstance(r, (ppdb.ATOM, ppdb.HETATM))]
    s.check(not errs and len(atoms) == len(at), f"read_pdb: errs {errs}, {len(atoms)} atoms")
    for rec, a in zip(atoms, at):
        s.check((rec.serial, rec.name, rec.res_name, rec.chain_id, rec.res_seq, rec.ins_code, rec.element) ==
                (a.serial, a.name, a.resname, a.chain, a.resseq, a.icode, a.element)
                and abs(rec.x - a.x) <= 0.0005 + 1e-12 and abs(rec.y - a.y) <= 0.0005 + 1e-12 and abs(rec.z - a.z) <= 0.0005 + 1e-12
                and rec.occupancy == 1.0 and rec.temp_factor == 0.0 and rec.alt_loc == "",
                f"field round trip {a}")
    ter = [r for r in recs if isinstance(r, ppdb.TER)]
    s.check(len(ter) == 1 and (ter[0].res_seq, ter[0].ins_code, ter[0].chain_id) == (0, "B", "A"), "TER fields")
    # icodes= override at write time
    txt2 = B.to_pdb(B.build_peptide(["ALA", "GLY", "SER"], start=-1), icodes={("A", 0): "X"})
    recs2, _ = ppdb.read_pdb(io.StringIO(txt2))
    s.check({(r.res_seq, r.ins_code) for r in recs2 if isinstance(r, ppdb.ATOM)} == {(-1, ""), (0, "X"), (1, "")}, "icodes= override")
    r = run_clean(s, "neg+icode", at, "AMBER", work, expect_charge=0)
    if r["result"]:
        fin = [(x.res_seq, x.ins_code) for x in r["result"][2].residues]
        s.check(fin == want, f"pdb2pqr residues {fin}")
    # via the file based reader as well
    from pdb2pqr import io as pio
    pl, is_cif = pio.get_molecule(r["input_path"])
    s.check(not is_cif and sum(isinstance(x, ppdb.ATOM) for x in pl) == len(at), "io.get_molecule")
    # altloc column
    txt3 = B.to_pdb(B.build_peptide(["ALA", "GLY"]), altloc="A")
    recs3, _ = ppdb.read_pdb(io.StringIO(txt3))
    s.check(all(r.alt_loc == "A" for r in recs3 if isinstance(r, ppdb.ATOM)), "altloc= written in column 17")


@section("9", "extras: hydrogens=True input, ring_peptide, pack_against, delete_atoms repair, CIF, CRLF", required=False)
def sec9(s, work):
    # hydrogens=True input gives the same finished atom names as heavy-only input
    for seq in (["ALA", "LYS", "HIP", "ASH", "PRO", "TYR", "GLY"], ["PRO", "CYS", "GLH", "TRP", "HID", "HIE", "ARG"]):
        at = B.build_peptide(seq, hydrogens=True)
        geometry_ok(s, "H:" + "-".join(seq), at)
        hv = B.delete_atoms(at, lambda a: a.is_hydrogen)
        for ff in ("AMBER", "PARSE"):
            r1 = run_clean(s, "H:" + "-".join(seq), at, ff, work, expect_charge=peptide_charge(seq))
            r2 = B.run_pdb2pqr(B.to_pdb(hv), [f"--ff={ff}"], workdir=work)
            if r1["result"] and r2["result"]:
                n1 = [(x[0], sorted(x[4])) for x in final_residues(r1["result"][2])]
                n2 = [(x[0], sorted(x[4])) for x in final_residues(r2["result"][2])]
                s.check(n1 == n2, f"{ff}: hydrogens=True and heavy-only inputs finish with different names "
                        f"{[(a, b) for a, b in zip(n1, n2) if a != b][:2]}")
    # cyclic peptides
    for n in (5, 6, 8, 12):
        seq = (["GLY", "ALA", "SER", "LEU", "ASN", "VAL"] * 2)[:n]
        try:
            ring = B.ring_peptide(seq)
        except ValueError as e:
            s.check(False, f"ring {n}: {e}")
            continue
        res = B.residues_of(ring)
        d = float(np.linalg.norm(next(a for a in res[-1] if a.name == "C").xyz - next(a for a in res[0] if a.name == "N").xyz))
        s.check(abs(d - 1.33) < 1e-6, f"ring {n}: closing C-N {d:.4f}")
        g = geometry_ok(s, f"ring{n}", ring, cyclic=True, min_nonbonded=2.4, rigid=False)
        r = B.run_pdb2pqr(B.to_pdb(ring), ["--ff=AMBER"], workdir=work, log_level=logging.INFO)
        s.check(r["exc"] is None, f"ring {n}: pdb2pqr {r['exc']!r}")
        if r["result"]:
            bio = r["result"][2]
            s.check(not any(x.is_n_term or x.is_c_term for x in bio.residues), f"ring {n}: treated as cyclic (no termini)")
            s.check(any("clean" in m for m in r["messages"]), f"ring {n}: clean")
            exp = B.expected_names_for(ring, cyclic_chains=("A",))
            s.check(all(e[0] <= set(x[4]) <= e[0] | e[1] for e, x in zip(exp, final_residues(bio))), f"ring {n}: final atom names")
        s.note(f"ring {n}: {len(B._ring_solutions(n))} backbone solutions, chosen min non-bonded {g['min_nonbonded']:.2f} A")
    # pack_against
    a = B.build_peptide(["ALA", "PHE", "ALA"], chain="A")
    b = B.build_peptide(["ALA", "LEU", "ALA"], chain="B", origin=(0, 30, 0))
    for gap in (4.0, 1.5, 0.8):
        b2 = B.pack_against(a, b, gap)
        m = B.min_distance(B.coords(B._heavy(a)), B.coords(B._heavy(b2)))
        s.check(abs(m - gap) < 1e-6, f"pack_against gap {gap}: got {m:.6f}")
        r = B.run_pdb2pqr(B.to_pdb([a, b2]), ["--ff=AMBER"], workdir=work)
        s.check(r["exc"] is None, f"pack_against gap {gap}: pdb2pqr {r['exc']!r}")
    # deleted side chain atoms are reported missing and repaired
    at = B.delete_atoms(B.build_peptide(["ALA", "LYS", "ALA"]), lambda x: x.resname == "LYS" and x.name in ("CE", "NZ"))
    pre = B.setup_biomolecule(B.to_pdb(at))
    s.check(pre["missing"] == 2, f"delete_atoms: num_missing_heavy {pre['missing']}")
    r = B.run_pdb2pqr(B.to_pdb(at), ["--ff=AMBER"], workdir=work)
    s.check(r["exc"] is None and {"CE", "NZ"} <= {x["name"] for x in B.parse_pqr(r["pqr_text"] or "") if x["resname"] == "LYS"},
            "delete_atoms: repaired by pdb2pqr")
    # CRLF input
    r = B.run_pdb2pqr(B.to_pdb(B.build_peptide(["ALA", "LYS", "ALA"]), crlf=True), ["--ff=AMBER"], workdir=work)
    s.check(r["exc"] is None, f"CRLF input: {r['exc']!r}")
    # CIF: cif.read_cif accepts the file and yields one ATOM per atom with the right
    # coordinates; the residue-name column shift is pdb2pqr's own (same on tests/data/1FAS.cif)
    from pdb2pqr import cif as pcif, pdb as ppdb
    at = B.build_peptide(["ALA", "LYS", "ALA"])
    pl, errs = pcif.read_cif(io.StringIO(B.to_cif(at)))
    recs = [x for x in pl if isinstance(x, ppdb.ATOM)]
    s.check(not errs and len(recs) == len(at), f"to_cif: read_cif errs {errs}, {len(recs)} atoms")
    s.check(all(abs(r.x - round(a.x, 3)) < 1e-9 and abs(r.z - round(a.z, 3)) < 1e-9 and r.serial == a.serial
                for r, a in zip(recs, at)), "to_cif: coordinates/serials round trip")
    s.note(f"to_cif: read_cif parses residue names as {sorted({r.res_name for r in recs})} "
           "(known alt-loc column shift of pdb2pqr/cif.py with the installed pdbx; real CIF files behave the same)")
    # run_pdb2pqr never raises
    r = B.run_pdb2pqr("garbage\n", ["--ff=AMBER"], workdir=work)
    s.check(r["exc"] is not None and r["result"] is None, "garbage input -> exc captured")
    r = B.run_pdb2pqr(B.to_pdb(at), ["--ff=NOPE"], workdir=work)
    s.check(isinstance(r["exc"], SystemExit) and "invalid choice" in r["stderr"], "argparse SystemExit captured")


@section("10", "random multi-chain structures (states, hydrogens, helices, waters, numbering) with PARSE")
def sec10(s, work):
    rng = np.random.default_rng(10)
    pool = B.STANDARD_AA + [v for v in B.VARIANT_AA if v != "CYX"]
    for k in range(25):
        chains, y = [], 0.0
        for c in range(int(rng.integers(1, 4))):
            seq = [str(x) for x in rng.choice(pool, size=int(rng.integers(2, 10)))]
            chains.append(B.build_peptide(
                seq, chain="ABC"[c], start=int(rng.integers(-5, 50)), origin=(0.0, y, 0.0),
                rotation=B.random_rotation(rng), hydrogens=bool(rng.integers(0, 2)),
                helix=bool(rng.integers(0, 2)) and "PRO" not in seq))
            y += 60.0
        flat = [a for ch in chains for a in ch]
        q = sum(peptide_charge([r[0].resname for r in B.residues_of(ch)]) for ch in chains)
        if rng.integers(0, 2):
            flat += B.waters(int(rng.integers(1, 6)), around=flat, rng=rng)
        geometry_ok(s, f"rand{k}", flat, rigid=False)
        run_clean(s, f"rand{k}", flat, "PARSE", work, expect_charge=q, allow_warn=WAT_WARN)
    # a chain of ONE residue: clean input, but pdb2pqr names it N<res> and has no OXT parameters
    one = B.build_peptide(["THR"])
    r = B.run_pdb2pqr(B.to_pdb(one), ["--ff=PARSE"], workdir=work)
    s.check(B.setup_biomolecule(B.to_pdb(one))["missing"] == 0, "single residue: clean")
    if r["result"]:
        s.note(f"single-residue chain: pdb2pqr assigns {r['result'][2].residues[0].ffname} and leaves "
               f"{[a.name for a in r['result'][0]]} without parameters (pdb2pqr limitation: build chains of >= 2 residues)")


def main():
    t0 = time.time()
    work = tempfile.mkdtemp(prefix="builder_selftest_")
    try:
        for fn in (sec0, sec1, sec2, sec3, sec4, sec5, sec6, sec7, sec8, sec9, sec10):
            fn(work)
    finally:
        shutil.rmtree(work, ignore_errors=True)
    req_fail = [s for s in SECTIONS if s.required and not s.ok]
    opt_fail = [s for s in SECTIONS if not s.required and not s.ok]
    print("-" * 72)
    print(f"SUMMARY: {sum(s.ok for s in SECTIONS)}/{len(SECTIONS)} sections pass; "
          f"required failing: {[s.tag for s in req_fail] or 'none'}; "
          f"best-effort partial: {[s.tag for s in opt_fail] or 'none'}; "
          f"{sum(s.n for s in SECTIONS)} checks, {time.time() - t0:.1f}s")
    return 1 if req_fail else 0


if __name__ == "__main__":
    sys.exit(main())
